#!/bin/bash
# Entry point of every MANIFEST command:  run.sh <ID> <quick|thorough> [--replay file]
# Rebuilds the monitor against /repo's current working tree (through the replace directive in go.mod).
set -u
cd "$(dirname "$0")"
ROOT="$(pwd)"
export GOFLAGS=-mod=mod GOPROXY=off GOSUMDB=off GOTOOLCHAIN=local TZ=UTC
export GOCACHE="${GOCACHE:-$ROOT/work/gocache}"
ID="${1:?property id}"; TIER="${2:-${VERIF_TIER:-quick}}"; shift; shift || true
mkdir -p bin work
cp /repo/go.sum "$ROOT/go.sum" 2>/dev/null || true
BUILDLOG="work/build-$ID.log"
if ! go build -o "bin/zogmon-$ID" ./cmd/zogmon >"$BUILDLOG" 2>&1; then
  echo "INCONCLUSIVE property=$ID build failed (see $ROOT/$BUILDLOG)"; tail -20 "$BUILDLOG"; exit 2
fi
RACEARG=()
case "$ID" in
  C08)
    if ! go build -race -o "bin/zogmon-race-$ID" ./cmd/zogmon >>"$BUILDLOG" 2>&1; then
      echo "INCONCLUSIVE property=$ID race build failed (see $ROOT/$BUILDLOG)"; tail -20 "$BUILDLOG"; exit 2
    fi
    RACEARG=(-racebin "$ROOT/bin/zogmon-race-$ID");;
esac
exec "bin/zogmon-$ID" -root "$ROOT" -prop "$ID" -tier "$TIER" "${RACEARG[@]}" "$@"
