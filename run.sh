#!/bin/bash
# Entry point of every MANIFEST command:  run.sh <ID> <quick|thorough> [--replay file]
# Rebuilds the monitor against /repo's current working tree (through the replace directive in go.mod).
set -u
cd "$(dirname "$0")"
ROOT="$(pwd)"
export GOFLAGS=-mod=mod GOPROXY=off GOSUMDB=off GOTOOLCHAIN=local TZ=UTC
export GOCACHE="${GOCACHE:-$ROOT/work/gocache}"
ID="${1:?property id}"; TIER="${2:-${VERIF_TIER:-quick}}"; shift; shift || true
mkdir -p bin work
cp /repo/go.sum "$ROOT/go.sum" 2>/dev/null || true
# Self-test mode (never used by MANIFEST commands): ZOG_REPO=<scratch copy of the repository> builds against that copy through a
# generated -modfile, VERIF_OUT=<dir> receives evidence / replays / work files, so /repo and /verif stay untouched.
MODARGS=(); OUT="$ROOT"; BINTAG="$ID"
if [ -n "${ZOG_REPO:-}" ]; then
  OUT="${VERIF_OUT:?VERIF_OUT must be set with ZOG_REPO}"; mkdir -p "$OUT"
  sed "s#=> /repo#=> $ZOG_REPO#" go.mod > "$OUT/go.mod"; cp go.sum "$OUT/go.sum"; cp known_findings.json "$OUT/" 2>/dev/null
  MODARGS=(-modfile="$OUT/go.mod"); BINTAG="$ID-$(echo "$OUT" | md5sum | cut -c1-10)"
fi
BUILDLOG="work/build-$BINTAG.log"
if ! go build "${MODARGS[@]}" -o "bin/zogmon-$BINTAG" ./cmd/zogmon >"$BUILDLOG" 2>&1; then
  echo "INCONCLUSIVE property=$ID build failed (see $ROOT/$BUILDLOG)"; tail -20 "$BUILDLOG"; exit 2
fi
RACEARG=()
case "$ID" in
  C08)
    if ! go build "${MODARGS[@]}" -race -o "bin/zogmon-race-$BINTAG" ./cmd/zogmon >>"$BUILDLOG" 2>&1; then
      echo "INCONCLUSIVE property=$ID race build failed (see $ROOT/$BUILDLOG)"; tail -20 "$BUILDLOG"; exit 2
    fi
    RACEARG=(-racebin "$ROOT/bin/zogmon-race-$BINTAG");;
esac
# thorough tier of the schedule-sensitive monitors: every second worker is built with the second toolchain (go1.26.8: swiss-table maps,
# different scheduler), which widens the field visit orders and interleavings observed. Optional: skipped if that toolchain cannot build.
ALTARG=()
if [ "$TIER" = thorough ] && command -v go1.26.8 >/dev/null 2>&1; then
  case "$ID" in
    C07|C09) if go1.26.8 build "${MODARGS[@]}" -o "bin/zogmon-alt-$BINTAG" ./cmd/zogmon >>"$BUILDLOG" 2>&1; then ALTARG=(-altbin "$ROOT/bin/zogmon-alt-$BINTAG"); fi;;
    C08) if go1.26.8 build "${MODARGS[@]}" -race -o "bin/zogmon-alt-$BINTAG" ./cmd/zogmon >>"$BUILDLOG" 2>&1; then ALTARG=(-altbin "$ROOT/bin/zogmon-alt-$BINTAG"); fi;;
  esac
fi
"bin/zogmon-$BINTAG" -root "$OUT" -prop "$ID" -tier "$TIER" "${RACEARG[@]}" "${ALTARG[@]}" "$@"; CODE=$?
if [ -n "${ZOG_REPO:-}" ]; then rm -f "bin/zogmon-$BINTAG" "bin/zogmon-race-$BINTAG" "bin/zogmon-alt-$BINTAG" "$BUILDLOG"; fi
exit $CODE
