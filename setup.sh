#!/bin/bash
# Run once after a fresh restore, offline: warms the Go build cache by building the monitor binaries.
set -eu
cd "$(dirname "$0")"
ROOT="$(pwd)"
export GOFLAGS=-mod=mod GOPROXY=off GOSUMDB=off GOTOOLCHAIN=local TZ=UTC
export GOCACHE="${GOCACHE:-$ROOT/work/gocache}"
mkdir -p bin work evidence
cp /repo/go.sum "$ROOT/go.sum"
go build -o bin/zogmon ./cmd/zogmon
go build -race -o bin/zogmon-race ./cmd/zogmon
echo setup ok
