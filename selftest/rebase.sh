#!/bin/bash
# rebase.sh <seeded name>... : tries to re-make a seeded patch that no longer applies on /repo HEAD (a later fix touched the same lines),
# with `patch --fuzz`, in a scratch worktree; on success the patch is replaced and re-confirmed with confirm_mutant.sh.
cd "$(dirname "$0")/.."
for name in "$@"; do
  W=/tmp/rebase-$name-$$; rm -rf $W
  git -C /repo worktree add -q --detach $W HEAD || continue
  if (cd $W && patch -p1 --fuzz=3 --no-backup-if-mismatch -s < /verif/seeded/$name/patch.diff); then
    (cd $W && find . -name '*.orig' -delete && git add -A -N . && git diff > /verif/seeded/$name/patch.diff.new)
    mv seeded/$name/patch.diff.new seeded/$name/patch.diff
    git -C /repo worktree remove --force $W
    res=$(./selftest/confirm_mutant.sh seeded/$name)
    echo "$name rebased: $res"
    python3 - "$name" "$res" <<'PY'
import json,sys
name,res=sys.argv[1],sys.argv[2]
p=f'/verif/seeded/{name}/meta.json'; m=json.load(open(p))
m['confirmation']=json.loads(res)
m['rebased']=f"patch.diff re-made on /repo HEAD {m['confirmation'].get('head')} with patch --fuzz (a later fix touched the same lines); same change, re-confirmed with selftest/confirm_mutant.sh"
json.dump(m,open(p,'w'),indent=1)
PY
  else
    echo "$name: REJECTS"; (cd $W && find . -name '*.rej' | head -3)
    git -C /repo worktree remove --force $W
  fi
done
