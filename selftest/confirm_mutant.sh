#!/bin/bash
# confirm_mutant.sh <seeded dir>: confirms, in a scratch worktree of /repo HEAD, that the patch applies, the pinned
# suite still passes with it, the demonstration fails with it and passes without it. Prints one line of JSON.
set -u
D="$(cd "$1" && pwd)"; NAME="$(basename "$D")"
export GOFLAGS=-mod=mod GOPROXY=off GOSUMDB=off GOTOOLCHAIN=local
WT="/tmp/confirm-$NAME-$$"
git -C /repo worktree add -q --detach "$WT" HEAD || { echo "{\"name\":\"$NAME\",\"error\":\"worktree\"}"; exit 1; }
cleanup() { git -C /repo worktree remove --force "$WT" >/dev/null 2>&1; }
trap cleanup EXIT
cd "$WT"
applies=false; suite=false; demo_fails=false; demo_passes=false
cp "$D/demo_test.go" ./zz_demo_test.go
if go test -mod=mod -vet=off -count=1 -run 'Demo|C[0-9][0-9]' . >/tmp/confirm-$NAME-clean.log 2>&1; then demo_passes=true; fi
rm -f zz_demo_test.go
if git apply --3way "$D/patch.diff" >/dev/null 2>&1 || git apply "$D/patch.diff" >/dev/null 2>&1; then
  applies=true
  if go test -mod=mod -vet=off -count=1 ./... >/tmp/confirm-$NAME-suite.log 2>&1; then suite=true; fi
  cp "$D/demo_test.go" ./zz_demo_test.go
  if ! go test -mod=mod -vet=off -count=1 -run 'Demo|C[0-9][0-9]' . >/tmp/confirm-$NAME-mut.log 2>&1; then demo_fails=true; fi
  rm -f zz_demo_test.go
fi
echo "{\"name\":\"$NAME\",\"head\":\"$(git -C /repo rev-parse --short HEAD)\",\"applies\":$applies,\"suite_passes_with_patch\":$suite,\"demo_fails_with_patch\":$demo_fails,\"demo_passes_without_patch\":$demo_passes}"
rm -f /tmp/confirm-$NAME-*.log
