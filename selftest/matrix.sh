#!/bin/bash
# matrix.sh [jobs] : kill matrix. Every seeded change (seeded/*/patch.diff) and every reverted fix (selftest/reverts/*.diff) is applied to its own
# scratch copy of /repo under /tmp (OWN=1: only the check of the change's own property is run), all quick checks are run against the copy (ZOG_REPO), the copy is removed. Output: selftest/matrix.tsv
cd "$(dirname "$0")/.."; ROOT="$(pwd)"
JOBS="${1:-4}"
IDS="${IDS:-$(python3 -c "import json;print(' '.join(c['property_id'] for c in json.load(open('MANIFEST.json'))['checks']))")}"
OUTFILE="${OUTFILE:-selftest/matrix.tsv}"
one() {
  patch="$1"; name="$2"
  W="/tmp/mx-${name//:/-}"; rm -rf "$W"; mkdir -p "$W"
  git -C /repo worktree add -q --detach "$W/repo" HEAD || { echo -e "$name\tERROR worktree"; return; }
  ( cd "$W/repo" && (git apply --3way "$patch" 2>/dev/null || git apply "$patch") ) || { echo -e "$name\tERROR apply"; git -C /repo worktree remove --force "$W/repo"; rm -rf "$W"; return; }
  res=""
  ids="$IDS"; [ -n "${OWN:-}" ] && case "$name" in seeded:C[0-9][0-9]*) ids="${name#seeded:}"; ids="${ids:0:3}";; esac
  for id in $ids; do
    ZOG_REPO="$W/repo" VERIF_OUT="$W/out-$id" ./run.sh $id quick >"$W/log-$id.txt" 2>&1; code=$?
    case $code in 0) ;; 1) res="$res $id";; *) res="$res $id(inconclusive)";; esac
  done
  echo -e "$name\t${res:- (none)}"
  git -C /repo worktree remove --force "$W/repo"; rm -rf "$W"
}
export -f one; export IDS ROOT OWN
{
  for d in seeded/${PATTERN:-*}/; do n=$(basename $d); echo "$ROOT/seeded/$n/patch.diff seeded:$n"; done
  for f in ${REVERTS:-selftest/reverts/*.diff}; do n=$(basename $f .diff); echo "$ROOT/$f revert:$n"; done
} | xargs -P "$JOBS" -L 1 bash -c 'one "$0" "$1"' | sort > "$OUTFILE"
cat "$OUTFILE"
