#!/bin/bash
# own.sh <seeded-name>... : runs the quick check of each change's own property (or of $IDS) against it, in scratch worktrees, in parallel
cd "$(dirname "$0")/.."
for n in "$@"; do
  ( if [ -n "${IDS:-}" ]; then PATTERN="$n" REVERTS=/dev/null OUTFILE=/tmp/own-$n.tsv ./selftest/matrix.sh 1 >/dev/null 2>&1
    else OWN=1 PATTERN="$n" REVERTS=/dev/null OUTFILE=/tmp/own-$n.tsv ./selftest/matrix.sh 1 >/dev/null 2>&1; fi
    grep seeded /tmp/own-$n.tsv; rm -f /tmp/own-$n.tsv ) &
  while [ "$(jobs -r | wc -l)" -ge "${JOBS:-8}" ]; do sleep 1; done
done; wait
