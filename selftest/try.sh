#!/bin/bash
# try.sh <patch.diff | revert:<commit>> <ID> [<ID>...]   (env TIER=quick|thorough, VERIF_SEED)
# Applies a change to /repo's working tree, runs the given checks, restores /repo. Prints "<ID> exit=<code>" per check.
set -u
P="$1"; shift
case "$P" in revert:*) ;; *) P="$(readlink -f "$P")";; esac
cd /repo || exit 9
if [ -n "$(git status --porcelain --untracked-files=no)" ]; then echo "repo not clean"; exit 9; fi
restore() { git -C /repo reset -q; git -C /repo checkout HEAD -- . ; }
trap restore EXIT
case "$P" in
  revert:*) git show "${P#revert:}" | git apply -R --3way 2>/dev/null || git show "${P#revert:}" | git apply -R || { echo "cannot revert"; exit 9; } ; git reset -q ;;
  *) git apply --3way "$P" 2>/dev/null || git apply "$P" || { echo "cannot apply $P"; exit 9; } ; git reset -q ;;
esac
for id in "$@"; do
  out=$(cd /verif && ./run.sh "$id" "${TIER:-quick}" 2>&1); code=$?
  echo "$id exit=$code $(echo "$out" | grep -E 'violation class|INCONCLUSIVE' | head -4 | tr '\n' ' ')"
done
