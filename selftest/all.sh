#!/bin/bash
# all.sh [tier]  — runs every registered check once and prints its verdict line(s)
cd "$(dirname "$0")/.."
TIER="${1:-quick}"
for id in $(python3 -c "import json;print(' '.join(c['property_id'] for c in json.load(open('MANIFEST.json'))['checks']))"); do
  out=$(./run.sh $id $TIER 2>&1); code=$?
  echo "$id exit=$code $(echo "$out" | grep -E '^(HELD|INCONCLUSIVE|violation class)' | cut -c1-200 | tr '\n' ' ') $(echo "$out" | grep -c '^KNOWN-FINDING') known-finding line(s)"
done
