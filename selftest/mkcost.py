#!/usr/bin/env python3
# mkcost.py <thorough_output_file> : rewrites the table of DESIGN.md §5 from the current (quick) evidence files and the verdict lines
# of a thorough sweep (the output of `selftest/all.sh thorough`; KNOWN-FINDING text on the same line is tolerated).
import re, json, sys
t = {}
for line in open(sys.argv[1]):
    m = re.search(r'^(C\d\d) exit=0 ', line)
    n = re.search(r'cases=(\d+) evaluations=(\d+) distinct_nontrivial=(\d+) wall=([\d.]+)s', line)
    if m and n:
        t[m.group(1)] = n.groups()
def fmt(n): return f"{int(n):,}".replace(",", " ")
rows = []
for i in range(1, 21):
    k = f"C{i:02d}"
    e = json.load(open(f'/verif/evidence/{k}.json'))
    assert e['tier'] == 'quick', k
    c = e['coverage']
    tt = t.get(k)
    th = f"{fmt(tt[0])} / {fmt(tt[1])} / {fmt(tt[2])} / {float(tt[3]):.0f} s" if tt else "see evidence of the last thorough run"
    rows.append(f"| {k} | {fmt(c['cases'])} / {fmt(c['evaluations'])} / {fmt(c['distinct_nontrivial'])} / {e['wall_s']:.0f} s | {th} |")
table = "| id | quick: cases / evaluations / distinct non-trivial / wall | thorough: cases / evaluations / distinct non-trivial / wall |\n|---|---|---|\n" + "\n".join(rows)
p = '/verif/DESIGN.md'; s = open(p).read()
i = s.index("| id | quick: cases / evaluations"); j = s.index("\n\n", i)
s = s[:i] + table + s[j:]
open(p, 'w').write(s)
print("missing thorough:", [f"C{i:02d}" for i in range(1, 21) if f"C{i:02d}" not in t])
