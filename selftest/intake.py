#!/usr/bin/env python3
# intake.py <wave> <srcroot> <ID>... : stage sub-agent outputs (<srcroot>/<ID>/_out/mutN.diff, demoN_test.go, noteN.txt)
# as /verif/seeded/<ID>-w<wave>-N/ and confirm each with selftest/confirm_mutant.sh (parallel).
import sys, os, json, shutil, subprocess, concurrent.futures as cf
wave, root, ids = sys.argv[1], sys.argv[2], sys.argv[3:]
V = os.path.dirname(os.path.dirname(os.path.abspath(__file__)))
todo = []
for pid in ids:
    out = os.path.join(root, pid, "_out")
    for n in (1, 2, 3, 4):
        diff = os.path.join(out, f"mut{n}.diff")
        demo = os.path.join(out, f"demo{n}_test.go")
        note = os.path.join(out, f"note{n}.txt")
        if not (os.path.exists(diff) and os.path.exists(demo)):
            continue
        name = f"{pid}-w{wave}-{n}"
        d = os.path.join(V, "seeded", name)
        os.makedirs(d, exist_ok=True)
        shutil.copy(diff, os.path.join(d, "patch.diff"))
        shutil.copy(demo, os.path.join(d, "demo_test.go"))
        if os.path.exists(note):
            shutil.copy(note, os.path.join(d, "note.txt"))
        todo.append((name, pid, d))
def confirm(t):
    name, pid, d = t
    r = subprocess.run([os.path.join(V, "selftest/confirm_mutant.sh"), d], capture_output=True, text=True)
    line = [l for l in r.stdout.splitlines() if l.startswith("{")]
    conf = json.loads(line[-1]) if line else {"error": r.stdout[-300:] + r.stderr[-300:]}
    note = open(os.path.join(d, "note.txt")).read().strip() if os.path.exists(os.path.join(d, "note.txt")) else ""
    ordinal = {"2": "second", "3": "third", "4": "fourth", "5": "fifth", "6": "sixth", "7": "seventh", "8": "eighth", "9": "ninth", "10": "tenth"}.get(wave, wave)
    meta = {"id": name, "property": pid,
            "origin": f"{ordinal} wave: fresh sub-agent given only the property text and its own scratch worktree of /repo, asked for subtle and original changes with narrow triggers",
            "what_it_needs_to_manifest": note,
            "confirmed_by": "selftest/confirm_mutant.sh (scratch worktree of /repo HEAD: patch applies; pinned suite passes with it; demo_test.go fails with it and passes without it)",
            "confirmation": conf, "caught_by": None}
    json.dump(meta, open(os.path.join(d, "meta.json"), "w"), indent=1)
    ok = all(conf.get(k) for k in ("applies", "suite_passes_with_patch", "demo_fails_with_patch", "demo_passes_without_patch"))
    return name, ok, conf
with cf.ThreadPoolExecutor(6) as ex:
    for name, ok, conf in ex.map(confirm, todo):
        print(name, "OK" if ok else "NOT-CONFIRMED " + json.dumps(conf))
