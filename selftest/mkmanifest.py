#!/usr/bin/env python3
"""Regenerates /verif/MANIFEST.json from the table below (kept next to the monitors so it stays current)."""
import json, subprocess, os
ROOT = os.path.dirname(os.path.dirname(os.path.abspath(__file__)))
props = [json.loads(l) for l in open(os.path.join(ROOT, 'properties.jsonl'))]
TRUST = "trusted: Go toolchain + reflect/math/big/net/url/encoding/json, the harness reference semantics (internal/ref, written from the property statements), the fixed PRNG-derived case lists; verdict = held on the executions observed, not a proof"
# id -> (category, technique, text, design_ref)
CHECKS = {
 "C01": ("exploration", "runtime monitor: post-hoc re-evaluation of every declared constraint on the destination of successful calls (independent predicates), generated schemas x inputs x observed field visit orders",
         "Runs the real Parse/Validate on generated schema trees and valid-biased inputs under many observed field-visit orders; whenever a call reports no issues an oracle independent of the reference evaluator walks schema and destination together and re-checks every declared test, Required/NotNil presence and the catch exemption. Exploration is the right level: the property quantifies over all schema trees, inputs and map-iteration schedules, which only sampling with measured coverage can approach at the API boundary.", "DESIGN.md §4 C01"),
 "C02": ("exploration", "runtime monitor: differential against an executable reference semantics (multiset of path|code|type), generated schemas x failure-biased inputs x permuted field orders, both modes",
         "Executes the real library and compares the returned issues, as a multiset of (path, code, type), and nil-ness with the reference semantics written from the property statements; failure-biased inputs make several nodes fail at once. Exploration with measured non-trivial coverage.", "DESIGN.md §4 C02"),
 "C04": ("exploration", "runtime monitor: exhaustive enumeration of the absence decision table (kind x modifier sequence x context x input class x mode) on the real code, observed through issues, recording tests and sentinel-prefilled destinations",
         "The decision table behind Required/Optional/Default/NotNil is finite; every cell is executed on the real library and compared with the reference (issues, whether the recording test ran and with which value, destination written or not); random deeper nestings on top. exhaustive: true for the table.", "DESIGN.md §4 C04"),
 "C05": ("exploration", "runtime monitor: metamorphic differential on the real code (schema with Catch vs the same builder calls without Catch), attribution by unique issue codes, all placements of catching nodes, permuted field orders, both modes",
         "No reference model: the schema with Catch and its twin without are executed on the same input; issues of non-catching nodes and every other leaf must be identical, a catching node that failed in the twin must hold exactly its catch value and one that did not fail must hold the twin's value.", "DESIGN.md §4 C05"),
 "C09": ("exploration", "runtime monitor: repeated execution under observed field-visit orders and permuted insertion orders of schema and input maps; set of canonical results must be a singleton",
         "Each (schema, data) is executed many times while the schema map and the input maps are rebuilt in random insertion orders; the visit order of each run is observed through recording tests; all runs must produce the same issue map (minus $first) and, on success, the same destination.", "DESIGN.md §4 C09"),
 "C13": ("exploration", "runtime monitor: relational oracle on the real code, Validate(&v) vs Parse(toMap(v)) on generated fully populated values, preceded by unrelated earlier calls",
         "For generated schemas and fully populated, correctly typed values both modes are executed on the real library and must report the same (path, code, type, message) multiset and leave equal values; no reference model involved.", "DESIGN.md §4 C13"),
 "C18": ("exploration", "runtime monitor: exhaustive numeric boundary grid x destinations x front ends against exact math/big arithmetic; random values beyond",
         "Every numeric input of the boundary grid, in every representation, is parsed into every numeric destination (directly, inside a struct, through a JSON document) with and without bound tests attached; the destination must equal the exact value (truncated / correctly rounded) or exactly one coerce issue must be reported. exhaustive: true for the grid.", "DESIGN.md §4 C18"),
 "C20": ("exploration", "runtime monitor: single-test schemas vs independently written predicates, exhaustive over small alphabets/ranges (about 1M subject/test pairs), both modes, plain and Not() forms",
         "Each built-in test is executed on an exhaustively enumerated subject space and the presence of its issue is compared with a predicate written independently of zog (explicit character sets, hand-written e-mail/UUID recognisers, URLs labelled by construction, Go comparisons incl. NaN, deep equality). exhaustive: true for the enumerated spaces.", "DESIGN.md §4 C20"),
 "C03": ("exploration", "runtime monitor: exhaustive options/representation matrix + random schemas, destination compared leaf by leaf with the reference coercion, stale sentinel-prefilled destinations",
         "Successful Parse calls are compared leaf by leaf with the documented coercion of the input computed by the reference (math/big numerics, documented bool/time/string tables, WithCoercer, Time.Format layouts, global overrides installed around construction); destinations start from stale sentinels so that untouched / allocated / unnamed-field clauses are observable. exhaustive: true for the options matrix.", "DESIGN.md §4 C03"),
 "C06": ("exploration", "runtime monitor: recover() and worker-death attribution around Parse under hostile Go values x schema kinds x placements, malformed wire inputs through every front end, faulty readers, unusual valid configuration",
         "Hostile dynamic types and shapes are fed to every schema kind at every placement, and malformed JSON/form/query/env input through zjson, zhttp and zenv (including faulty readers); the only oracle is that Parse returns. A fatal error kills the worker and is attributed through the BEGIN log and a solo re-run.", "DESIGN.md §4 C06"),
 "C10": ("exploration", "runtime monitor: structural invariants of every returned issue map + exact path comparison with the documented key priority, per front end and nesting depth; sanitizer output compared with the issues",
         "Every returned ZogIssueMap is checked structurally (each issue once under its Path, $root, exactly one $first that is element 0 of its own path list) and the multiset of issue paths is compared with the reference built from the documented tag priority for each front end (Go map, zjson, zhttp JSON, form, query, env) and Validate; Sanitize* output must mirror keys, order and messages.", "DESIGN.md §4 C10"),
 "C11": ("exploration", "runtime monitor: exhaustive catalogue of built-in issues x languages x modes x placements checked field by field; precedence matrix of test-level / execution / global formatters over random schemas",
         "Every built-in failure (97 catalogue cells) is triggered under five language settings, alternating inside one process, and its code, type, params, value reference and message (template of the selected language with parameters substituted, no placeholders) are checked; the most-specific-wins rule is checked on random schemas over the 2^3 presence matrix. exhaustive: true for the catalogue.", "DESIGN.md §4 C11"),
 "C12": ("exploration", "runtime monitor: recording callbacks on every node (arguments, addresses, ctx values, HasErrored, order) compared with reference events; error-return and Preprocess scenarios",
         "Every node of generated schemas carries recording tests and post-transforms; arguments must be the node's own value (pointer into the destination for struct/slice/custom tests and all post-transforms), the context must hold exactly this call's values, post-transforms run in order, once, never while an issue exists; returned errors / ZogIssues and Preprocess failures are exercised in dedicated scenarios.", "DESIGN.md §4 C12"),
 "C14": ("exploration", "runtime monitor: relational oracle on the real code, one generated record rendered through six front ends, destinations and normalised issues compared with the Go-map rendering",
         "Generated records are rendered as Go map, JSON (zjson, zhttp body), form body, query string and environment and parsed with the same schema (also through a top-level Ptr); destinations and issues must agree up to the documented per-source differences.", "DESIGN.md §4 C14"),
 "C07": ("fault_enumeration", "runtime monitor under a controlled pool (GOMAXPROCS(1), GC off, counting pools): history differential, enumeration of dirty pool states (one field at a time and all), pool-hygiene drain with targeted probes",
         "A probe call is executed on fresh pools and again after a random history of calls (results optionally handed back through the Collect helpers) or after the exported pools were pre-filled with dirty objects in every library-reachable state; issues, destination and context values seen by callbacks must be identical. Pool hits are measured, so recycling is known to have happened. fault_enumeration: the dirty states are an enumerated fault space, histories are sampled.", "DESIGN.md §4 C07"),
 "C08": ("exploration", "Go race detector over a stress workload on shared schema objects + per-call comparison with precomputed solo results + context ownership assertions in callbacks, overlap measured by in-flight counters",
         "16-48 goroutines hammer a pool of shared schema objects under the race detector with injected yields between nodes; any race report with a zog frame, any call whose result differs from its solo result, and any callback that sees another call's context is a violation. The overlap histogram shows the interleavings were real.", "DESIGN.md §4 C08"),
 "C15": ("exploration", "runtime monitor: exhaustive HTTP dispatch table (method x Content-Type x body x query) with a sentinel per source, expectations computed independently with net/url and encoding/json; decode-failure invariants",
         "Every cell of the dispatch table is sent through zhttp.Request: the parsed values identify the source that was read, parameter presentation (list / string / absent) is compared with an independent computation, undecodable bodies must give exactly one $root issue without running the schema or touching the destination; {} equals the empty record; also through a top-level Ptr(Struct). exhaustive: true for the table.", "DESIGN.md §4 C15"),
 "C16": ("exploration", "runtime monitor: random histories of Pick/Omit/Extend/Merge/Test/PostTransform evaluated on real schemas and in a set/list model compiled to hand-built schemas; all schemas re-probed after every step; operand snapshots",
         "After every step of a random derivation history every schema created so far is compared on random inputs with a schema written out by hand from the model (issues, destination, which struct-level tests and transforms ran, in order); deep snapshots show operands are never modified.", "DESIGN.md §4 C16"),
 "C17": ("exploration", "runtime monitors: builder-chain fold against the model with per-test pass/fail inputs; marker-coercer locality; shared-object vs independent-copies differential",
         "Random builder chains are applied to real schemas and folded in the model; each test of the chain is observed passing and failing and its issue (path, code incl. not_ flip, type, message, params) compared; marker coercers must stay on their node; one schema object at several places must behave like independent copies (also across destination types).", "DESIGN.md §4 C17"),
 "C19": ("exploration", "runtime monitor: deep snapshot hashes (incl. unexported fields, len and cap) of input, schema graph and builder values around every call of a use history; destination scribbling; repeat-equality",
         "One schema object is used 2-6 times with destination-mutating post-transforms; snapshots around every call show that neither the input nor the schema nor the values handed to builders change, also after the harness overwrites the destination in place; repeated calls give the same result; Validate only changes nodes with Default/Catch/PostTransform.", "DESIGN.md §4 C19"),
}
NA_REASON = "check under construction (monitor not yet registered in this commit)"
checks = []
for p in props:
    pid = p['id']
    if pid not in CHECKS: continue
    cat, tech, text, ref = CHECKS[pid]
    checks.append({
        "property_id": pid,
        "quick_cmd": f"./run.sh {pid} quick",
        "thorough_cmd": f"./run.sh {pid} thorough",
        "evidence_file": f"/verif/evidence/{pid}.json",
        "replay_cmd_template": f"./run.sh {pid} quick --replay {{path}}",
        "engine": "zogmon",
        "level_claimed": {"category": cat, "text": text, "design_ref": ref},
        "level_note": TRUST,
        "technique": tech,
    })
m = {
 "version": 1,
 "setup_cmd": "./setup.sh",
 "hooks": {"guard": "verif", "enable": "no source hooks exist: the monitors observe zog through its public API, the exported internals package (pools), user callbacks and reflection; every check rebuilds /repo's working tree through the replace directive in /verif/go.mod (run.sh)",
           "baseline_off_cmd": "cd /repo && go test -mod=mod -json -vet=off -count=1 -timeout 25m ./...", "source_commits": [], "add_only": True},
 "engines": [{"name": "zogmon", "path": "/verif/cmd/zogmon", "serves_properties": sorted(CHECKS), "kind_free_text": "runtime monitor: driver + worker processes executing the real library under generated, hostile and stress workloads with oracles at the API boundary (Go, race detector for C08)"}],
 "checks": checks,
 "notes": "See DESIGN.md. Exit codes of every command: 0 held, 1 violation (VIOLATION line with replay file), 2 inconclusive. known_findings.json lists fixed and known findings.",
 "not_applicable": [{"property_id": p['id'], "reason": NA_REASON} for p in props if p['id'] not in CHECKS],
}
json.dump(m, open(os.path.join(ROOT, 'MANIFEST.json'), 'w'), indent=1)
print("checks:", len(checks), "not_applicable:", len(m['not_applicable']))
