// Package ref is the executable reference: independent predicates and coercions (this file and
// coerce.go) and the reference semantics of schema evaluation (eval.go). Nothing here calls zog.
package ref

import (
	"math"
	"reflect"
	"strings"
	"time"

	"zogverif/internal/spec"
)

// ---- character classes, written as explicit sets ----

const (
	upperSet   = "ABCDEFGHIJKLMNOPQRSTUVWXYZ"
	lowerSet   = "abcdefghijklmnopqrstuvwxyz"
	digitSet   = "0123456789"
	specialSet = "!\"#$%&'()*+,-./:;<=>?@[\\]^_`{|}~"
	hexSet     = "0123456789abcdefABCDEF"
	// local part of an e-mail address as documented by the WHATWG/HTML5 grammar zog follows
	emailLocalSet = upperSet + lowerSet + digitSet + ".!#$%&'*+/=?^_`{|}~-"
	alnumSet      = upperSet + lowerSet + digitSet
)

func containsAnyByteOf(s, set string) bool {
	for i := 0; i < len(s); i++ {
		if strings.IndexByte(set, s[i]) >= 0 {
			return true
		}
	}
	return false
}

func allBytesIn(s, set string) bool {
	for i := 0; i < len(s); i++ {
		if strings.IndexByte(set, s[i]) < 0 {
			return false
		}
	}
	return true
}

// IsEmail: local part of 1+ allowed characters, '@', then dot-separated labels, each 1..63 characters of
// letters/digits/hyphen that neither starts nor ends with a hyphen.
func IsEmail(s string) bool {
	at := strings.IndexByte(s, '@')
	if at <= 0 {
		return false
	}
	local, domain := s[:at], s[at+1:]
	if !allBytesIn(local, emailLocalSet) {
		return false
	}
	if domain == "" {
		return false
	}
	for _, label := range strings.Split(domain, ".") {
		if len(label) < 1 || len(label) > 63 {
			return false
		}
		if !allBytesIn(label, alnumSet+"-") {
			return false
		}
		if label[0] == '-' || label[len(label)-1] == '-' {
			return false
		}
	}
	return true
}

// IsUUID: 8-4-4-4-12 hexadecimal digits.
func IsUUID(s string) bool {
	groups := strings.Split(s, "-")
	if len(groups) != 5 {
		return false
	}
	want := []int{8, 4, 4, 4, 12}
	for i, g := range groups {
		if len(g) != want[i] || !allBytesIn(g, hexSet) {
			return false
		}
	}
	return true
}

// URLLabel classifies the URL-ish strings the generators produce. known=false means the reference
// has no opinion (the generators never attach a URL test to a node fed with such strings).
func URLLabel(s string) (isURL bool, known bool) {
	if v, ok := urlPool[s]; ok {
		return v, true
	}
	// strings without a colon cannot have a scheme
	if !strings.Contains(s, ":") {
		return false, true
	}
	return false, false
}

// URLPool: strings labelled by construction (scheme and authority present or not).
var urlPool = map[string]bool{
	"http://example.com":             true,
	"https://example.com/path?q=1#f": true,
	"ftp://host":                     true,
	"http://localhost:8080":          true,
	"custom+scheme://h.example":      true,
	"http://[::1]:80/":               true,
	"http://user:pw@host.example/x":  true,
	"example.com":                    false,
	"//example.com/path":             false, // authority without scheme
	"http:///path":                   false, // scheme without authority
	"mailto:someone@example.com":     false, // opaque, no authority
	"http:example.com":               false,
	"/just/a/path":                   false,
	"":                               false,
	"not a url":                      false,
	"http://exa mple.com":            false, // space in host is a parse error
	"http://example.com/%zz":         false, // invalid escape
	"1http://example.com":            false, // scheme must start with a letter
	"://example.com":                 false,
	"http://":                        false,
	// an authority is present although it names no host (port only, user only, empty brackets); a fragment or query right after the host
	"http://:8080":                true,
	"https://:443/health?x=1":     true,
	"http://user@:9/":             true,
	"http://[]/x":                 true,
	"https://example.com#pricing": true,
	"http://u:p@h:80#x":           true,
	"https://example.com?q=1":     true,
	"http://-leading.example/":    true,
	"http://.dot.example":         true,
	// url.Parse takes a raw space after the authority (path, query, fragment) as it is
	"https://example.com/some path": true,
	"http://a.example/x?q=a b":      true,
	"http://a.example/#frag ment":   true,
	"http://a.example/tab\there":    false, // control characters are refused everywhere
}

func URLPoolKeys() []string {
	out := make([]string, 0, len(urlPool))
	for k := range urlPool {
		out = append(out, k)
	}
	sortStrings(out)
	return out
}

func sortStrings(s []string) {
	for i := 1; i < len(s); i++ {
		for j := i; j > 0 && s[j] < s[j-1]; j-- {
			s[j], s[j-1] = s[j-1], s[j]
		}
	}
}

// RegexCatalogue pairs a pattern with a hand-written predicate of the same language.
type RegexEntry struct {
	Pattern string
	Pred    func(string) bool
}

var RegexCatalogue = []RegexEntry{
	{`^[a-z]+$`, func(s string) bool { return s != "" && allBytesIn(s, lowerSet) }},
	{`^[0-9]{3}$`, func(s string) bool { return len(s) == 3 && allBytesIn(s, digitSet) }},
	{`foo`, func(s string) bool { return strings.Contains(s, "foo") }},
	{`^a.c$`, func(s string) bool {
		r := []rune(s)
		return len(r) == 3 && r[0] == 'a' && r[2] == 'c' && r[1] != '\n' && validRunes(s)
	}},
	{`^$`, func(s string) bool { return s == "" }},
	// fully anchored literals: equality, not containment
	{`^yes$`, func(s string) bool { return s == "yes" }},
	{`\Aok\z`, func(s string) bool { return s == "ok" }},
	{`^v1\.0$`, func(s string) bool { return s == "v1.0" }},
	{`^abc`, func(s string) bool { return strings.HasPrefix(s, "abc") }},
	{`é$`, func(s string) bool { return strings.HasSuffix(s, "é") }},
}

func validRunes(s string) bool {
	for _, r := range s {
		if r == 0xFFFD {
			// either a real U+FFFD or an invalid byte; both count as one char for '.', so fine
			return true
		}
	}
	return true
}

// DeepEq is membership equality for OneOf / Contains.
func DeepEq(a, b any) bool { return reflect.DeepEqual(a, b) }

// TestHolds evaluates the documented predicate of a built-in (non-negated) test on a value of the node's type.
// known=false if the reference cannot decide (URL outside the labelled pool).
func TestHolds(t *spec.Test, v any) (holds bool, known bool) {
	switch t.Op {
	case spec.TCustom:
		return t.Pred(v), true
	case spec.TMin, spec.TMax, spec.TLen:
		n := lengthOf(v)
		switch t.Op {
		case spec.TMin:
			return n >= t.N, true
		case spec.TMax:
			return n <= t.N, true
		default:
			return n == t.N, true
		}
	case spec.TEmail:
		return IsEmail(v.(string)), true
	case spec.TUUID:
		return IsUUID(v.(string)), true
	case spec.TURL:
		return URLLabel(v.(string))
	case spec.THasPrefix:
		s, p := v.(string), t.Arg.(string)
		return len(s) >= len(p) && s[:len(p)] == p, true
	case spec.THasSuffix:
		s, p := v.(string), t.Arg.(string)
		return len(s) >= len(p) && s[len(s)-len(p):] == p, true
	case spec.TContains:
		if s, ok := v.(string); ok {
			sub := t.Arg.(string)
			for i := 0; i+len(sub) <= len(s); i++ {
				if s[i:i+len(sub)] == sub {
					return true, true
				}
			}
			return false, true
		}
		// slice: membership by deep equality
		rv := reflect.ValueOf(v)
		for i := 0; i < rv.Len(); i++ {
			if DeepEq(rv.Index(i).Interface(), t.Arg) {
				return true, true
			}
		}
		return false, true
	case spec.TContainsUpper:
		return containsAnyByteOf(v.(string), upperSet), true
	case spec.TContainsDigit:
		return containsAnyByteOf(v.(string), digitSet), true
	case spec.TContainsSpecial:
		return containsAnyByteOf(v.(string), specialSet), true
	case spec.TMatch:
		for _, e := range RegexCatalogue {
			if e.Pattern == t.Re.String() {
				return e.Pred(v.(string)), true
			}
		}
		return false, false
	case spec.TOneOf:
		rv := reflect.ValueOf(t.Arg)
		for i := 0; i < rv.Len(); i++ {
			if DeepEq(rv.Index(i).Interface(), v) {
				return true, true
			}
		}
		return false, true
	case spec.TTrue:
		return v.(bool) == true, true
	case spec.TFalse:
		return v.(bool) == false, true
	case spec.TEQ, spec.TLT, spec.TLTE, spec.TGT, spec.TGTE:
		if b, ok := v.(bool); ok {
			return b == t.Arg.(bool), true
		}
		if tm, ok := v.(time.Time); ok {
			return TimeCmp(tm, t.Arg.(time.Time)) == 0, true
		}
		return numCmp(t.Op, v, t.Arg), true
	case spec.TAfter:
		return TimeCmp(v.(time.Time), t.Arg.(time.Time)) > 0, true
	case spec.TBefore:
		return TimeCmp(v.(time.Time), t.Arg.(time.Time)) < 0, true
	}
	return false, false
}

func lengthOf(v any) int {
	if s, ok := v.(string); ok {
		n := 0
		for i := 0; i < len(s); i++ { // bytes, as len() does
			n++
		}
		return n
	}
	return reflect.ValueOf(v).Len()
}

// TimeCmp compares instants: seconds since the epoch, then nanoseconds; zones are irrelevant.
func TimeCmp(a, b time.Time) int {
	as, bs := a.Unix(), b.Unix()
	if as != bs {
		if as < bs {
			return -1
		}
		return 1
	}
	an, bn := a.Nanosecond(), b.Nanosecond()
	switch {
	case an < bn:
		return -1
	case an > bn:
		return 1
	}
	return 0
}

// numCmp performs the Go comparison on the destination type (NaN compares false to everything).
func numCmp(op spec.TestOp, v, arg any) bool {
	switch x := v.(type) {
	case int:
		return cmpInt(op, int64(x), int64(arg.(int)))
	case int32:
		return cmpInt(op, int64(x), int64(arg.(int32)))
	case int64:
		return cmpInt(op, x, arg.(int64))
	case float32:
		return cmpFloat(op, float64(x), float64(arg.(float32)))
	case float64:
		return cmpFloat(op, x, arg.(float64))
	}
	panic("ref: numCmp on non-number")
}

func cmpInt(op spec.TestOp, a, b int64) bool {
	switch op {
	case spec.TEQ:
		return a == b
	case spec.TLT:
		return a < b
	case spec.TLTE:
		return a < b || a == b
	case spec.TGT:
		return b < a
	case spec.TGTE:
		return b < a || a == b
	}
	panic("ref: bad op")
}

func cmpFloat(op spec.TestOp, a, b float64) bool {
	if math.IsNaN(a) || math.IsNaN(b) {
		return false
	}
	switch op {
	case spec.TEQ:
		return a == b
	case spec.TLT:
		return a < b
	case spec.TLTE:
		return a < b || a == b
	case spec.TGT:
		return b < a
	case spec.TGTE:
		return b < a || a == b
	}
	panic("ref: bad op")
}
