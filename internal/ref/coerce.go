package ref

import (
	"fmt"
	"math"
	"math/big"
	"reflect"
	"strings"
	"time"
	"unicode"

	"zogverif/internal/spec"
)

// IsAbsentParse is the documented Parse absence rule: nil, or a string that is empty after trimming Unicode white space.
func IsAbsentParse(data any) bool {
	if data == nil {
		return true
	}
	s, ok := data.(string)
	if !ok {
		return false
	}
	for _, r := range s {
		if !unicode.IsSpace(r) {
			return false
		}
	}
	return true
}

// IsZeroValidate is the documented Validate absence rule: the Go zero value (empty slice and nil pointer included).
func IsZeroValidate(tree any) bool {
	switch x := tree.(type) {
	case nil:
		return true
	case string:
		return x == ""
	case int:
		return x == 0
	case int32:
		return x == 0
	case int64:
		return x == 0
	case float32:
		return x == 0
	case float64:
		return x == 0
	case bool:
		return !x
	case time.Time:
		return x == time.Time{}
	case []any:
		return len(x) == 0
	}
	return false
}

// Outcome of a reference coercion.
type Coerced struct {
	OK      bool
	V       any  // value of the node's Go type when OK
	Unknown bool // the documentation does not say (the generators avoid these; oracles skip the case)
}

var (
	bigMinInt64 = big.NewInt(math.MinInt64)
	bigMaxInt64 = big.NewInt(math.MaxInt64)
	bigMinInt32 = big.NewInt(math.MinInt32)
	bigMaxInt32 = big.NewInt(math.MaxInt32)
)

func isDecimalInt(s string) bool {
	if s == "" {
		return false
	}
	i := 0
	if s[0] == '+' || s[0] == '-' {
		i = 1
	}
	if i == len(s) {
		return false
	}
	for ; i < len(s); i++ {
		if s[i] < '0' || s[i] > '9' {
			return false
		}
	}
	return true
}

// exactInt returns the exact integer an input denotes for an integer destination (floats truncated toward zero).
// ok=false: not a number in a documented representation (coerce issue). unknown: representation not documented.
func exactInt(data any) (v *big.Int, ok bool, unknown bool) {
	switch x := data.(type) {
	case int:
		return big.NewInt(int64(x)), true, false
	case int32:
		return big.NewInt(int64(x)), true, false
	case int64:
		return big.NewInt(x), true, false
	case bool:
		if x {
			return big.NewInt(1), true, false
		}
		return big.NewInt(0), true, false
	case float64:
		if math.IsNaN(x) || math.IsInf(x, 0) {
			return nil, false, false
		}
		bf := new(big.Float).SetFloat64(x)
		bi, _ := bf.Int(nil) // truncates toward zero
		return bi, true, false
	case string:
		if isDecimalInt(x) {
			bi, _ := new(big.Int).SetString(x, 10)
			return bi, true, false
		}
		return nil, false, false
	}
	// float32, uints, int8/16 and everything else: documented as unsupported types for the int coercer
	return nil, false, false
}

// isDecimalFloat recognises plain decimal / exponent notation (the grammar the generators emit).
func isDecimalFloat(s string) bool {
	i := 0
	n := len(s)
	if i < n && (s[i] == '+' || s[i] == '-') {
		i++
	}
	digits := 0
	for i < n && s[i] >= '0' && s[i] <= '9' {
		i++
		digits++
	}
	if i < n && s[i] == '.' {
		i++
		for i < n && s[i] >= '0' && s[i] <= '9' {
			i++
			digits++
		}
	}
	if digits == 0 {
		return false
	}
	if i < n && (s[i] == 'e' || s[i] == 'E') {
		i++
		if i < n && (s[i] == '+' || s[i] == '-') {
			i++
		}
		ed := 0
		for i < n && s[i] >= '0' && s[i] <= '9' {
			i++
			ed++
		}
		if ed == 0 {
			return false
		}
	}
	return i == n
}

// exactFloat returns the exact rational value of a numeric input for a float destination, or a special (NaN/±Inf).
func exactFloat(data any) (v *big.Float, special float64, isSpecial bool, ok bool, unknown bool) {
	mk := func(f float64) (*big.Float, float64, bool, bool, bool) {
		if math.IsNaN(f) || math.IsInf(f, 0) {
			return nil, f, true, true, false
		}
		return new(big.Float).SetPrec(2000).SetFloat64(f), 0, false, true, false
	}
	switch x := data.(type) {
	case int:
		return new(big.Float).SetPrec(2000).SetInt64(int64(x)), 0, false, true, false
	case float64:
		return mk(x)
	case float32:
		return mk(float64(x))
	case string:
		if isDecimalFloat(x) {
			bf, _, err := big.ParseFloat(x, 10, 4000, big.ToNearestEven)
			if err != nil {
				return nil, 0, false, false, true
			}
			return bf, 0, false, true, false
		}
		switch strings.ToLower(strings.TrimLeft(x, "+-")) {
		case "inf", "infinity", "nan":
			return nil, 0, false, false, true // strconv accepts them; not part of the documented table
		}
		if strings.ContainsAny(x, "xX_pP") {
			return nil, 0, false, false, true // hex floats / underscores: strconv syntax, not judged
		}
		return nil, 0, false, false, false
	}
	return nil, 0, false, false, false
}

// CoerceNumber is the reference numeric coercion for a destination kind.
func CoerceNumber(k spec.Kind, data any) Coerced {
	switch k {
	case spec.Int, spec.Int64, spec.Int32:
		bi, ok, unk := exactInt(data)
		if unk {
			return Coerced{Unknown: true}
		}
		if !ok {
			return Coerced{}
		}
		lo, hi := bigMinInt64, bigMaxInt64
		if k == spec.Int32 {
			lo, hi = bigMinInt32, bigMaxInt32
		}
		if bi.Cmp(lo) < 0 || bi.Cmp(hi) > 0 {
			return Coerced{}
		}
		switch k {
		case spec.Int:
			return Coerced{OK: true, V: int(bi.Int64())}
		case spec.Int64:
			return Coerced{OK: true, V: bi.Int64()}
		default:
			return Coerced{OK: true, V: int32(bi.Int64())}
		}
	case spec.Float64, spec.Float32:
		bf, special, isSpecial, ok, unk := exactFloat(data)
		if unk {
			return Coerced{Unknown: true}
		}
		if !ok {
			return Coerced{}
		}
		if isSpecial {
			if k == spec.Float64 {
				return Coerced{OK: true, V: special}
			}
			return Coerced{OK: true, V: float32(special)}
		}
		if k == spec.Float64 {
			f, _ := bf.Float64() // correctly rounded to nearest even
			if math.IsInf(f, 0) {
				return Coerced{} // finite input beyond the range: must be a coerce issue
			}
			return Coerced{OK: true, V: f}
		}
		// Float32: the documented path goes through float64 first (input -> float64 -> float32)
		f64, _ := bf.Float64()
		if math.IsInf(f64, 0) {
			return Coerced{}
		}
		f32 := float32(f64)
		if math.IsInf(float64(f32), 0) {
			return Coerced{}
		}
		return Coerced{OK: true, V: f32}
	}
	panic("ref: CoerceNumber on non-number kind")
}

// CoerceBool follows the documented table: bool; "on"/"off"; the strconv.ParseBool spellings; int 0/1.
func CoerceBool(data any) Coerced {
	switch x := data.(type) {
	case bool:
		return Coerced{OK: true, V: x}
	case string:
		switch x {
		case "on", "1", "t", "T", "TRUE", "true", "True":
			return Coerced{OK: true, V: true}
		case "off", "0", "f", "F", "FALSE", "false", "False":
			return Coerced{OK: true, V: false}
		}
		return Coerced{}
	case int:
		if x == 0 {
			return Coerced{OK: true, V: false}
		}
		if x == 1 {
			return Coerced{OK: true, V: true}
		}
		return Coerced{}
	case float64:
		// a number of a JSON document: the same input as the int above (C14: front ends are views of the same record)
		if x == 0 {
			return Coerced{OK: true, V: false}
		}
		if x == 1 {
			return Coerced{OK: true, V: true}
		}
		return Coerced{}
	}
	return Coerced{}
}

// CoerceString: a string is itself, anything else its %v rendering.
func CoerceString(data any) Coerced {
	if s, ok := data.(string); ok {
		return Coerced{OK: true, V: s}
	}
	return Coerced{OK: true, V: fmt.Sprintf("%v", data)}
}

// CoerceTime: time.Time as is; string in RFC3339 (or the schema's layout); int/int64 (or a whole float64) unix seconds.
func CoerceTime(data any, layout string) Coerced {
	if layout == "" {
		layout = time.RFC3339
	}
	switch x := data.(type) {
	case time.Time:
		return Coerced{OK: true, V: x}
	case string:
		t, err := time.Parse(layout, x)
		if err != nil {
			return Coerced{}
		}
		return Coerced{OK: true, V: t}
	case int:
		return Coerced{OK: true, V: time.Unix(int64(x), 0)}
	case int64:
		return Coerced{OK: true, V: time.Unix(x, 0)}
	case float64:
		// whole unix seconds as a JSON document carries them
		if x == math.Trunc(x) && math.Abs(x) <= 1<<62 {
			return Coerced{OK: true, V: time.Unix(int64(x), 0)}
		}
		return Coerced{}
	}
	return Coerced{}
}

// CoercePrimitive dispatches on the node kind, honouring a custom coercer (marker) if the node has one.
func CoercePrimitive(n *spec.Node, data any) Coerced {
	if n.Coercer != nil {
		if n.Coercer.Fail {
			return Coerced{}
		}
		return Coerced{OK: true, V: n.Coercer.Mark}
	}
	switch n.Kind {
	case spec.String:
		return CoerceString(data)
	case spec.Bool:
		return CoerceBool(data)
	case spec.Time:
		return CoerceTime(data, n.Layout)
	default:
		return CoerceNumber(n.Kind, data)
	}
}

// SliceElems is the documented slice coercion: a slice (of any element type) is taken as is, any other value is boxed.
func SliceElems(data any) (elems []any, unknown bool) {
	rv := reflect.ValueOf(data)
	switch rv.Kind() {
	case reflect.Slice:
		out := make([]any, rv.Len())
		for i := range out {
			out[i] = rv.Index(i).Interface()
		}
		return out, false
	case reflect.Array:
		return nil, true // arrays: not specified
	}
	return []any{data}, false
}
