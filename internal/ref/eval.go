package ref

import (
	"fmt"
	"reflect"
	"time"

	"zogverif/internal/obs"
	"zogverif/internal/spec"
)

type Mode int

const (
	Parse Mode = iota
	Validate
)

func (m Mode) String() string {
	switch m {
	case Parse:
		return "Parse"
	case Validate:
		return "Validate"
	}
	return "Parse-through-zjson" // only used as a label by monitors that add the JSON front end as a third mode
}

// Env describes the execution: mode and data source.
type Env struct {
	Mode      Mode
	SourceTag string // "", "json", "form", "query", "env"
	// Flat sources (form, query, env): every struct at every depth looks its fields up in the same flat record.
	Flat       bool
	FlatLookup func(key string) any
}

// XIssue is an expected issue.
type XIssue struct {
	Path  string
	Code  string
	Dtype string
	Kind  string // test | required | not_nil | coerce | post | pre
	Node  *spec.Node
	Test  *spec.Test    // for Kind == test
	Opts  spec.TestOpts // options that apply to this issue (message expectations)
	Value any           // expected offending value (tree form) where the documentation determines it; nil otherwise
}

func (x XIssue) Triple() string { return x.Path + "|" + x.Code + "|" + x.Dtype }

// Event is an expected callback invocation.
type Event struct {
	Kind     string // test | post | pre
	NodeID   int
	UID      int
	Path     string
	Val      any  // expected value (tree) the callback must see (pointee for pointer-receiving callbacks)
	Optional bool // may or may not happen (tests after the first failure of a catching node)
}

type Result struct {
	Issues  []XIssue
	Out     any    // expected destination tree
	Unknown string // non-empty: the case touches a corner the properties leave open; oracles must skip it
	Events  []Event
	// Visited counts node instances evaluated with a present value, and tests evaluated (for evidence / non-triviality)
	NodesPresent int
	TestsRun     int
	// CatchFired lists paths of catching nodes whose catch value was used
	CatchFired []string
	// Absent lists paths of nodes that were skipped as absent optional
	Skipped []string
}

type evaluator struct {
	env *Env
	res *Result
}

// Eval computes the expected outcome of schema n on the given input.
// Parse: data is the raw input, prior the destination tree before the call.
// Validate: data is ignored, prior is the value being validated.
func Eval(n *spec.Node, env *Env, data any, prior any) *Result {
	e := &evaluator{env: env, res: &Result{}}
	if prior == nil {
		prior = zeroTree(n.GoType()) // a fresh destination
	}
	e.res.Out = e.node(n, data, prior, "")
	// post-transforms: on a globally successful run every visited node's post-transforms ran once, in order
	return e.res
}

func (e *evaluator) unknown(why string) {
	if e.res.Unknown == "" {
		e.res.Unknown = why
	}
}

func (e *evaluator) issue(x XIssue) { e.res.Issues = append(e.res.Issues, x) }

func joinPath(base, key string) string {
	if base == "" {
		return key
	}
	if key != "" && key[0] == '[' {
		return base + key
	}
	return base + "." + key
}

func testPath(nodePath string, o spec.TestOpts) string {
	if o.Path != nil && *o.Path != "" {
		return *o.Path
	}
	return nodePath
}

func zeroTree(t reflect.Type) any { return obs.NormValue(reflect.Zero(t)) }

func (e *evaluator) node(n *spec.Node, data any, prior any, path string) any {
	switch n.Kind {
	case spec.Slice:
		return e.slice(n, data, prior, path)
	case spec.Struct:
		return e.strct(n, data, prior, path)
	case spec.Ptr:
		return e.ptr(n, data, prior, path)
	case spec.Custom:
		return e.custom(n, data, prior, path)
	case spec.Pre:
		return e.pre(n, data, prior, path)
	}
	return e.primitive(n, data, prior, path)
}

// runTests evaluates the node's tests on val; returns the failing issues.
func (e *evaluator) runTests(n *spec.Node, val any, path string, catching bool) []XIssue {
	var failed []XIssue
	goVal := val
	for i := range n.Tests {
		t := &n.Tests[i]
		e.res.TestsRun++
		if t.Op == spec.TCustom {
			e.res.Events = append(e.res.Events, Event{Kind: "test", NodeID: n.ID, UID: t.UID, Path: path, Val: val, Optional: catching && len(failed) > 0})
		}
		holds, known := TestHolds(t, treeToTestArg(n, goVal))
		if !known {
			e.unknown(fmt.Sprintf("test %s on %s has no reference verdict", t.Op, obs.Render(val)))
			continue
		}
		if t.Not {
			holds = !holds
		}
		if !holds {
			failed = append(failed, XIssue{Path: testPath(path, t.Opts), Code: t.EffCode(), Dtype: n.DType(), Kind: "test", Node: n, Test: t, Opts: t.Opts, Value: val})
		}
	}
	return failed
}

// treeToTestArg converts the tree value of a node into what TestHolds expects (trees of slices need Go-ish values for Contains).
func treeToTestArg(n *spec.Node, v any) any {
	return v
}

func (e *evaluator) primitive(n *spec.Node, data any, prior any, path string) any {
	eff := n.Eff()
	var val any
	if e.env.Mode == Parse {
		if IsAbsentParse(data) {
			switch {
			case eff.HasDefault:
				val = eff.Default
			case eff.Required:
				if eff.HasCatch {
					e.res.CatchFired = append(e.res.CatchFired, path)
					e.posts(n, path, eff.Catch)
					return eff.Catch
				}
				e.issue(XIssue{Path: testPath(path, eff.RequiredOpts), Code: reqCode(eff.RequiredOpts, "required"), Dtype: n.DType(), Kind: "required", Node: n, Opts: eff.RequiredOpts})
				return prior
			default:
				e.res.Skipped = append(e.res.Skipped, path)
				e.postsOpt(n, path, prior, true)
				return prior
			}
		} else {
			c := CoercePrimitive(n, data)
			if c.Unknown {
				e.unknown(fmt.Sprintf("coercion of %s into %s is not documented", obs.Render(data), n.Kind))
				return prior
			}
			if !c.OK {
				if eff.HasCatch {
					e.res.CatchFired = append(e.res.CatchFired, path)
					e.posts(n, path, eff.Catch)
					return eff.Catch
				}
				e.issue(XIssue{Path: path, Code: "coerce", Dtype: n.DType(), Kind: "coerce", Node: n, Value: obs.Norm(data)})
				return prior
			}
			val = c.V
		}
	} else {
		if IsZeroValidate(prior) {
			switch {
			case eff.HasDefault:
				val = eff.Default
			case eff.Required:
				if eff.HasCatch {
					e.res.CatchFired = append(e.res.CatchFired, path)
					e.posts(n, path, eff.Catch)
					return eff.Catch
				}
				e.issue(XIssue{Path: testPath(path, eff.RequiredOpts), Code: reqCode(eff.RequiredOpts, "required"), Dtype: n.DType(), Kind: "required", Node: n, Opts: eff.RequiredOpts})
				return prior
			default:
				e.res.Skipped = append(e.res.Skipped, path)
				e.postsOpt(n, path, prior, true)
				return prior
			}
		} else {
			val = prior
		}
	}
	e.res.NodesPresent++
	failed := e.runTests(n, val, path, eff.HasCatch)
	if len(failed) > 0 {
		if eff.HasCatch {
			e.res.CatchFired = append(e.res.CatchFired, path)
			e.posts(n, path, eff.Catch)
			return eff.Catch
		}
		e.res.Issues = append(e.res.Issues, failed...)
	}
	e.posts(n, path, val)
	return val
}

func reqCode(o spec.TestOpts, def string) string {
	if o.Code != nil {
		return *o.Code
	}
	return def
}

func (e *evaluator) posts(n *spec.Node, path string, val any) { e.postsOpt(n, path, val, false) }

// postsOpt: optional = the statements do not say whether the post-transforms of a skipped (absent optional) node run.
func (e *evaluator) postsOpt(n *spec.Node, path string, val any, optional bool) {
	for i := range n.Posts {
		e.res.Events = append(e.res.Events, Event{Kind: "post", NodeID: n.ID, UID: n.Posts[i].UID, Path: path, Val: val, Optional: optional})
	}
}

func (e *evaluator) slice(n *spec.Node, data any, prior any, path string) any {
	eff := n.Eff()
	var out []any
	if e.env.Mode == Parse {
		var elems []any
		if IsAbsentParse(data) {
			switch {
			case eff.HasDefault:
				el, unk := SliceElems(eff.Default)
				if unk {
					e.unknown("array default")
				}
				elems = el
			case eff.Required:
				e.issue(XIssue{Path: testPath(path, eff.RequiredOpts), Code: reqCode(eff.RequiredOpts, "required"), Dtype: "slice", Kind: "required", Node: n, Opts: eff.RequiredOpts})
				return prior
			default:
				e.res.Skipped = append(e.res.Skipped, path)
				e.postsOpt(n, path, prior, true)
				return prior
			}
		} else {
			if n.Coercer != nil {
				if n.Coercer.Fail {
					e.issue(XIssue{Path: path, Code: "coerce", Dtype: "slice", Kind: "coerce", Node: n, Value: obs.Norm(data)})
					return prior
				}
				el, _ := SliceElems(n.Coercer.Mark)
				elems = el
			} else {
				el, unk := SliceElems(data)
				if unk {
					e.unknown("array as slice input")
					return prior
				}
				elems = el
			}
		}
		e.res.NodesPresent++
		out = make([]any, len(elems))
		zero := zeroTree(n.Elem.GoType())
		for i, el := range elems {
			out[i] = e.node(n.Elem, el, zero, joinPath(path, fmt.Sprintf("[%d]", i)))
		}
	} else {
		cur, _ := prior.([]any)
		if len(cur) == 0 {
			switch {
			case eff.HasDefault:
				cur, _ = obs.Norm(eff.Default).([]any)
			case eff.Required:
				e.issue(XIssue{Path: testPath(path, eff.RequiredOpts), Code: reqCode(eff.RequiredOpts, "required"), Dtype: "slice", Kind: "required", Node: n, Opts: eff.RequiredOpts})
				return prior
			default:
				e.res.Skipped = append(e.res.Skipped, path)
				e.postsOpt(n, path, prior, true)
				return prior
			}
		}
		e.res.NodesPresent++
		out = make([]any, len(cur))
		for i, el := range cur {
			out[i] = e.node(n.Elem, nil, el, joinPath(path, fmt.Sprintf("[%d]", i)))
		}
	}
	// slice-level tests run on the resulting slice value
	goSlice := treeToGo(n.GoType(), out)
	failed := e.runTests(n, goSlice, path, false)
	// the events carry the tree form
	for i := range e.res.Events {
		ev := &e.res.Events[i]
		if ev.NodeID == n.ID && ev.Path == path && ev.Kind == "test" {
			ev.Val = out
		}
	}
	for i := range failed {
		failed[i].Value = out
	}
	e.res.Issues = append(e.res.Issues, failed...)
	e.posts(n, path, out)
	return out
}

// treeToGo rebuilds a Go value of type t from a tree (for predicates that need Go values, e.g. slice Contains).
func treeToGo(t reflect.Type, tree any) any {
	defer func() { _ = recover() }()
	return obs.Make(t, tree).Interface()
}

// lookup finds the data of a struct field.
func (e *evaluator) lookup(rec any, f *spec.Field) (val any, key string, ok bool) {
	key = f.DataKey(e.env.SourceTag)
	if e.env.Flat {
		return e.env.FlatLookup(key), key, true
	}
	switch m := rec.(type) {
	case nil:
		return nil, key, true
	case reflect.Value:
		sf, ok := m.Type().FieldByName(key)
		if !ok || !sf.IsExported() {
			return nil, key, true
		}
		// promoted fields are read like Go reads them; behind a nil embedded pointer there is nothing to read
		fv, err := m.FieldByIndexErr(sf.Index)
		if err != nil || !fv.CanInterface() {
			return nil, key, true
		}
		return fv.Interface(), key, true
	case map[string]any:
		return m[key], key, true
	case map[string]string:
		if v, ok := m[key]; ok {
			return v, key, true
		}
		return nil, key, true
	case map[string]int:
		if v, ok := m[key]; ok {
			return v, key, true
		}
		return nil, key, true
	case map[string]float64:
		if v, ok := m[key]; ok {
			return v, key, true
		}
		return nil, key, true
	case map[string]bool:
		if v, ok := m[key]; ok {
			return v, key, true
		}
		return nil, key, true
	}
	return nil, key, false
}

// recordKind classifies struct input data: "nil", "record", "other" (un-coercible) or "unknown".
func recordKind(data any) string {
	if data == nil {
		return "nil"
	}
	rv := reflect.ValueOf(data)
	for rv.Kind() == reflect.Ptr {
		if rv.IsNil() {
			return "nil"
		}
		rv = rv.Elem()
	}
	switch rv.Kind() {
	case reflect.Map:
		switch rv.Interface().(type) {
		case map[string]any, map[string]string, map[string]int, map[string]float64, map[string]bool:
			return "record"
		}
		return "unknown" // named / other map types: coercible or not depending on convertibility; only judged for panics
	case reflect.Struct:
		if rv.Type() == reflect.TypeOf(time.Time{}) {
			return "other"
		}
		// a Go struct as the record: fields are looked up by the same key as in a map (zog tag, else schema key), which must
		// therefore be the name of an exported field; only plain exported fields are used by the generators
		return "struct-record"
	case reflect.String:
		if IsAbsentParse(rv.String()) {
			return "unknown" // blank string as struct data: the absent rule and the record rule disagree
		}
		return "other"
	}
	return "other"
}

func (e *evaluator) strct(n *spec.Node, data any, prior any, path string) any {
	pm, _ := prior.(map[string]any)
	out := map[string]any{}
	for k, v := range pm {
		out[k] = v
	}
	if e.env.Mode == Parse {
		var rec any
		if !e.env.Flat {
			switch recordKind(data) {
			case "nil":
				rec = nil
			case "record":
				rv := reflect.ValueOf(data)
				for rv.Kind() == reflect.Ptr {
					rv = rv.Elem()
				}
				rec = rv.Interface()
			case "struct-record":
				rv := reflect.ValueOf(data)
				for rv.Kind() == reflect.Ptr {
					rv = rv.Elem()
				}
				rec = rv
			case "other":
				e.issue(XIssue{Path: path, Code: "coerce", Dtype: "struct", Kind: "coerce", Node: n, Value: obs.Norm(data)})
				return prior
			default:
				e.unknown(fmt.Sprintf("struct data of type %T", data))
				return prior
			}
		}
		e.res.NodesPresent++
		for i := range n.Fields {
			f := &n.Fields[i]
			v, key, ok := e.lookup(rec, f)
			if !ok {
				e.unknown("lookup in unsupported record type")
				return prior
			}
			out[f.GoName] = e.node(f.Node, v, pm[f.GoName], joinPath(path, key))
		}
	} else {
		e.res.NodesPresent++
		for i := range n.Fields {
			f := &n.Fields[i]
			key := f.Key
			if v, ok := f.Tags["zog"]; ok {
				key = v
			}
			out[f.GoName] = e.node(f.Node, nil, pm[f.GoName], joinPath(path, key))
		}
	}
	failed := e.runTests(n, out, path, false)
	e.res.Issues = append(e.res.Issues, failed...)
	e.posts(n, path, out)
	return out
}

func (e *evaluator) ptr(n *spec.Node, data any, prior any, path string) any {
	eff := n.Eff()
	pp, _ := prior.(obs.PtrV)
	if _, ok := prior.(obs.PtrV); !ok {
		pp = obs.PtrV{Nil: true}
	}
	if e.env.Mode == Parse {
		// a flat source (form, query, env) is itself the record of every struct: a pointer to a struct is present
		flatRecord := e.env.Flat && path == "" && n.Elem.Kind == spec.Struct
		if IsAbsentParse(data) && !flatRecord {
			if eff.NotNil {
				e.issue(XIssue{Path: testPath(path, eff.NotNilOpts), Code: reqCode(eff.NotNilOpts, "not_nil"), Dtype: n.Elem.DType(), Kind: "not_nil", Node: n, Opts: eff.NotNilOpts})
			} else {
				e.res.Skipped = append(e.res.Skipped, path)
			}
			return prior
		}
		inner := pp.V
		if pp.Nil {
			inner = zeroTree(n.Elem.GoType())
		}
		return obs.PtrV{V: e.node(n.Elem, data, inner, path)}
	}
	if pp.Nil {
		if eff.NotNil {
			e.issue(XIssue{Path: testPath(path, eff.NotNilOpts), Code: reqCode(eff.NotNilOpts, "not_nil"), Dtype: n.Elem.DType(), Kind: "not_nil", Node: n, Opts: eff.NotNilOpts})
		} else {
			e.res.Skipped = append(e.res.Skipped, path)
		}
		return prior
	}
	return obs.PtrV{V: e.node(n.Elem, nil, pp.V, path)}
}

func (e *evaluator) custom(n *spec.Node, data any, prior any, path string) any {
	t := &n.Tests[0]
	var goVal any
	if e.env.Mode == Parse {
		if data == nil || reflect.TypeOf(data) != n.CustomT.Type {
			e.issue(XIssue{Path: path, Code: "coerce", Dtype: "custom", Kind: "coerce", Node: n, Value: obs.Norm(data)})
			return prior
		}
		goVal = data
	} else {
		goVal = treeToGo(n.CustomT.Type, prior)
	}
	e.res.NodesPresent++
	e.res.TestsRun++
	tree := obs.Norm(goVal)
	e.res.Events = append(e.res.Events, Event{Kind: "test", NodeID: n.ID, UID: t.UID, Path: path, Val: tree})
	if !t.Pred(goVal) {
		code := ""
		if t.Opts.Code != nil {
			code = *t.Opts.Code
		}
		e.issue(XIssue{Path: testPath(path, t.Opts), Code: code, Dtype: "custom", Kind: "test", Node: n, Test: t, Opts: t.Opts, Value: tree})
	}
	return tree
}

func (e *evaluator) pre(n *spec.Node, data any, prior any, path string) any {
	if e.env.Mode == Validate {
		// Validate: the function receives the value pointer; generators only use Preprocess in Parse-mode workloads
		e.unknown("Preprocess in Validate mode")
		return prior
	}
	if IsAbsentParse(data) {
		e.unknown("Preprocess around an absent value")
		return prior
	}
	e.res.Events = append(e.res.Events, Event{Kind: "pre", NodeID: n.ID, UID: -1, Path: path, Val: obs.Norm(data)})
	out, err := n.PreFn(data)
	if err != nil {
		e.issue(XIssue{Path: path, Code: "", Dtype: n.Elem.DType(), Kind: "pre", Node: n})
		return prior
	}
	return e.node(n.Elem, out, prior, path)
}

var _ = time.Now
