package obs

import (
	"fmt"
	"hash/fnv"
	"math"
	"reflect"
	"sort"
	"time"
	"unsafe"
)

// Snapshot computes a deep structural hash of any object graph, reading unexported fields too.
// Slices are hashed with len AND cap and with the contents of their spare capacity, maps order-insensitively, funcs by code pointer, pointers by pointee (cycles cut).
// It only reads; it is used on schemas, inputs, defaults / catch values / enum lists handed to builders and on validated values.
func Snapshot(v any) uint64 {
	h := &snap{seen: map[uintptr]bool{}}
	h.value(reflect.ValueOf(v), 0)
	return h.sum
}

type snap struct {
	sum  uint64
	seen map[uintptr]bool
}

// mix64 is the splitmix64 finaliser: small integers and neighbouring values spread over all 64 bits.
func mix64(z uint64) uint64 {
	z ^= z >> 30
	z *= 0xbf58476d1ce4e5b9
	z ^= z >> 27
	z *= 0x94d049bb133111eb
	z ^= z >> 31
	return z
}

func (s *snap) mix(x uint64) {
	s.sum = mix64(s.sum*0x9e3779b97f4a7c15 + mix64(x+0x632be59bd9b4e019))
}

func (s *snap) str(x string) {
	f := fnv.New64a()
	f.Write([]byte(x))
	s.mix(f.Sum64())
}

// readable returns a Value that may be read even if it came from an unexported field.
func readable(v reflect.Value) reflect.Value {
	if v.CanInterface() || !v.CanAddr() {
		return v
	}
	return reflect.NewAt(v.Type(), unsafe.Pointer(v.UnsafeAddr())).Elem()
}

func (s *snap) value(v reflect.Value, depth int) {
	if !v.IsValid() {
		s.mix(1)
		return
	}
	if depth > 40 {
		s.mix(2)
		return
	}
	s.str(v.Type().String())
	if v.Type() == timeType {
		// time.Location caches lookups lazily: hash the instant and the offset, not the internals
		t := readableTime(v)
		_, off := t.Zone()
		s.mix(uint64(t.Unix()))
		s.mix(uint64(t.Nanosecond()))
		s.mix(uint64(off))
		return
	}
	switch v.Kind() {
	case reflect.Bool:
		if v.Bool() {
			s.mix(3)
		} else {
			s.mix(4)
		}
	case reflect.Int, reflect.Int8, reflect.Int16, reflect.Int32, reflect.Int64:
		s.mix(uint64(v.Int()))
	case reflect.Uint, reflect.Uint8, reflect.Uint16, reflect.Uint32, reflect.Uint64, reflect.Uintptr:
		s.mix(v.Uint())
	case reflect.Float32, reflect.Float64:
		s.mix(math.Float64bits(v.Float()))
	case reflect.Complex64, reflect.Complex128:
		c := v.Complex()
		s.mix(math.Float64bits(real(c)))
		s.mix(math.Float64bits(imag(c)))
	case reflect.String:
		s.str(v.String())
	case reflect.Func:
		if v.IsNil() {
			s.mix(5)
		} else {
			s.mix(uint64(v.Pointer()))
		}
	case reflect.Chan, reflect.UnsafePointer:
		s.mix(uint64(v.Pointer()))
	case reflect.Ptr:
		if v.IsNil() {
			s.mix(6)
			return
		}
		p := v.Pointer()
		if s.seen[p] {
			s.mix(7)
			return
		}
		s.seen[p] = true
		s.value(v.Elem(), depth+1)
		delete(s.seen, p)
	case reflect.Interface:
		if v.IsNil() {
			s.mix(8)
			return
		}
		s.value(v.Elem(), depth+1)
	case reflect.Slice:
		if v.IsNil() {
			s.mix(9)
			return
		}
		s.mix(uint64(v.Len()))
		s.mix(uint64(v.Cap()) << 20)
		for i := 0; i < v.Len(); i++ {
			s.value(readable(v.Index(i)), depth+1)
		}
		if v.Cap() > v.Len() {
			// the spare capacity belongs to the owner of the slice as well: a write into it (an append through an alias) is a modification
			s.mix(0xC0FFEE)
			full := v.Slice(0, v.Cap())
			for i := v.Len(); i < full.Len(); i++ {
				s.value(readable(full.Index(i)), depth+1)
			}
		}
	case reflect.Array:
		for i := 0; i < v.Len(); i++ {
			s.value(readable(v.Index(i)), depth+1)
		}
	case reflect.Struct:
		for i := 0; i < v.NumField(); i++ {
			s.str(v.Type().Field(i).Name)
			f := v.Field(i)
			if !f.CanInterface() {
				if f.CanAddr() {
					f = reflect.NewAt(f.Type(), unsafe.Pointer(f.UnsafeAddr())).Elem()
				} else if v.CanInterface() {
					// not addressable: copy the struct into addressable memory first
					cp := reflect.New(v.Type()).Elem()
					cp.Set(v)
					f = cp.Field(i)
					f = reflect.NewAt(f.Type(), unsafe.Pointer(f.UnsafeAddr())).Elem()
				} else {
					s.mix(11) // unreachable without copying a read-only value: not hashed
					continue
				}
			}
			s.value(f, depth+1)
		}
	case reflect.Map:
		if v.IsNil() {
			s.mix(10)
			return
		}
		var subs []uint64
		it := v.MapRange()
		for it.Next() {
			sub := &snap{seen: s.seen}
			sub.value(it.Key(), depth+1)
			sub.value(it.Value(), depth+1)
			subs = append(subs, sub.sum)
		}
		sort.Slice(subs, func(i, j int) bool { return subs[i] < subs[j] })
		s.mix(uint64(len(subs)))
		for _, x := range subs {
			s.mix(x)
		}
	default:
		s.str(fmt.Sprintf("kind%d", v.Kind()))
	}
}

func readableTime(v reflect.Value) time.Time {
	if v.CanInterface() {
		return v.Interface().(time.Time)
	}
	if v.CanAddr() {
		return *(*time.Time)(unsafe.Pointer(v.UnsafeAddr()))
	}
	return time.Time{}
}
