package obs

import (
	"fmt"
	"reflect"
	"sort"
	"strings"

	z "github.com/Oudwins/zog"
)

// CI is a canonical issue: a deep copy of everything an issue carries, independent of the pooled object.
type CI struct {
	Key     string // map key the issue was found under ("" for lists)
	Path    string
	Code    string
	Dtype   string
	Message string
	Params  string // rendered deep copy
	Value   string // rendered, pointers dereferenced
	Err     string // error text ("" if nil)
	ErrIs   error  // the error object itself (identity checks); not part of String()
	ValueV  any    // the raw Value field
	ParamsV map[string]any
	Ptr     *z.ZogIssue
}

func (c CI) Triple() string { return c.Path + "|" + c.Code + "|" + c.Dtype }

func (c CI) String() string {
	return fmt.Sprintf("{path=%q code=%q type=%q msg=%q params=%s value=%s err=%q}", c.Path, c.Code, c.Dtype, c.Message, c.Params, c.Value, c.Err)
}

// Full is every observable field (used for equality between executions).
func (c CI) Full() string { return c.Key + "§" + c.String() }

func renderValue(v any) string {
	rv := reflect.ValueOf(v)
	for rv.IsValid() && rv.Kind() == reflect.Ptr && !rv.IsNil() {
		rv = rv.Elem()
	}
	if !rv.IsValid() {
		return "nil"
	}
	if rv.Kind() == reflect.Func {
		return "<func>"
	}
	if !rv.CanInterface() {
		return fmt.Sprint(rv)
	}
	return Render(NormValue(rv))
}

func Canon(key string, i *z.ZogIssue) CI {
	if i == nil {
		return CI{Key: key, Code: "<nil issue>"}
	}
	c := CI{Key: key, Path: i.Path, Code: i.Code, Dtype: i.Dtype, Message: i.Message, ErrIs: i.Err, ValueV: i.Value, ParamsV: i.Params, Ptr: i}
	if i.Params != nil {
		c.Params = Render(Norm(i.Params))
	} else {
		c.Params = "nil"
	}
	c.Value = renderValue(i.Value)
	if i.Err != nil {
		if zi, ok := i.Err.(*z.ZogIssue); ok {
			c.Err = "ZogIssue:" + zi.Code + ":" + zi.Message
		} else {
			c.Err = i.Err.Error()
		}
	}
	return c
}

// CanonList canonicalises a ZogIssueList.
func CanonList(l z.ZogIssueList) []CI {
	out := make([]CI, 0, len(l))
	for _, i := range l {
		out = append(out, Canon("", i))
	}
	return out
}

// CanonMap canonicalises a ZogIssueMap without the $first entry; firsts gets the $first list.
func CanonMap(m z.ZogIssueMap) (all []CI, firsts []CI) {
	keys := make([]string, 0, len(m))
	for k := range m {
		keys = append(keys, k)
	}
	sort.Strings(keys)
	for _, k := range keys {
		for _, i := range m[k] {
			if k == "$first" {
				firsts = append(firsts, Canon(k, i))
			} else {
				all = append(all, Canon(k, i))
			}
		}
	}
	return
}

// Multiset renders a sorted multiset of strings produced by f for comparison.
func Multiset(cs []CI, f func(CI) string) string {
	s := make([]string, len(cs))
	for i, c := range cs {
		s[i] = f(c)
	}
	sort.Strings(s)
	return strings.Join(s, "\n")
}

// MultisetDiff returns what is only in a and only in b (as multisets).
func MultisetDiff(a, b []string) (onlyA, onlyB []string) {
	cnt := map[string]int{}
	for _, x := range a {
		cnt[x]++
	}
	for _, x := range b {
		cnt[x]--
	}
	keys := make([]string, 0, len(cnt))
	for k := range cnt {
		keys = append(keys, k)
	}
	sort.Strings(keys)
	for _, k := range keys {
		for i := 0; i < cnt[k]; i++ {
			onlyA = append(onlyA, k)
		}
		for i := 0; i < -cnt[k]; i++ {
			onlyB = append(onlyB, k)
		}
	}
	return
}
