// Package obs holds the observation side of the monitors: generic value trees read back from
// destinations, canonical issues, deep snapshot hashes and the pool controller.
package obs

import (
	"fmt"
	"math"
	"reflect"
	"sort"
	"strings"
	"time"
)

// PtrV is the tree form of a pointer.
type PtrV struct {
	Nil bool
	V   any
}

var timeType = reflect.TypeOf(time.Time{})
var ptrVType = reflect.TypeOf(PtrV{})

// Norm converts any Go value into tree form: primitives and time.Time as themselves, slices as []any
// (nil slice = nil []any), structs as map[string]any by field name, pointers as PtrV, maps as map[string]any (string keys) .
func Norm(v any) any {
	if v == nil {
		return nil
	}
	return NormValue(reflect.ValueOf(v))
}

func NormValue(rv reflect.Value) any {
	if !rv.IsValid() {
		return nil
	}
	if rv.Type() == ptrVType && rv.CanInterface() {
		return rv.Interface() // already a tree node
	}
	switch rv.Kind() {
	case reflect.Ptr:
		if rv.IsNil() {
			return PtrV{Nil: true}
		}
		return PtrV{V: NormValue(rv.Elem())}
	case reflect.Interface:
		if rv.IsNil() {
			return nil
		}
		return NormValue(rv.Elem())
	case reflect.Slice:
		if rv.IsNil() {
			return []any(nil)
		}
		out := make([]any, rv.Len())
		for i := range out {
			out[i] = NormValue(rv.Index(i))
		}
		return out
	case reflect.Array:
		out := make([]any, rv.Len())
		for i := range out {
			out[i] = NormValue(rv.Index(i))
		}
		return out
	case reflect.Struct:
		if rv.Type() == timeType {
			if rv.CanInterface() {
				return rv.Interface()
			}
			return fmt.Sprint(rv)
		}
		out := map[string]any{}
		t := rv.Type()
		for i := 0; i < rv.NumField(); i++ {
			f := rv.Field(i)
			if !t.Field(i).IsExported() {
				out[t.Field(i).Name] = fmt.Sprint(f)
				continue
			}
			if IsEmb(t.Field(i)) {
				// the harness's own embedded structs: their fields are read where the schema sees them, as fields of this struct
				// (behind a nil embedded pointer: their zero values)
				e := f
				if e.Kind() == reflect.Ptr {
					if e.IsNil() {
						e = reflect.Zero(e.Type().Elem())
					} else {
						e = e.Elem()
					}
				}
				for k, v := range NormValue(e).(map[string]any) {
					out[k] = v
				}
				continue
			}
			out[t.Field(i).Name] = NormValue(f)
		}
		return out
	case reflect.Map:
		out := map[string]any{}
		it := rv.MapRange()
		for it.Next() {
			out[fmt.Sprint(it.Key().Interface())] = NormValue(it.Value())
		}
		return out
	case reflect.Func, reflect.Chan, reflect.UnsafePointer:
		return fmt.Sprintf("<%s>", rv.Kind())
	}
	if rv.CanInterface() {
		return rv.Interface()
	}
	return fmt.Sprint(rv)
}

// IsEmb recognises the embedded structs spec.Node.GoType declares (Embed != 0).
func IsEmb(sf reflect.StructField) bool {
	return sf.Anonymous && (sf.Name == "EmbA" || sf.Name == "EmbB")
}

// FieldAlloc is v.FieldByIndex(index) that allocates nil embedded pointers on the way.
func FieldAlloc(v reflect.Value, index []int) reflect.Value {
	for i, x := range index {
		if i > 0 && v.Kind() == reflect.Ptr {
			if v.IsNil() {
				v.Set(reflect.New(v.Type().Elem()))
			}
			v = v.Elem()
		}
		v = v.Field(x)
	}
	return v
}

// AllocEmb allocates every nil embedded pointer (IsEmb) reachable from v through structs, pointers and slices: a value handed to
// Validate has to have the fields its schema names.
func AllocEmb(v reflect.Value) {
	switch v.Kind() {
	case reflect.Ptr:
		if !v.IsNil() {
			AllocEmb(v.Elem())
		}
	case reflect.Slice:
		for i := 0; i < v.Len(); i++ {
			AllocEmb(v.Index(i))
		}
	case reflect.Struct:
		if v.Type() == timeType {
			return
		}
		for i := 0; i < v.NumField(); i++ {
			sf := v.Type().Field(i)
			if !sf.IsExported() {
				continue
			}
			f := v.Field(i)
			if IsEmb(sf) && f.Kind() == reflect.Ptr && f.IsNil() && f.CanSet() {
				f.Set(reflect.New(f.Type().Elem()))
			}
			AllocEmb(f)
		}
	}
}

// Make builds a reflect.Value of type t from a tree (the inverse of Norm for the shapes the harness uses).
func Make(t reflect.Type, tree any) reflect.Value {
	out := reflect.New(t).Elem()
	fill(out, tree)
	return out
}

func fill(dst reflect.Value, tree any) {
	if tree == nil {
		return
	}
	switch dst.Kind() {
	case reflect.Ptr:
		p, ok := tree.(PtrV)
		if !ok {
			panic(fmt.Sprintf("obs.Make: tree %T for pointer type %s", tree, dst.Type()))
		}
		if p.Nil {
			return
		}
		nv := reflect.New(dst.Type().Elem())
		fill(nv.Elem(), p.V)
		dst.Set(nv)
	case reflect.Slice:
		s, ok := tree.([]any)
		if !ok {
			panic(fmt.Sprintf("obs.Make: tree %T for slice type %s", tree, dst.Type()))
		}
		if s == nil {
			return
		}
		nv := reflect.MakeSlice(dst.Type(), len(s), len(s))
		for i := range s {
			fill(nv.Index(i), s[i])
		}
		dst.Set(nv)
	case reflect.Struct:
		if dst.Type() == timeType {
			dst.Set(reflect.ValueOf(tree))
			return
		}
		m, ok := tree.(map[string]any)
		if !ok {
			panic(fmt.Sprintf("obs.Make: tree %T for struct type %s", tree, dst.Type()))
		}
		for k, v := range m {
			sf, ok := dst.Type().FieldByName(k)
			if !ok {
				panic("obs.Make: no field " + k)
			}
			fill(FieldAlloc(dst, sf.Index), v)
		}
	default:
		rv := reflect.ValueOf(tree)
		if rv.Type() != dst.Type() {
			if rv.Type().ConvertibleTo(dst.Type()) {
				rv = rv.Convert(dst.Type())
			} else {
				panic(fmt.Sprintf("obs.Make: cannot put %T into %s", tree, dst.Type()))
			}
		}
		dst.Set(rv)
	}
}

// Equal compares two trees: times by instant and zone offset, floats bitwise (NaN == NaN), nil and empty slices equal.
func Equal(a, b any) bool { return Diff(a, b, "") == "" }

// Diff returns "" if the trees are equal, else a description of the first difference.
func Diff(a, b any, path string) string {
	switch x := a.(type) {
	case nil:
		if b == nil {
			return ""
		}
		if s, ok := b.([]any); ok && len(s) == 0 {
			return ""
		}
		return fmt.Sprintf("%s: nil vs %s", path, Render(b))
	case PtrV:
		y, ok := b.(PtrV)
		if !ok {
			return fmt.Sprintf("%s: pointer vs %T", path, b)
		}
		if x.Nil != y.Nil {
			return fmt.Sprintf("%s: nil-ness of pointer differs (%v vs %v)", path, x.Nil, y.Nil)
		}
		if x.Nil {
			return ""
		}
		return Diff(x.V, y.V, path+"*")
	case []any:
		y, ok := b.([]any)
		if !ok {
			if b == nil && len(x) == 0 {
				return ""
			}
			return fmt.Sprintf("%s: slice vs %T", path, b)
		}
		if len(x) != len(y) {
			return fmt.Sprintf("%s: slice length %d vs %d (%s vs %s)", path, len(x), len(y), Render(a), Render(b))
		}
		for i := range x {
			if d := Diff(x[i], y[i], fmt.Sprintf("%s[%d]", path, i)); d != "" {
				return d
			}
		}
		return ""
	case map[string]any:
		y, ok := b.(map[string]any)
		if !ok {
			return fmt.Sprintf("%s: struct vs %T", path, b)
		}
		keys := map[string]bool{}
		for k := range x {
			keys[k] = true
		}
		for k := range y {
			keys[k] = true
		}
		ks := make([]string, 0, len(keys))
		for k := range keys {
			ks = append(ks, k)
		}
		sort.Strings(ks)
		for _, k := range ks {
			xv, xo := x[k]
			yv, yo := y[k]
			if xo != yo {
				return fmt.Sprintf("%s.%s: present only on one side", path, k)
			}
			if d := Diff(xv, yv, path+"."+k); d != "" {
				return d
			}
		}
		return ""
	case time.Time:
		y, ok := b.(time.Time)
		if !ok {
			return fmt.Sprintf("%s: time vs %T", path, b)
		}
		_, xo := x.Zone()
		_, yo := y.Zone()
		if !x.Equal(y) || xo != yo {
			return fmt.Sprintf("%s: time %s vs %s", path, x.Format(time.RFC3339Nano), y.Format(time.RFC3339Nano))
		}
		return ""
	case float64:
		y, ok := b.(float64)
		if !ok || math.Float64bits(x) != math.Float64bits(y) {
			return fmt.Sprintf("%s: %v vs %v", path, Render(a), Render(b))
		}
		return ""
	case float32:
		y, ok := b.(float32)
		if !ok || math.Float32bits(x) != math.Float32bits(y) {
			return fmt.Sprintf("%s: %v vs %v", path, Render(a), Render(b))
		}
		return ""
	}
	if reflect.TypeOf(a) != reflect.TypeOf(b) || !reflect.DeepEqual(a, b) {
		return fmt.Sprintf("%s: %s vs %s", path, Render(a), Render(b))
	}
	return ""
}

// Render prints a tree (or any Go value) as compact, deterministic text for samples and replay files.
func Render(v any) string {
	var sb strings.Builder
	render(&sb, v, 0)
	return sb.String()
}

func render(sb *strings.Builder, v any, depth int) {
	if depth > 12 {
		sb.WriteString("…")
		return
	}
	switch x := v.(type) {
	case nil:
		sb.WriteString("nil")
	case PtrV:
		if x.Nil {
			sb.WriteString("nilptr")
		} else {
			sb.WriteString("&")
			render(sb, x.V, depth+1)
		}
	case []any:
		// nil and empty slices are not distinguished by any property (Equal treats them alike)
		sb.WriteString("[")
		for i, e := range x {
			if i > 0 {
				sb.WriteString(", ")
			}
			if i >= 12 {
				fmt.Fprintf(sb, "…(%d more)", len(x)-i)
				break
			}
			render(sb, e, depth+1)
		}
		sb.WriteString("]")
	case map[string]any:
		keys := make([]string, 0, len(x))
		for k := range x {
			keys = append(keys, k)
		}
		sort.Strings(keys)
		sb.WriteString("{")
		for i, k := range keys {
			if i > 0 {
				sb.WriteString(", ")
			}
			sb.WriteString(k)
			sb.WriteString(": ")
			render(sb, x[k], depth+1)
		}
		sb.WriteString("}")
	case string:
		if len(x) > 80 {
			fmt.Fprintf(sb, "%q…(%d bytes)", x[:40], len(x))
		} else {
			fmt.Fprintf(sb, "%q", x)
		}
	case time.Time:
		fmt.Fprintf(sb, "time(%s)", x.Format(time.RFC3339Nano))
	case int, int8, int16, int32, int64, uint, uint8, uint16, uint32, uint64, float32, float64, bool:
		fmt.Fprintf(sb, "%T(%v)", x, x)
	default:
		rv := reflect.ValueOf(v)
		switch rv.Kind() {
		case reflect.Ptr, reflect.Slice, reflect.Struct, reflect.Map, reflect.Array, reflect.Interface:
			fmt.Fprintf(sb, "%s ", rv.Type())
			render(sb, NormValue(rv), depth+1)
		default:
			fmt.Fprintf(sb, "%T(%v)", v, v)
		}
	}
}
