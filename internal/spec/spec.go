// Package spec is the schema AST ("Spec") from which the harness derives the real zog schema, the
// destination type and - in package ref - the expected behaviour.
package spec

import (
	"fmt"
	"reflect"
	"regexp"
	"sort"
	"strings"
	"time"
)

type Kind int

const (
	String Kind = iota
	Int
	Int32
	Int64
	Float32
	Float64
	Bool
	Time
	Slice
	Struct
	Ptr
	Custom
	Pre // Preprocess wrapper around Elem
)

var kindNames = [...]string{"String", "Int", "Int32", "Int64", "Float32", "Float64", "Bool", "Time", "Slice", "Struct", "Ptr", "Custom", "Preprocess"}

func (k Kind) String() string { return kindNames[k] }

func (k Kind) IsPrimitive() bool { return k <= Time }
func (k Kind) IsNumber() bool    { return k >= Int && k <= Float64 }

type ModOp int

const (
	MRequired ModOp = iota
	MOptional
	MDefault
	MCatch
	MNotNil // pointers only
)

// TestOpts are the five test options.
type TestOpts struct {
	Message *string // z.Message
	MsgFunc *string // z.MessageFunc whose function sets exactly this text
	// MsgFuncReads: the MessageFunc appends what it reads from the issue it is given (code, type, params, and the path when
	// no IssuePath is set), so a formatter that is handed a half-initialised or foreign issue becomes visible
	MsgFuncReads bool
	Code         *string        // z.IssueCode
	Path         *string        // z.IssuePath
	Params       map[string]any // z.Params
	// Order in which the options are passed (indices into {Message,MsgFunc,Code,Path,Params}); nil = canonical order
	Order []int
}

func (o TestOpts) Empty() bool {
	return o.Message == nil && o.MsgFunc == nil && o.Code == nil && o.Path == nil && o.Params == nil
}

type Mod struct {
	Op   ModOp
	Val  any // Default/Catch: a Go value of the node's Go type
	Opts TestOpts
}

type TestOp int

const (
	// strings & slices
	TMin TestOp = iota
	TMax
	TLen
	// strings
	TEmail
	TURL
	THasPrefix
	THasSuffix
	TContains // string: substring; slice: element
	TContainsUpper
	TContainsDigit
	TContainsSpecial
	TUUID
	TMatch
	TOneOf // strings & numbers
	// numbers, bool, time
	TEQ
	TLT
	TLTE
	TGT
	TGTE
	// bool
	TTrue
	TFalse
	// time
	TAfter
	TBefore
	// custom predicate supplied by the harness
	TCustom
)

var testOpNames = map[TestOp]string{TMin: "Min", TMax: "Max", TLen: "Len", TEmail: "Email", TURL: "URL", THasPrefix: "HasPrefix", THasSuffix: "HasSuffix",
	TContains: "Contains", TContainsUpper: "ContainsUpper", TContainsDigit: "ContainsDigit", TContainsSpecial: "ContainsSpecial", TUUID: "UUID", TMatch: "Match",
	TOneOf: "OneOf", TEQ: "EQ", TLT: "LT", TLTE: "LTE", TGT: "GT", TGTE: "GTE", TTrue: "True", TFalse: "False", TAfter: "After", TBefore: "Before", TCustom: "TestFunc"}

func (t TestOp) String() string { return testOpNames[t] }

// Code returns the documented issue code of the built-in test.
func (t TestOp) Code() string {
	switch t {
	case TMin:
		return "min"
	case TMax:
		return "max"
	case TLen:
		return "len"
	case TEmail:
		return "email"
	case TURL:
		return "url"
	case THasPrefix:
		return "prefix"
	case THasSuffix:
		return "suffix"
	case TContains:
		return "contained"
	case TContainsUpper:
		return "contains_upper"
	case TContainsDigit:
		return "contains_digit"
	case TContainsSpecial:
		return "contains_special"
	case TUUID:
		return "uuid"
	case TMatch:
		return "match"
	case TOneOf:
		return "one_of_options"
	case TEQ, TTrue, TFalse:
		return "eq"
	case TLT:
		return "lt"
	case TLTE:
		return "lte"
	case TGT:
		return "gt"
	case TGTE:
		return "gte"
	case TAfter:
		return "after"
	case TBefore:
		return "before"
	}
	return ""
}

// Test is one test of a node.
type Test struct {
	UID  int    // unique within the schema
	Op   TestOp //
	Not  bool   // string schemas only: preceded by Not()
	N    int    // Min/Max/Len
	Arg  any    // typed parameter: string, number of the node's type, time.Time, []T (OneOf), element (slice Contains)
	Re   *regexp.Regexp
	Opts TestOpts
	// TCustom:
	Pred     func(v any) bool // predicate over the node's VALUE (not pointer); must be deterministic
	PredName string
	ViaTest  bool // added with schema.Test(z.TestFunc(code, fn, opts...)) instead of schema.TestFunc(fn, opts...)
	Patch    bool // with ViaTest: the reusable test is created without options and its exported fields are set afterwards (t.IssueCode = ...)
}

// EffCode is the code the issue of this test must carry.
func (t *Test) EffCode() string {
	if t.Opts.Code != nil {
		return *t.Opts.Code
	}
	c := t.Op.Code()
	if t.Not {
		return "not_" + c
	}
	return c
}

// Post is a post-transform.
type Post struct {
	UID  int
	Name string
	Fn   func(ptr any) error // receives the pointer zog passed; may mutate; may return an error
}

type Field struct {
	Key    string            // schema key
	GoName string            // Go field name (Key with an upper-case first letter)
	Tags   map[string]string // zog, json, form, query, env
	Node   *Node
}

// CustomType describes the T of a Custom[T] node.
type CustomType struct {
	Name string
	Type reflect.Type
}

type Node struct {
	ID      int
	Kind    Kind
	Mods    []Mod
	Tests   []Test
	Posts   []Post
	Elem    *Node   // Slice, Ptr, Pre
	Fields  []Field // Struct (in insertion order of the z.Schema map)
	Coercer *CoercerSpec
	Layout  string // Time: z.Time.Format(layout) when non-empty
	CustomT *CustomType
	Witness any // a value of the node's Go type that satisfies all tests (generator bookkeeping)
	// Preprocess:
	PreFn   func(data any) (any, error)
	PreName string
	// ExtraFields are destination fields the schema does not name (Struct only)
	ExtraFields []ExtraField
	// ViaMerge (Struct only): the real schema is assembled as part1.Merge(part2, part3): fields, struct-level tests and
	// post-transforms are split over three partial schemas in order. Documented to be the same schema.
	ViaMerge bool
	// MergeCuts: where the field (visit order), test and post-transform lists are cut: part1 = [0,a), part2 = [a,b), part3 = [b,len).
	// MergeTwo: only part1.Merge(part2) (all cuts have b == len).
	MergeCuts [3][2]int
	MergeTwo  bool
	// Derive (Struct only): after the schema was assembled it is replaced by a derived schema that selects nothing away:
	// 1 = s.Pick(all keys...), 2 = s.Omit(), 3 = s.Extend(z.Schema{}), 4 = s.Pick(map of all keys). Documented to behave like s.
	// 5 = the schema is first built with a stand-in for one primitive field, USED once, and then s = base.Extend({that key: the real field}):
	//     an override of a field of a base that has already been executed.
	Derive int
	// Embed (Struct only, >= 2 fields): the destination type declares every second field in an embedded struct, so the schema reaches
	// them as promoted fields. 1 = through a pointer (*EmbA), 2 = through a value (EmbA), 3 = two levels of pointers (*EmbA, some in *EmbA.*EmbB).
	// Documented nowhere as different: the schema, the data and the results are the ones of the flat declaration.
	Embed int
}

// CoercerSpec is a z.WithCoercer option: the coercer returns Mark (of the node's Go type) for any input, or an error when Fail.
type CoercerSpec struct {
	Mark any
	Fail bool
}

type ExtraField struct {
	GoName string
	Type   reflect.Type
}

// Eff is the folded effect of the modifier calls (last call wins).
type Eff struct {
	Required     bool
	RequiredOpts TestOpts
	NotNil       bool
	NotNilOpts   TestOpts
	Default      any
	HasDefault   bool
	Catch        any
	HasCatch     bool
}

func (n *Node) Eff() Eff {
	var e Eff
	for _, m := range n.Mods {
		switch m.Op {
		case MRequired:
			e.Required, e.RequiredOpts = true, m.Opts
		case MOptional:
			e.Required = false
		case MDefault:
			e.Default, e.HasDefault = m.Val, true
		case MCatch:
			e.Catch, e.HasCatch = m.Val, true
		case MNotNil:
			e.NotNil, e.NotNilOpts = true, m.Opts
		}
	}
	return e
}

// DType is the issue type string of a node.
func (n *Node) DType() string {
	switch n.Kind {
	case String:
		return "string"
	case Int, Int32, Int64, Float32, Float64:
		return "number"
	case Bool:
		return "bool"
	case Time:
		return "time"
	case Slice:
		return "slice"
	case Struct:
		return "struct"
	case Ptr, Pre:
		return n.Elem.DType()
	case Custom:
		return "custom"
	}
	return "?"
}

// Walk visits every node of the tree.
func (n *Node) Walk(f func(*Node)) {
	f(n)
	if n.Elem != nil {
		n.Elem.Walk(f)
	}
	for i := range n.Fields {
		n.Fields[i].Node.Walk(f)
	}
}

// Number assigns node ids and test/post uids in pre-order. Shared nodes (same pointer) keep one id.
func (n *Node) Number() {
	id, uid := 0, 0
	seen := map[*Node]bool{}
	n.Walk(func(x *Node) {
		if seen[x] {
			return
		}
		seen[x] = true
		x.ID = id
		id++
		for i := range x.Tests {
			x.Tests[i].UID = uid
			uid++
		}
		for i := range x.Posts {
			x.Posts[i].UID = uid
			uid++
		}
	})
}

var (
	tString  = reflect.TypeOf("")
	tInt     = reflect.TypeOf(int(0))
	tInt32   = reflect.TypeOf(int32(0))
	tInt64   = reflect.TypeOf(int64(0))
	tFloat32 = reflect.TypeOf(float32(0))
	tFloat64 = reflect.TypeOf(float64(0))
	tBool    = reflect.TypeOf(false)
	tTime    = reflect.TypeOf(time.Time{})
)

// GoType is the destination type of a node.
func (n *Node) GoType() reflect.Type {
	switch n.Kind {
	case String:
		return tString
	case Int:
		return tInt
	case Int32:
		return tInt32
	case Int64:
		return tInt64
	case Float32:
		return tFloat32
	case Float64:
		return tFloat64
	case Bool:
		return tBool
	case Time:
		return tTime
	case Slice:
		return reflect.SliceOf(n.Elem.GoType())
	case Ptr:
		return reflect.PointerTo(n.Elem.GoType())
	case Pre:
		return n.Elem.GoType()
	case Custom:
		return n.CustomT.Type
	case Struct:
		var fs, l1, l2 []reflect.StructField
		for i, f := range n.Fields {
			sf := reflect.StructField{Name: f.GoName, Type: f.Node.GoType(), Tag: reflect.StructTag(TagString(f.Tags))}
			switch n.EmbLevel(i) {
			case 1:
				l1 = append(l1, sf)
			case 2:
				l2 = append(l2, sf)
			default:
				fs = append(fs, sf)
			}
		}
		if len(l2) > 0 {
			l1 = append(l1, reflect.StructField{Name: "EmbB", Type: reflect.PointerTo(reflect.StructOf(l2)), Anonymous: true})
		}
		if len(l1) > 0 {
			t := reflect.StructOf(l1)
			if n.Embed != 2 {
				t = reflect.PointerTo(t)
			}
			fs = append(fs, reflect.StructField{Name: "EmbA", Type: t, Anonymous: true})
		}
		for _, x := range n.ExtraFields {
			fs = append(fs, reflect.StructField{Name: x.GoName, Type: x.Type})
		}
		return reflect.StructOf(fs)
	}
	panic("spec: unknown kind")
}

// EmbLevel says where field i of a struct node lives in the destination type: 0 = declared directly, 1 = promoted from the embedded
// struct EmbA (a pointer, or a value when Embed == 2), 2 = promoted from *EmbB embedded in *EmbA (Embed == 3).
func (n *Node) EmbLevel(i int) int {
	if n.Embed == 0 || len(n.Fields) < 2 || i%2 == 0 {
		return 0
	}
	if n.Embed == 3 && i%4 == 1 {
		return 2
	}
	return 1
}

// TagString renders a tag set as a struct tag.
func TagString(tags map[string]string) string {
	if len(tags) == 0 {
		return ""
	}
	keys := make([]string, 0, len(tags))
	for k := range tags {
		keys = append(keys, k)
	}
	sort.Strings(keys)
	var sb strings.Builder
	for i, k := range keys {
		if i > 0 {
			sb.WriteByte(' ')
		}
		fmt.Fprintf(&sb, "%s:%q", k, tags[k])
	}
	return sb.String()
}

// UpperFirst upper-cases an ASCII lower-case first letter (the documented mapping from schema key to Go field name).
func UpperFirst(s string) string {
	if s != "" && s[0] >= 'a' && s[0] <= 'z' {
		return string(s[0]-32) + s[1:]
	}
	return s
}

// DataKey is the key under which a field is looked up in the input: source tag, else zog tag, else schema key.
func (f *Field) DataKey(sourceTag string) string {
	if sourceTag != "" {
		if v, ok := f.Tags[sourceTag]; ok {
			return v
		}
	}
	if v, ok := f.Tags["zog"]; ok {
		return v
	}
	return f.Key
}

// BuiltinParams are the parameters a built-in test documents for its issues (nil = none).
func (t *Test) BuiltinParams() map[string]any {
	switch t.Op {
	case TMin:
		return map[string]any{"min": t.N}
	case TMax:
		return map[string]any{"max": t.N}
	case TLen:
		return map[string]any{"len": t.N}
	case THasPrefix:
		return map[string]any{"prefix": t.Arg}
	case THasSuffix:
		return map[string]any{"suffix": t.Arg}
	case TContains:
		return map[string]any{"contained": t.Arg}
	case TOneOf:
		return map[string]any{"one_of_options": t.Arg}
	case TMatch:
		return map[string]any{"match": t.Re.String()}
	case TEQ:
		return map[string]any{"eq": t.Arg}
	case TTrue:
		return map[string]any{"eq": true}
	case TFalse:
		return map[string]any{"eq": false}
	case TLT:
		return map[string]any{"lt": t.Arg}
	case TLTE:
		return map[string]any{"lte": t.Arg}
	case TGT:
		return map[string]any{"gt": t.Arg}
	case TGTE:
		return map[string]any{"gte": t.Arg}
	case TAfter:
		return map[string]any{"after": t.Arg}
	case TBefore:
		return map[string]any{"before": t.Arg}
	}
	return nil
}

// ComposeMsg is the message a reading MessageFunc produces.
func ComposeMsg(text, code, dtype string, params map[string]any, path *string) string {
	keys := make([]string, 0, len(params))
	for k := range params {
		keys = append(keys, k)
	}
	sort.Strings(keys)
	var sb strings.Builder
	fmt.Fprintf(&sb, "%s|code=%s|type=%s|params=", text, code, dtype)
	for _, k := range keys {
		fmt.Fprintf(&sb, "%s:%v,", k, params[k])
	}
	if path != nil {
		fmt.Fprintf(&sb, "|path=%s", *path)
	}
	return sb.String()
}

// AltGoType is a second, equally valid destination type for the schema: the same fields (names, types, tags) declared
// in reverse order at every struct level.
func (n *Node) AltGoType() reflect.Type {
	switch n.Kind {
	case Slice:
		return reflect.SliceOf(n.Elem.AltGoType())
	case Ptr:
		return reflect.PointerTo(n.Elem.AltGoType())
	case Pre:
		return n.Elem.AltGoType()
	case Struct:
		var fs []reflect.StructField
		for _, f := range n.Fields {
			fs = append(fs, reflect.StructField{Name: f.GoName, Type: f.Node.AltGoType(), Tag: reflect.StructTag(TagString(f.Tags))})
		}
		for _, x := range n.ExtraFields {
			fs = append(fs, reflect.StructField{Name: x.GoName, Type: x.Type})
		}
		for i, j := 0, len(fs)-1; i < j; i, j = i+1, j-1 {
			fs[i], fs[j] = fs[j], fs[i]
		}
		return reflect.StructOf(fs)
	}
	return n.GoType()
}

// HasStruct reports whether the tree contains a struct node with at least two fields.
func (n *Node) HasStruct() bool {
	found := false
	n.Walk(func(x *Node) {
		if x.Kind == Struct && len(x.Fields)+len(x.ExtraFields) >= 2 {
			found = true
		}
	})
	return found
}
