package spec

import (
	"fmt"
	"reflect"
	"time"

	z "github.com/Oudwins/zog"
)

// Hooks let a monitor observe the callbacks of a built schema. All may be nil.
type Hooks struct {
	// OnTest is called when a custom test of the node is invoked (before the predicate is evaluated).
	OnTest func(n *Node, t *Test, val any, ctx z.Ctx)
	// OnPost is called when a post-transform of the node is invoked (before it runs).
	OnPost func(n *Node, p *Post, ptr any, ctx z.Ctx)
	// OnPre is called when a preprocess function is invoked.
	OnPre func(n *Node, data any, ctx z.Ctx)
	// OnCoerce is called when a custom coercer (WithCoercer) of the node is invoked.
	OnCoerce func(n *Node, data any)
	// FieldOrder, if set, returns the order in which the fields of a struct node are inserted into the z.Schema map.
	FieldOrder func(n *Node) []int
	// NoShare builds an independent schema object for every occurrence of a shared node (replays its builder chain).
	NoShare bool
}

// Built is a real schema plus the typed entry points to use it at top level.
type Built struct {
	Node   *Node
	Schema z.ZogSchema
}

// Build turns the spec into a real zog schema by calling zog's builders in the recorded order.
// Shared nodes (the same *Node reachable twice) are built once and the same schema object is reused.
func Build(n *Node, h *Hooks) *Built {
	if h == nil {
		h = &Hooks{}
	}
	b := &builder{h: h, memo: map[*Node]z.ZogSchema{}}
	return &Built{Node: n, Schema: b.build(n)}
}

type builder struct {
	h    *Hooks
	memo map[*Node]z.ZogSchema
}

func (b *builder) build(n *Node) z.ZogSchema {
	if s, ok := b.memo[n]; ok && !b.h.NoShare {
		return s
	}
	s := b.build1(n)
	b.memo[n] = s
	return s
}

func optList(o TestOpts) []z.TestOption {
	var all [5]z.TestOption
	if o.Message != nil {
		all[0] = z.Message(*o.Message)
	}
	if o.MsgFunc != nil {
		txt := *o.MsgFunc
		_ = txt
		all[1] = z.MessageFunc(msgFuncOf(o))
	}
	if o.Code != nil {
		all[2] = z.IssueCode(*o.Code)
	}
	if o.Path != nil {
		all[3] = z.IssuePath(*o.Path)
	}
	if o.Params != nil {
		all[4] = z.Params(o.Params)
	}
	order := o.Order
	if order == nil {
		order = []int{0, 1, 2, 3, 4}
	}
	var out []z.TestOption
	for _, i := range order {
		if all[i] != nil {
			out = append(out, all[i])
		}
	}
	return out
}

func (b *builder) schemaOpts(n *Node) []z.SchemaOption {
	var opts []z.SchemaOption
	if n.Kind == Time && n.Layout != "" {
		opts = append(opts, z.Time.Format(n.Layout))
	}
	if n.Coercer != nil {
		c := n.Coercer
		opts = append(opts, z.WithCoercer(func(data any) (any, error) {
			if b.h.OnCoerce != nil {
				b.h.OnCoerce(n, data)
			}
			if c.Fail {
				return nil, fmt.Errorf("marker coercer of node %d refuses %v", n.ID, data)
			}
			return c.Mark, nil
		}))
	}
	return opts
}

func (b *builder) customTest(n *Node, t *Test) z.BoolTFunc {
	return func(val any, ctx z.Ctx) bool {
		if b.h.OnTest != nil {
			b.h.OnTest(n, t, val, ctx)
		}
		return t.Pred(val)
	}
}

// customTestPtr is for struct/slice/custom nodes whose tests receive a pointer: the predicate sees the pointee.
func (b *builder) customTestPtr(n *Node, t *Test) z.BoolTFunc {
	return func(val any, ctx z.Ctx) bool {
		if b.h.OnTest != nil {
			b.h.OnTest(n, t, val, ctx)
		}
		return t.Pred(derefArg(n, "test", val))
	}
}

func (b *builder) post(n *Node, p *Post) z.PostTransform {
	return func(ptr any, ctx z.Ctx) error {
		if b.h.OnPost != nil {
			b.h.OnPost(n, p, ptr, ctx)
		}
		if p.Fn == nil {
			return nil
		}
		return p.Fn(ptr)
	}
}

func (b *builder) build1(n *Node) z.ZogSchema {
	switch n.Kind {
	case String:
		return b.buildString(n)
	case Int:
		return buildNumber[int](b, n, z.Int)
	case Int32:
		return buildNumber[int32](b, n, z.Int32)
	case Int64:
		return buildNumber[int64](b, n, z.Int64)
	case Float32:
		return buildNumber[float32](b, n, z.Float32)
	case Float64:
		return buildNumber[float64](b, n, z.Float64)
	case Bool:
		return b.buildBool(n)
	case Time:
		return b.buildTime(n)
	case Slice:
		return b.buildSlice(n)
	case Struct:
		return b.buildStruct(n)
	case Ptr:
		s := z.Ptr(b.build(n.Elem))
		for _, m := range n.Mods {
			if m.Op == MNotNil {
				s = s.NotNil(optList(m.Opts)...)
			}
		}
		return s
	case Custom:
		return b.buildCustom(n)
	case Pre:
		return b.buildPre(n)
	}
	panic("spec: cannot build kind " + n.Kind.String())
}

func (b *builder) buildString(n *Node) z.ZogSchema {
	s := z.String(b.schemaOpts(n)...)
	// modifiers, tests and posts are applied in the order: mods, tests, posts unless an explicit order is given
	for i := range n.Mods {
		m := &n.Mods[i]
		switch m.Op {
		case MRequired:
			s = s.Required(optList(m.Opts)...)
		case MOptional:
			s = s.Optional()
		case MDefault:
			s = s.Default(m.Val.(string))
		case MCatch:
			s = s.Catch(m.Val.(string))
		}
	}
	for i := range n.Tests {
		t := &n.Tests[i]
		o := optList(t.Opts)
		if t.Op == TCustom {
			if t.ViaTest {
				s = s.Test(reusable(b.customTest(n, t), t))
			} else {
				s = s.TestFunc(b.customTest(n, t), o...)
			}
			continue
		}
		if t.Not {
			ns := s.Not()
			switch t.Op {
			case TLen:
				s = ns.Len(t.N, o...)
			case TEmail:
				s = ns.Email(o...)
			case TURL:
				s = ns.URL(o...)
			case THasPrefix:
				s = ns.HasPrefix(t.Arg.(string), o...)
			case THasSuffix:
				s = ns.HasSuffix(t.Arg.(string), o...)
			case TContains:
				s = ns.Contains(t.Arg.(string), o...)
			case TContainsUpper:
				s = ns.ContainsUpper(o...)
			case TContainsDigit:
				s = ns.ContainsDigit(o...)
			case TContainsSpecial:
				s = ns.ContainsSpecial(o...)
			case TUUID:
				s = ns.UUID(o...)
			case TMatch:
				s = ns.Match(t.Re, o...)
			case TOneOf:
				s = ns.OneOf(t.Arg.([]string), o...)
			default:
				panic("spec: Not() is not available for " + t.Op.String())
			}
			continue
		}
		switch t.Op {
		case TMin:
			s = s.Min(t.N, o...)
		case TMax:
			s = s.Max(t.N, o...)
		case TLen:
			s = s.Len(t.N, o...)
		case TEmail:
			s = s.Email(o...)
		case TURL:
			s = s.URL(o...)
		case THasPrefix:
			s = s.HasPrefix(t.Arg.(string), o...)
		case THasSuffix:
			s = s.HasSuffix(t.Arg.(string), o...)
		case TContains:
			s = s.Contains(t.Arg.(string), o...)
		case TContainsUpper:
			s = s.ContainsUpper(o...)
		case TContainsDigit:
			s = s.ContainsDigit(o...)
		case TContainsSpecial:
			s = s.ContainsSpecial(o...)
		case TUUID:
			s = s.UUID(o...)
		case TMatch:
			s = s.Match(t.Re, o...)
		case TOneOf:
			s = s.OneOf(t.Arg.([]string), o...)
		default:
			panic("spec: string test not supported: " + t.Op.String())
		}
	}
	for i := range n.Posts {
		s = s.PostTransform(b.post(n, &n.Posts[i]))
	}
	return s
}

type number interface {
	~int | ~int32 | ~int64 | ~float32 | ~float64
}

func buildNumber[T number](b *builder, n *Node, ctor func(...z.SchemaOption) *z.NumberSchema[T]) z.ZogSchema {
	s := ctor(b.schemaOpts(n)...)
	for i := range n.Mods {
		m := &n.Mods[i]
		switch m.Op {
		case MRequired:
			s = s.Required(optList(m.Opts)...)
		case MOptional:
			s = s.Optional()
		case MDefault:
			s = s.Default(m.Val.(T))
		case MCatch:
			s = s.Catch(m.Val.(T))
		}
	}
	for i := range n.Tests {
		t := &n.Tests[i]
		o := optList(t.Opts)
		switch t.Op {
		case TCustom:
			if t.ViaTest {
				s = s.Test(reusable(b.customTest(n, t), t))
			} else {
				s = s.TestFunc(b.customTest(n, t), o...)
			}
		case TEQ:
			s = s.EQ(t.Arg.(T), o...)
		case TLT:
			s = s.LT(t.Arg.(T), o...)
		case TLTE:
			s = s.LTE(t.Arg.(T), o...)
		case TGT:
			s = s.GT(t.Arg.(T), o...)
		case TGTE:
			s = s.GTE(t.Arg.(T), o...)
		case TOneOf:
			s = s.OneOf(t.Arg.([]T), o...)
		default:
			panic("spec: number test not supported: " + t.Op.String())
		}
	}
	for i := range n.Posts {
		s = s.PostTransform(b.post(n, &n.Posts[i]))
	}
	return s
}

func (b *builder) buildBool(n *Node) z.ZogSchema {
	s := z.Bool(b.schemaOpts(n)...)
	for i := range n.Mods {
		m := &n.Mods[i]
		switch m.Op {
		case MRequired:
			s = s.Required(optList(m.Opts)...)
		case MOptional:
			s = s.Optional()
		case MDefault:
			s = s.Default(m.Val.(bool))
		case MCatch:
			s = s.Catch(m.Val.(bool))
		}
	}
	for i := range n.Tests {
		t := &n.Tests[i]
		switch t.Op {
		case TCustom:
			if t.ViaTest {
				s = s.Test(reusable(b.customTest(n, t), t))
			} else {
				s = s.TestFunc(b.customTest(n, t), optList(t.Opts)...)
			}
		case TTrue:
			s = s.True()
		case TFalse:
			s = s.False()
		case TEQ:
			s = s.EQ(t.Arg.(bool))
		default:
			panic("spec: bool test not supported: " + t.Op.String())
		}
	}
	for i := range n.Posts {
		s = s.PostTransform(b.post(n, &n.Posts[i]))
	}
	return s
}

func (b *builder) buildTime(n *Node) z.ZogSchema {
	s := z.Time(b.schemaOpts(n)...)
	for i := range n.Mods {
		m := &n.Mods[i]
		switch m.Op {
		case MRequired:
			s = s.Required(optList(m.Opts)...)
		case MOptional:
			s = s.Optional()
		case MDefault:
			s = s.Default(m.Val.(time.Time))
		case MCatch:
			s = s.Catch(m.Val.(time.Time))
		}
	}
	for i := range n.Tests {
		t := &n.Tests[i]
		o := optList(t.Opts)
		switch t.Op {
		case TCustom:
			if t.ViaTest {
				s = s.Test(reusable(b.customTest(n, t), t))
			} else {
				s = s.TestFunc(b.customTest(n, t), o...)
			}
		case TAfter:
			s = s.After(t.Arg.(time.Time), o...)
		case TBefore:
			s = s.Before(t.Arg.(time.Time), o...)
		case TEQ:
			s = s.EQ(t.Arg.(time.Time), o...)
		default:
			panic("spec: time test not supported: " + t.Op.String())
		}
	}
	for i := range n.Posts {
		s = s.PostTransform(b.post(n, &n.Posts[i]))
	}
	return s
}

func (b *builder) buildSlice(n *Node) z.ZogSchema {
	s := z.Slice(b.build(n.Elem), b.schemaOpts(n)...)
	for i := range n.Mods {
		m := &n.Mods[i]
		switch m.Op {
		case MRequired:
			s = s.Required(optList(m.Opts)...)
		case MOptional:
			s = s.Optional()
		case MDefault:
			s = s.Default(m.Val)
		}
	}
	for i := range n.Tests {
		t := &n.Tests[i]
		o := optList(t.Opts)
		switch t.Op {
		case TCustom:
			if t.ViaTest {
				s = s.Test(reusable(b.customTestPtr(n, t), t))
			} else {
				s = s.TestFunc(b.customTestPtr(n, t), o...)
			}
		case TMin:
			s = s.Min(t.N, o...)
		case TMax:
			s = s.Max(t.N, o...)
		case TLen:
			s = s.Len(t.N, o...)
		case TContains:
			s = s.Contains(t.Arg, o...)
		default:
			panic("spec: slice test not supported: " + t.Op.String())
		}
	}
	for i := range n.Posts {
		s = s.PostTransform(b.post(n, &n.Posts[i]))
	}
	return s
}

func (b *builder) buildStruct(n *Node) z.ZogSchema {
	sch := z.Schema{}
	order := make([]int, len(n.Fields))
	for i := range order {
		order[i] = i
	}
	if b.h.FieldOrder != nil {
		order = b.h.FieldOrder(n)
	}
	for _, i := range order {
		f := &n.Fields[i]
		sch[f.Key] = b.build(f.Node)
	}
	if n.ViaMerge {
		return deriveStruct(n, b.buildStructViaMerge(n, order, sch).(*z.StructSchema))
	}
	// Derive 5: a stand-in (the same node with an extra always-failing test) sits at one primitive field until the base was used once
	standInKey := ""
	var realChild z.ZogSchema
	if n.Derive == 5 {
		for _, i := range order {
			f := &n.Fields[i]
			if f.Node.Kind.IsPrimitive() {
				dn := *f.Node
				dn.Tests = append(append([]Test{}, f.Node.Tests...), Test{Op: TCustom, PredName: "stand-in:false", Pred: func(any) bool { return false }})
				standInKey, realChild = f.Key, sch[f.Key]
				sch[f.Key] = b.build1(&dn)
				break
			}
		}
	}
	s := z.Struct(sch)
	for i := range n.Tests {
		t := &n.Tests[i]
		o := optList(t.Opts)
		if t.Op != TCustom {
			panic("spec: struct test not supported: " + t.Op.String())
		}
		if t.ViaTest {
			s = s.Test(reusable(b.customTestPtr(n, t), t))
		} else {
			s = s.TestFunc(b.customTestPtr(n, t), o...)
		}
	}
	for i := range n.Posts {
		s = s.PostTransform(b.post(n, &n.Posts[i]))
	}
	if standInKey != "" {
		// use the base once (no callbacks of the harness are to see this call), then override the stand-in with the real field
		saved := b.h
		b.h = &Hooks{}
		func() {
			defer func() { _ = recover() }()
			s.Parse(map[string]any{}, reflect.New(n.GoType()).Interface())
		}()
		b.h = saved
		return s.Extend(z.Schema{standInKey: realChild})
	}
	return deriveStruct(n, s)
}

// deriveStruct applies n.Derive: a derivation that keeps every field (and, as documented, the struct-level tests and transforms).
func deriveStruct(n *Node, s *z.StructSchema) z.ZogSchema {
	switch n.Derive {
	case 1:
		keys := make([]any, len(n.Fields))
		for i := range n.Fields {
			keys[i] = n.Fields[i].Key
		}
		return s.Pick(keys...)
	case 2:
		return s.Omit()
	case 3:
		return s.Extend(z.Schema{})
	case 4:
		m := map[string]bool{}
		for i := range n.Fields {
			m[n.Fields[i].Key] = true
		}
		return s.Pick(m)
	}
	return s
}

// reusable builds the z.Test for a custom test added through schema.Test(...). With Patch the test is created bare and
// specialised afterwards through its exported fields, which the API documents as equivalent to passing the options.
func reusable(fn z.BoolTFunc, t *Test) z.Test {
	if !t.Patch {
		return z.TestFunc("", fn, optList(t.Opts)...)
	}
	zt := z.TestFunc("", fn)
	o := t.Opts
	if o.Message != nil {
		msg := *o.Message
		zt.IssueFmtFunc = func(e *z.ZogIssue, c z.Ctx) { e.SetMessage(msg) }
	}
	if o.MsgFunc != nil {
		zt.IssueFmtFunc = msgFuncOf(o)
	}
	if o.Code != nil {
		zt.IssueCode = *o.Code
	}
	if o.Path != nil {
		zt.IssuePath = *o.Path
	}
	if o.Params != nil {
		zt.Params = o.Params
	}
	return zt
}

func msgFuncOf(o TestOpts) z.IssueFmtFunc {
	txt := *o.MsgFunc
	reads, hasPath := o.MsgFuncReads, o.Path != nil
	return func(e *z.ZogIssue, c z.Ctx) {
		if !reads {
			e.SetMessage(txt)
			return
		}
		var p *string
		if !hasPath {
			p = &e.Path
		}
		e.SetMessage(ComposeMsg(txt, e.Code, e.Dtype, e.Params, p))
	}
}

// buildStructViaMerge assembles the struct schema from partial schemas: fields (in visit order), struct-level tests and
// post-transforms are cut at n.MergeCuts, then part1.Merge(part2, part3) (or part1.Merge(part2)). Afterwards part1 is merged once
// more with an inert schema and that result is dropped: a schema derived later from the same operand must not matter.
func (b *builder) buildStructViaMerge(n *Node, order []int, all z.Schema) z.ZogSchema {
	parts := [3]*z.StructSchema{}
	part := func(list, i int) int {
		c := n.MergeCuts[list]
		switch {
		case i < c[0]:
			return 0
		case i < c[1] || n.MergeTwo:
			return 1 // (monitors may have appended tests / transforms after the cuts were chosen)
		}
		return 2
	}
	scs := [3]z.Schema{{}, {}, {}}
	for pos, i := range order {
		f := &n.Fields[i]
		scs[part(0, pos)][f.Key] = all[f.Key]
	}
	for k := range parts {
		parts[k] = z.Struct(scs[k])
	}
	for i := range n.Tests {
		t := &n.Tests[i]
		k := part(1, i)
		o := optList(t.Opts)
		if t.ViaTest {
			parts[k] = parts[k].Test(reusable(b.customTestPtr(n, t), t))
		} else {
			parts[k] = parts[k].TestFunc(b.customTestPtr(n, t), o...)
		}
	}
	for i := range n.Posts {
		k := part(2, i)
		parts[k] = parts[k].PostTransform(b.post(n, &n.Posts[i]))
	}
	var merged *z.StructSchema
	if n.MergeTwo {
		merged = parts[0].Merge(parts[1])
	} else {
		merged = parts[0].Merge(parts[1], parts[2])
	}
	inert := z.Struct(z.Schema{}).TestFunc(func(any, z.Ctx) bool { return true }).PostTransform(func(any, z.Ctx) error { return nil })
	_ = parts[0].Merge(inert)
	return merged
}
