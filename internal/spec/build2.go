package spec

import (
	"fmt"
	"reflect"

	z "github.com/Oudwins/zog"
)

// CRec is the struct type used for Custom[CRec] nodes.
type CRec struct {
	A int
	B string
}

var CustomTypes = []CustomType{
	{Name: "int", Type: reflect.TypeOf(int(0))},
	{Name: "string", Type: reflect.TypeOf("")},
	{Name: "CRec", Type: reflect.TypeOf(CRec{})},
	{Name: "[]int", Type: reflect.TypeOf([]int(nil))},
}

// derefArg returns the pointee of a pointer argument handed to a struct/slice/custom callback.
// A nil or non-pointer argument is a violation of the callback contract: it panics with a clear message
// (every monitor reports a panic inside a case as a violation).
func derefArg(n *Node, what string, val any) any {
	rv := reflect.ValueOf(val)
	if !rv.IsValid() || rv.Kind() != reflect.Ptr || rv.IsNil() {
		panic(fmt.Sprintf("callback-contract: %s of node %d (%s) received %T(%v) instead of a non-nil pointer", what, n.ID, n.Kind, val, val))
	}
	return rv.Elem().Interface()
}

func (b *builder) buildCustom(n *Node) z.ZogSchema {
	switch n.CustomT.Name {
	case "int":
		return buildCustomT[int](b, n)
	case "string":
		return buildCustomT[string](b, n)
	case "CRec":
		return buildCustomT[CRec](b, n)
	case "[]int":
		return buildCustomT[[]int](b, n)
	}
	panic("spec: unknown custom type " + n.CustomT.Name)
}

func buildCustomT[T any](b *builder, n *Node) z.ZogSchema {
	t := &n.Tests[0]
	return z.CustomFunc[T](func(ptr *T, ctx z.Ctx) bool {
		if b.h.OnTest != nil {
			b.h.OnTest(n, t, ptr, ctx)
		}
		if ptr == nil {
			panic(fmt.Sprintf("callback-contract: custom function of node %d received a nil pointer", n.ID))
		}
		return t.Pred(*ptr)
	}, optList(t.Opts)...)
}

func (b *builder) buildPre(n *Node) z.ZogSchema {
	inner := b.build(n.Elem)
	switch n.Elem.GoType() {
	case tString:
		return buildPreT[string](b, n, inner)
	case tInt:
		return buildPreT[int](b, n, inner)
	case tFloat64:
		return buildPreT[float64](b, n, inner)
	case tBool:
		return buildPreT[bool](b, n, inner)
	case reflect.TypeOf([]string(nil)):
		return buildPreT[[]string](b, n, inner)
	case reflect.TypeOf([]int(nil)):
		return buildPreT[[]int](b, n, inner)
	}
	panic("spec: preprocess not supported over " + n.Elem.GoType().String())
}

func buildPreT[T any](b *builder, n *Node, inner z.ZogSchema) z.ZogSchema {
	return z.Preprocess[any, T](func(data any, ctx z.Ctx) (T, error) {
		if b.h.OnPre != nil {
			b.h.OnPre(n, data, ctx)
		}
		var zero T
		out, err := n.PreFn(data)
		if err != nil {
			return zero, err
		}
		return out.(T), nil
	}, inner)
}

func init() {
	// keep the pointer-receiving custom tests honest: see customTestPtr
	_ = derefArg
}
