package spec

import (
	"fmt"
	"sort"
	"strings"
	"time"
)

// Source renders the schema as Go source text (for samples and replay files).
func (n *Node) Source() string {
	var sb strings.Builder
	n.src(&sb)
	return sb.String()
}

func lit(v any) string {
	switch x := v.(type) {
	case string:
		return fmt.Sprintf("%q", x)
	case time.Time:
		return fmt.Sprintf("time(%s)", x.Format(time.RFC3339Nano))
	case nil:
		return "nil"
	}
	return fmt.Sprintf("%T(%v)", v, v)
}

func optsSrc(o TestOpts) string {
	var parts []string
	if o.Message != nil {
		parts = append(parts, fmt.Sprintf("z.Message(%q)", *o.Message))
	}
	if o.MsgFunc != nil {
		parts = append(parts, fmt.Sprintf("z.MessageFunc(set %q)", *o.MsgFunc))
	}
	if o.Code != nil {
		parts = append(parts, fmt.Sprintf("z.IssueCode(%q)", *o.Code))
	}
	if o.Path != nil {
		parts = append(parts, fmt.Sprintf("z.IssuePath(%q)", *o.Path))
	}
	if o.Params != nil {
		keys := make([]string, 0, len(o.Params))
		for k := range o.Params {
			keys = append(keys, k)
		}
		sort.Strings(keys)
		var kv []string
		for _, k := range keys {
			kv = append(kv, fmt.Sprintf("%q: %v", k, o.Params[k]))
		}
		parts = append(parts, "z.Params{"+strings.Join(kv, ", ")+"}")
	}
	return strings.Join(parts, ", ")
}

func withOpts(args string, o TestOpts) string {
	os := optsSrc(o)
	if args == "" {
		return os
	}
	if os == "" {
		return args
	}
	return args + ", " + os
}

func (n *Node) src(sb *strings.Builder) {
	var so []string
	if n.Layout != "" {
		so = append(so, fmt.Sprintf("z.Time.Format(%q)", n.Layout))
	}
	if n.Coercer != nil {
		if n.Coercer.Fail {
			so = append(so, "z.WithCoercer(fail)")
		} else {
			so = append(so, fmt.Sprintf("z.WithCoercer(const %s)", lit(n.Coercer.Mark)))
		}
	}
	switch n.Kind {
	case Struct:
		sb.WriteString("z.Struct(z.Schema{")
		for i, f := range n.Fields {
			if i > 0 {
				sb.WriteString(", ")
			}
			fmt.Fprintf(sb, "%q", f.Key)
			if len(f.Tags) > 0 {
				fmt.Fprintf(sb, "/*`%s`*/", TagString(f.Tags))
			}
			sb.WriteString(": ")
			f.Node.src(sb)
		}
		sb.WriteString("})")
		if n.Embed != 0 && len(n.Fields) >= 2 {
			fmt.Fprintf(sb, "/*destination type: every second field is promoted from an embedded struct (%s)*/", []string{"", "*EmbA", "EmbA", "*EmbA, *EmbA.*EmbB"}[n.Embed])
		}
		if n.Derive != 0 {
			fmt.Fprintf(sb, "/*then replaced by %s*/", []string{"", "s.Pick(all keys...)", "s.Omit()", "s.Extend(z.Schema{})", "s.Pick(map of all keys)", "base.Extend({first primitive field: the real field}) where base held a stand-in there and was used once"}[n.Derive])
		}
		if n.ViaMerge {
			fmt.Fprintf(sb, "/*assembled as part1.Merge(part2, part3) two=%v, cuts(fields,tests,posts)=%v; afterwards part1.Merge(inert) is built and dropped*/", n.MergeTwo, n.MergeCuts)
		}
	case Slice:
		sb.WriteString("z.Slice(")
		n.Elem.src(sb)
		if len(so) > 0 {
			sb.WriteString(", " + strings.Join(so, ", "))
		}
		sb.WriteString(")")
	case Ptr:
		sb.WriteString("z.Ptr(")
		n.Elem.src(sb)
		sb.WriteString(")")
	case Custom:
		fmt.Fprintf(sb, "z.CustomFunc[%s](%s%s)", n.CustomT.Name, n.Tests[0].PredName, prefixComma(optsSrc(n.Tests[0].Opts)))
		return
	case Pre:
		fmt.Fprintf(sb, "z.Preprocess(%s, ", n.PreName)
		n.Elem.src(sb)
		sb.WriteString(")")
		return
	default:
		fmt.Fprintf(sb, "z.%s(%s)", n.Kind, strings.Join(so, ", "))
	}
	for _, m := range n.Mods {
		switch m.Op {
		case MRequired:
			fmt.Fprintf(sb, ".Required(%s)", optsSrc(m.Opts))
		case MOptional:
			sb.WriteString(".Optional()")
		case MDefault:
			fmt.Fprintf(sb, ".Default(%s)", lit(m.Val))
		case MCatch:
			fmt.Fprintf(sb, ".Catch(%s)", lit(m.Val))
		case MNotNil:
			fmt.Fprintf(sb, ".NotNil(%s)", optsSrc(m.Opts))
		}
	}
	for i := range n.Tests {
		t := &n.Tests[i]
		if t.Not {
			sb.WriteString(".Not()")
		}
		switch t.Op {
		case TCustom:
			if t.ViaTest {
				fmt.Fprintf(sb, ".Test(z.TestFunc(\"\", %s))", withOpts(t.PredName, t.Opts))
			} else {
				fmt.Fprintf(sb, ".TestFunc(%s)", withOpts(t.PredName, t.Opts))
			}
		case TMin, TMax, TLen:
			fmt.Fprintf(sb, ".%s(%s)", t.Op, withOpts(fmt.Sprint(t.N), t.Opts))
		case TMatch:
			fmt.Fprintf(sb, ".Match(%s)", withOpts(fmt.Sprintf("/%s/", t.Re.String()), t.Opts))
		case TEmail, TURL, TUUID, TContainsUpper, TContainsDigit, TContainsSpecial, TTrue, TFalse:
			fmt.Fprintf(sb, ".%s(%s)", t.Op, optsSrc(t.Opts))
		default:
			fmt.Fprintf(sb, ".%s(%s)", t.Op, withOpts(lit(t.Arg), t.Opts))
		}
	}
	for _, p := range n.Posts {
		fmt.Fprintf(sb, ".PostTransform(%s)", p.Name)
	}
}

func prefixComma(s string) string {
	if s == "" {
		return ""
	}
	return ", " + s
}
