// Package core is the driver/worker framework shared by all property monitors.
//
// A property monitor implements Prop: a fixed list of cases per tier, each regenerated from
// (VERIF_SEED, property id, case index). The driver spreads the cases over worker processes of the
// same binary, merges what they observed, matches violations against known_findings.json, writes
// the evidence file and prints the verdict (exit 0 held / 1 violated / 2 inconclusive).
package core

import (
	"encoding/json"
	"fmt"
	"os"
	"runtime/debug"
	"sort"
	"strings"

	"zogverif/internal/rng"
)

type Tier string

const (
	Quick    Tier = "quick"
	Thorough Tier = "thorough"
)

// Info is the static description of a monitor used for the evidence file.
type Info struct {
	Level             string   // evidence level: exploration | fault_enumeration | ...
	Rule              string   // how cases are generated and what makes one non-trivial / distinct
	Assumptions       []string // trusted base
	MinDistinct       int      // a run that saw fewer distinct non-trivial cases is inconclusive (>= 2)
	Exhaustive        bool     // the case list enumerates a finite space completely (reported in coverage)
	Serial            bool     // all cases must run in ONE worker process (process-global state)
	Race              bool     // workers are the -race binary; race reports are violations
	MaxWorkers        int      // 0 = default
	MaxCasesPerWorker int      // 0 = default (25000): a worker process is replaced after this many cases
}

// Prop is a property monitor.
type Prop interface {
	ID() string
	Info(t Tier) Info
	NumCases(t Tier) int
	// RunCase executes case c.Case. It must be a pure function of (c.Seed, c.Case, c.Tier) and the code under test.
	RunCase(c *Ctx)
}

// WorkerInit is implemented by monitors that need process-level setup in a worker (GOMAXPROCS, GC).
type WorkerInit interface{ WorkerInit(t Tier) }

// WorkerFinish is implemented by monitors that report something at the end of a worker (e.g. end-of-run invariants).
type WorkerFinish interface{ WorkerFinish(c *Ctx) }

// Violation is one oracle firing.
type Violation struct {
	Property  string         `json:"property"`
	Signature string         `json:"signature"` // stable class of the failure, used for known-findings matching
	Case      int            `json:"case"`
	Seed      int64          `json:"seed"`
	Tier      Tier           `json:"tier"`
	Detail    map[string]any `json:"detail"`
}

// Ctx is handed to RunCase; it records what the oracle observed.
type Ctx struct {
	Tier Tier
	Seed int64
	Case int
	R    *rng.Rand
	w    *WorkerResult
	prop string
}

// WorkerResult is what a worker process reports back.
type WorkerResult struct {
	Cases       int                        `json:"cases"`
	Evaluations int64                      `json:"evaluations"`
	NonTrivial  []uint64                   `json:"nontrivial"` // distinct fingerprints
	Counters    map[string]int64           `json:"counters"`
	Sets        map[string]map[string]bool `json:"sets"`
	Samples     []any                      `json:"samples"`
	Violations  []Violation                `json:"violations"`
	nt          map[uint64]struct{}
}

func newWorkerResult() *WorkerResult {
	return &WorkerResult{Counters: map[string]int64{}, Sets: map[string]map[string]bool{}, nt: map[uint64]struct{}{}}
}

// Eval counts n executions of the code under test observed by the oracle.
func (c *Ctx) Eval(n int) { c.w.Evaluations += int64(n) }

// NonTrivial records that a case with this fingerprint exercised the property's antecedent.
func (c *Ctx) NonTrivial(fp string) {
	h := rng.Hash(fp)
	c.w.nt[h] = struct{}{}
}

// Count adds to a named counter reported in the evidence.
func (c *Ctx) Count(key string, n int) { c.w.Counters[key] += int64(n) }

// Distinct adds a value to a named set; its size is reported in the evidence (sets are capped).
func (c *Ctx) Distinct(key, val string) {
	s := c.w.Sets[key]
	if s == nil {
		s = map[string]bool{}
		c.w.Sets[key] = s
	}
	if len(s) < 5000 {
		s[val] = true
	}
}

// Sample offers a case for the evidence file's samples list (the first few per worker are kept).
func (c *Ctx) Sample(v any) {
	if len(c.w.Samples) < 3 {
		c.w.Samples = append(c.w.Samples, v)
	}
}

// WantSample tells whether another sample would be kept (so monitors can avoid rendering for nothing).
func (c *Ctx) WantSample() bool { return len(c.w.Samples) < 3 }

// Violation records an oracle firing. sig is the stable failure class; detail is what a reader needs to replay it.
func (c *Ctx) Violation(sig string, detail map[string]any) {
	if len(c.w.Violations) >= 50 {
		c.w.Counters["violations_dropped"]++
		return
	}
	c.w.Violations = append(c.w.Violations, Violation{Property: c.prop, Signature: sig, Case: c.Case, Seed: c.Seed, Tier: c.Tier, Detail: detail})
}

// Violations returns how many violations this worker has recorded so far.
func (c *Ctx) Violations() int { return len(c.w.Violations) }

var registry = map[string]Prop{}

func Register(p Prop) { registry[p.ID()] = p }

func Lookup(id string) Prop { return registry[id] }

func IDs() []string {
	var ids []string
	for k := range registry {
		ids = append(ids, k)
	}
	sort.Strings(ids)
	return ids
}

// runOne executes a single case, converting a panic of the harness or of the library into a violation.
func runOne(p Prop, c *Ctx) {
	defer func() {
		if r := recover(); r != nil {
			st := string(debug.Stack())
			c.Violation("panic-in-case|"+panicClass(r), map[string]any{"panic": fmt.Sprint(r), "stack": trimStack(st)})
		}
	}()
	p.RunCase(c)
}

func panicClass(r any) string {
	s := fmt.Sprint(r)
	if len(s) > 60 {
		s = s[:60]
	}
	return s
}

func trimStack(s string) string {
	lines := strings.Split(s, "\n")
	if len(lines) > 40 {
		lines = lines[:40]
	}
	return strings.Join(lines, "\n")
}

// RunWorker runs cases from..to (step) of property p and writes the result file.
func RunWorker(p Prop, tier Tier, seed int64, from, to, step int, outPath, logPath string) error {
	if wi, ok := p.(WorkerInit); ok {
		wi.WorkerInit(tier)
	}
	var logf *os.File
	if logPath != "" {
		f, err := os.Create(logPath)
		if err != nil {
			return err
		}
		logf = f
		defer f.Close()
	}
	res := newWorkerResult()
	for i := from; i < to; i += step {
		if logf != nil {
			fmt.Fprintf(logf, "BEGIN %d\n", i)
		}
		c := &Ctx{Tier: tier, Seed: seed, Case: i, R: rng.New(seed, p.ID(), i), w: res, prop: p.ID()}
		runOne(p, c)
		res.Cases++
	}
	if wf, ok := p.(WorkerFinish); ok {
		c := &Ctx{Tier: tier, Seed: seed, Case: -1, R: rng.New(seed, p.ID(), -1), w: res, prop: p.ID()}
		func() {
			defer func() {
				if r := recover(); r != nil {
					c.Violation("panic-in-finish|"+panicClass(r), map[string]any{"panic": fmt.Sprint(r)})
				}
			}()
			wf.WorkerFinish(c)
		}()
	}
	if logf != nil {
		fmt.Fprintf(logf, "DONE\n")
	}
	res.NonTrivial = make([]uint64, 0, len(res.nt))
	for h := range res.nt {
		res.NonTrivial = append(res.NonTrivial, h)
	}
	b, err := json.Marshal(res)
	if err != nil {
		return fmt.Errorf("marshal worker result: %w", err)
	}
	return os.WriteFile(outPath, b, 0o644)
}
