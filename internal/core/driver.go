package core

import (
	"bufio"
	"encoding/json"
	"fmt"
	"os"
	"os/exec"
	"path/filepath"
	"regexp"
	"sort"
	"strconv"
	"strings"
	"sync"
	"syscall"
	"time"
)

// Exit codes of a check.
const (
	ExitHeld         = 0
	ExitViolated     = 1
	ExitInconclusive = 2
)

type KnownFinding struct {
	Property  string `json:"property"`
	Signature string `json:"signature"` // exact signature of the violation this entry identifies
	What      string `json:"what"`
}

type FixedFinding struct {
	Property string `json:"property"`
	Commit   string `json:"commit"`
	What     string `json:"what"`
}

type KnownFindings struct {
	Known []KnownFinding `json:"known"`
	Fixed []FixedFinding `json:"fixed"`
}

func loadKnown(root string) KnownFindings {
	var k KnownFindings
	b, err := os.ReadFile(filepath.Join(root, "known_findings.json"))
	if err == nil {
		_ = json.Unmarshal(b, &k)
	}
	return k
}

type DriverOpts struct {
	Root     string // /verif
	Self     string // path of the worker binary (non-race)
	SelfRace string // path of the race-instrumented worker binary ("" if not built)
	AltBin   string // optional binary built with the second toolchain (same instrumentation as the one selected); odd workers use it
	Tier     Tier
	Seed     int64
	Workers  int
	Only     int // >=0: run only this case (replay)
}

type workerRun struct {
	k        int
	from, to int
	step     int
	out, log string
	raceLog  string
	err      error
	timedOut bool
	stderr   string
}

func jsonSafe(v any) any {
	if _, err := json.Marshal(v); err == nil {
		return v
	}
	return fmt.Sprintf("%#v", v)
}

// Drive runs property p and returns the process exit code.
func Drive(p Prop, o DriverOpts) int {
	start := time.Now()
	info := p.Info(o.Tier)
	id := p.ID()
	n := p.NumCases(o.Tier)
	workDir := filepath.Join(o.Root, "work", id)
	_ = os.RemoveAll(workDir)
	if err := os.MkdirAll(workDir, 0o755); err != nil {
		fmt.Printf("INCONCLUSIVE property=%s cannot create work dir: %v\n", id, err)
		return ExitInconclusive
	}
	bin := o.Self
	if info.Race {
		if o.SelfRace == "" {
			fmt.Printf("INCONCLUSIVE property=%s race binary not available\n", id)
			return ExitInconclusive
		}
		bin = o.SelfRace
	}
	W := o.Workers
	if info.MaxWorkers > 0 && W > info.MaxWorkers {
		W = info.MaxWorkers
	}
	if info.Serial {
		W = 1
	}
	if W > n {
		W = n
	}
	if W < 1 {
		W = 1
	}
	var runs []*workerRun
	if o.Only >= 0 {
		runs = []*workerRun{{k: 0, from: o.Only, to: o.Only + 1, step: 1}}
	} else {
		// worker generations: a worker process handles at most maxCases cases (reflect.StructOf types are never freed)
		maxCases := info.MaxCasesPerWorker
		if maxCases <= 0 {
			maxCases = 25000
		}
		R := W
		for R*maxCases < n {
			R += W
		}
		if info.Serial {
			R = 1
		}
		for k := 0; k < R; k++ {
			runs = append(runs, &workerRun{k: k, from: k, to: n, step: R})
		}
	}
	timeout := 20 * time.Minute
	if o.Tier == Thorough {
		timeout = 120 * time.Minute
	}
	var wg sync.WaitGroup
	altWorkers := 0
	sem := make(chan struct{}, W)
	for _, r := range runs {
		r.out = filepath.Join(workDir, fmt.Sprintf("w%d.json", r.k))
		r.log = filepath.Join(workDir, fmt.Sprintf("w%d.log", r.k))
		r.raceLog = filepath.Join(workDir, fmt.Sprintf("race%d", r.k))
		wg.Add(1)
		sem <- struct{}{}
		wbin := bin
		if o.AltBin != "" && r.k%2 == 1 {
			wbin = o.AltBin
			altWorkers++
		}
		go func(r *workerRun, wbin string) {
			defer wg.Done()
			defer func() { <-sem }()
			runWorkerProc(wbin, id, o, r, info.Race, timeout)
		}(r, wbin)
	}
	wg.Wait()

	merged := newWorkerResult()
	var viols []Violation
	inconclusive := []string{}
	for _, r := range runs {
		b, err := os.ReadFile(r.out)
		if err != nil || r.err != nil {
			// the worker died: attribute to the last case it began
			last := lastBegun(r.log)
			if last < 0 {
				inconclusive = append(inconclusive, fmt.Sprintf("worker %d died before any case (%v) %s", r.k, r.err, tail(r.stderr, 400)))
				continue
			}
			// re-run that case alone to confirm
			rr := &workerRun{k: 1000 + r.k, from: last, to: last + 1, step: 1}
			rr.out = filepath.Join(workDir, fmt.Sprintf("retry%d.json", r.k))
			rr.log = filepath.Join(workDir, fmt.Sprintf("retry%d.log", r.k))
			rr.raceLog = filepath.Join(workDir, fmt.Sprintf("raceretry%d", r.k))
			runWorkerProc(bin, id, o, rr, info.Race, 2*time.Minute)
			if _, err2 := os.ReadFile(rr.out); err2 != nil || rr.err != nil {
				class := "fatal"
				if rr.timedOut {
					class = "hang"
				}
				viols = append(viols, Violation{Property: id, Signature: "worker-" + class + "|" + fatalClass(rr.stderr), Case: last, Seed: o.Seed, Tier: o.Tier,
					Detail: map[string]any{"what": "worker process died (fatal error / runtime abort / hang) while executing this case, and again when the case was re-run alone", "stderr": tail(rr.stderr, 3000)}})
			} else {
				inconclusive = append(inconclusive, fmt.Sprintf("worker %d died at case %d (timedOut=%v) but the case passes alone: %s", r.k, last, r.timedOut, tail(r.stderr, 400)))
			}
			continue
		}
		var wr WorkerResult
		if err := json.Unmarshal(b, &wr); err != nil {
			inconclusive = append(inconclusive, fmt.Sprintf("worker %d result unreadable: %v", r.k, err))
			continue
		}
		merged.Cases += wr.Cases
		merged.Evaluations += wr.Evaluations
		for _, h := range wr.NonTrivial {
			merged.nt[h] = struct{}{}
		}
		for k, v := range wr.Counters {
			merged.Counters[k] += v
		}
		for k, s := range wr.Sets {
			if merged.Sets[k] == nil {
				merged.Sets[k] = map[string]bool{}
			}
			for v := range s {
				merged.Sets[k][v] = true
			}
		}
		if len(merged.Samples) < 6 {
			merged.Samples = append(merged.Samples, wr.Samples...)
		}
		viols = append(viols, wr.Violations...)
	}
	if altWorkers > 0 {
		merged.Counters["workers_built_with_second_toolchain_go1.26.8"] = int64(altWorkers)
	}
	// race reports
	raceReports := 0
	if info.Race {
		reps := collectRaceReports(workDir)
		raceReports = len(reps)
		seen := map[string]bool{}
		for _, rep := range reps {
			if raceClass(rep) == "no-zog-frame" {
				merged.Counters["race_reports_without_zog_frames(harness)"]++
				inconclusive = append(inconclusive, "race report without any zog frame (a race inside the harness): "+tail(rep, 600))
				continue
			}
			sig := "data-race|" + raceClass(rep)
			if seen[sig] {
				continue
			}
			seen[sig] = true
			viols = append(viols, Violation{Property: id, Signature: sig, Case: -1, Seed: o.Seed, Tier: o.Tier, Detail: map[string]any{"race_report": tail(rep, 6000)}})
		}
		merged.Counters["race_reports"] = int64(raceReports)
	}

	known := loadKnown(o.Root)
	var unknown []Violation
	knownHit := map[string]int{}
	for _, v := range viols {
		matched := false
		for _, k := range known.Known {
			if k.Property == id && k.Signature == v.Signature {
				matched = true
				knownHit[k.Signature+"\x00"+k.What]++
				break
			}
		}
		if !matched {
			unknown = append(unknown, v)
		}
	}
	var khKeys []string
	for k := range knownHit {
		khKeys = append(khKeys, k)
	}
	sort.Strings(khKeys)
	for _, k := range khKeys {
		parts := strings.SplitN(k, "\x00", 2)
		fmt.Printf("KNOWN-FINDING: property=%s %s [signature %s, seen %d times]\n", id, parts[1], parts[0], knownHit[k])
	}

	distinct := len(merged.nt)
	wall := time.Since(start).Seconds()

	// write replay files
	replayDir := filepath.Join(o.Root, "replays", id)
	if o.Only < 0 {
		_ = os.RemoveAll(replayDir) // witnesses of earlier runs are stale
	}
	var replayPaths []string
	if len(unknown) > 0 {
		_ = os.MkdirAll(replayDir, 0o755)
		sort.SliceStable(unknown, func(i, j int) bool { return unknown[i].Case < unknown[j].Case })
		seenSig := map[string]int{}
		for _, v := range unknown {
			seenSig[v.Signature]++
			if seenSig[v.Signature] > 3 || len(replayPaths) >= 20 {
				continue
			}
			path := filepath.Join(replayDir, fmt.Sprintf("%s-seed%d-case%d-%d.json", o.Tier, v.Seed, v.Case, len(replayPaths)))
			v.Detail = jsonSafe(v.Detail).(map[string]any)
			b, _ := json.MarshalIndent(v, "", " ")
			_ = os.WriteFile(path, b, 0o644)
			replayPaths = append(replayPaths, path)
		}
	}

	// evidence
	if o.Only < 0 {
		cov := map[string]any{
			"evaluations":         merged.Evaluations,
			"distinct_nontrivial": distinct,
			"rule":                info.Rule,
			"samples":             merged.Samples,
			"cases":               merged.Cases,
			"workers":             len(runs),
		}
		if info.Exhaustive {
			cov["exhaustive"] = true
		}
		ckeys := make([]string, 0, len(merged.Counters))
		for k := range merged.Counters {
			ckeys = append(ckeys, k)
		}
		sort.Strings(ckeys)
		counters := map[string]int64{}
		for _, k := range ckeys {
			counters[k] = merged.Counters[k]
		}
		cov["counters"] = counters
		sets := map[string]any{}
		for k, s := range merged.Sets {
			vals := make([]string, 0, len(s))
			for v := range s {
				vals = append(vals, v)
			}
			sort.Strings(vals)
			ent := map[string]any{"distinct": len(vals)}
			if len(vals) <= 40 {
				ent["values"] = vals
			} else {
				ent["first_values"] = vals[:40]
			}
			sets[k] = ent
		}
		cov["observed_sets"] = sets
		if len(merged.Samples) == 0 {
			cov["samples"] = []any{"(no sample recorded)"}
		}
		ev := map[string]any{
			"property_id": id,
			"tier":        string(o.Tier),
			"seed":        o.Seed,
			"level":       info.Level,
			"coverage":    cov,
			"assumptions": info.Assumptions,
			"wall_s":      wall,
			"violations":  len(unknown),
		}
		if len(inconclusive) > 0 {
			ev["inconclusive"] = inconclusive
		}
		if len(knownHit) > 0 {
			ev["known_findings_seen"] = len(knownHit)
		}
		_ = os.MkdirAll(filepath.Join(o.Root, "evidence"), 0o755)
		b, _ := json.MarshalIndent(ev, "", " ")
		_ = os.WriteFile(filepath.Join(o.Root, "evidence", id+".json"), b, 0o644)
	}

	if len(unknown) > 0 {
		sigs := map[string]int{}
		for _, v := range unknown {
			sigs[v.Signature]++
		}
		var ks []string
		for k := range sigs {
			ks = append(ks, k)
		}
		sort.Strings(ks)
		for _, k := range ks {
			fmt.Printf("violation class %q x%d\n", k, sigs[k])
		}
		for _, pth := range replayPaths {
			fmt.Printf("VIOLATION property=%s replay=%s\n", id, pth)
		}
		return ExitViolated
	}
	if len(inconclusive) > 0 {
		for _, s := range inconclusive {
			fmt.Printf("INCONCLUSIVE property=%s %s\n", id, s)
		}
		return ExitInconclusive
	}
	if o.Only < 0 {
		min := info.MinDistinct
		if min < 2 {
			min = 2
		}
		if distinct < min || merged.Evaluations == 0 {
			fmt.Printf("INCONCLUSIVE property=%s observed too little: evaluations=%d distinct_nontrivial=%d (minimum %d)\n", id, merged.Evaluations, distinct, min)
			return ExitInconclusive
		}
	}
	fmt.Printf("HELD property=%s tier=%s seed=%d cases=%d evaluations=%d distinct_nontrivial=%d wall=%.1fs\n", id, o.Tier, o.Seed, merged.Cases, merged.Evaluations, distinct, wall)
	return ExitHeld
}

func runWorkerProc(bin, id string, o DriverOpts, r *workerRun, race bool, timeout time.Duration) {
	args := []string{"-worker", "-prop", id, "-tier", string(o.Tier), "-seed", strconv.FormatInt(o.Seed, 10),
		"-from", strconv.Itoa(r.from), "-to", strconv.Itoa(r.to), "-step", strconv.Itoa(r.step), "-out", r.out, "-log", r.log}
	cmd := exec.Command(bin, args...)
	cmd.Env = os.Environ()
	if race {
		cmd.Env = append(cmd.Env, "GORACE=halt_on_error=0 log_path="+r.raceLog)
	}
	errFile, _ := os.Create(r.out + ".stderr")
	cmd.Stderr = errFile
	cmd.Stdout = errFile
	cmd.SysProcAttr = &syscall.SysProcAttr{Setpgid: true}
	if err := cmd.Start(); err != nil {
		r.err = err
		return
	}
	done := make(chan error, 1)
	go func() { done <- cmd.Wait() }()
	select {
	case err := <-done:
		r.err = err
	case <-time.After(timeout):
		r.timedOut = true
		_ = cmd.Process.Signal(syscall.SIGQUIT)
		select {
		case <-done:
		case <-time.After(5 * time.Second):
			_ = cmd.Process.Kill()
			<-done
		}
		r.err = fmt.Errorf("watchdog: worker exceeded %v", timeout)
	}
	errFile.Close()
	b, _ := os.ReadFile(r.out + ".stderr")
	r.stderr = string(b)
}

func lastBegun(logPath string) int {
	f, err := os.Open(logPath)
	if err != nil {
		return -1
	}
	defer f.Close()
	last := -1
	sc := bufio.NewScanner(f)
	for sc.Scan() {
		t := sc.Text()
		if strings.HasPrefix(t, "BEGIN ") {
			if v, err := strconv.Atoi(strings.TrimPrefix(t, "BEGIN ")); err == nil {
				last = v
			}
		}
	}
	return last
}

func tail(s string, n int) string {
	if len(s) <= n {
		return s
	}
	return "..." + s[len(s)-n:]
}

var fatalRe = regexp.MustCompile(`(?m)^(fatal error: .*|panic: .*|runtime: .*)$`)

func fatalClass(stderr string) string {
	m := fatalRe.FindString(stderr)
	if m == "" {
		return "unknown"
	}
	if len(m) > 80 {
		m = m[:80]
	}
	return m
}

func collectRaceReports(dir string) []string {
	var out []string
	matches, _ := filepath.Glob(filepath.Join(dir, "race*"))
	for _, m := range matches {
		b, err := os.ReadFile(m)
		if err != nil {
			continue
		}
		parts := strings.Split(string(b), "==================")
		for _, p := range parts {
			if strings.Contains(p, "WARNING: DATA RACE") {
				out = append(out, strings.TrimSpace(p))
			}
		}
	}
	return out
}

var frameRe = regexp.MustCompile(`(?m)^  (\S+)\(\)\s*$`)

// raceClass de-duplicates a report by the first zog frames of both accesses (line numbers stripped).
func raceClass(rep string) string {
	fr := frameRe.FindAllStringSubmatch(rep, -1)
	var zogFrames []string
	for _, f := range fr {
		if strings.Contains(f[1], "Oudwins/zog") {
			name := f[1]
			if i := strings.LastIndex(name, "/"); i >= 0 {
				name = name[i+1:]
			}
			zogFrames = append(zogFrames, name)
		}
	}
	if len(zogFrames) == 0 {
		return "no-zog-frame"
	}
	if len(zogFrames) > 2 {
		// first frame of each access stack is most specific; keep first and the first differing one
		a := zogFrames[0]
		b := a
		for _, f := range zogFrames[1:] {
			if f != a {
				b = f
				break
			}
		}
		return a + "~" + b
	}
	return strings.Join(zogFrames, "~")
}
