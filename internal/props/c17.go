package props

import (
	"errors"
	"fmt"
	"reflect"
	"sort"
	"strings"
	"time"

	z "github.com/Oudwins/zog"

	"zogverif/internal/core"
	"zogverif/internal/gen"
	"zogverif/internal/obs"
	"zogverif/internal/ref"
	"zogverif/internal/rng"
	"zogverif/internal/run"
	"zogverif/internal/spec"
)

// C17: builder methods act locally and mean what they say.
type c17 struct{}

func init() { core.Register(c17{}) }

func (c17) ID() string { return "C17" }

func (c17) Info(t core.Tier) core.Info {
	return core.Info{
		Level: "exploration",
		Rule: "three monitors, case index mod 3. (1) chain fold: a random chain of builder calls on every schema type (any order and repetition of Required/Optional/Default/Catch, 1-6 tests each with a random subset of the five options in random order, Not() immediately followed by one of its methods) is applied to a real schema and folded in the model; " +
			"the folded model is judged on inputs chosen so that EVERY test of the chain individually passes in one input and fails in another: per issue path, code (incl. the not_ flip), type, message (test-level text or default) and params (Params option or the test's own) are compared. " +
			"(2) coercer locality: marker coercers installed with WithCoercer on one node of a nested schema (slice, its element, struct field, through Ptr, inside Preprocess): every leaf shows its own marker or the default coercion, never a neighbour's. " +
			"(3) sharing differential: one schema object placed at 2-4 positions of a larger schema (two fields, field + slice element, nested twice; also the same struct schema parsed into destination types with different field orders) compared, input by input and visit order by visit order, with the same larger schema built from independent replays of the chain. " +
			"non-trivial: chain with Not, a repeated modifier, a test option, or a shared object; distinct by (chain, input).",
		Assumptions: commonAssumptions,
		MinDistinct: 50,
	}
}

func (c17) NumCases(t core.Tier) int { return tierN(t, 30000, 800000) }

func (c17) RunCase(c *core.Ctx) {
	if c.Case%97 == 23 && !w10(c, "C17") {
		return
	}
	switch c.Case % 3 {
	case 0:
		c17Chain(c)
	case 1:
		c17Coercer(c)
	default:
		c17Sharing(c)
	}
}

// ---------- (1) chain fold ----------

// funcWins: both Message and MessageFunc were passed to the same call - the one passed last decides (options are applied in order)
func funcWins(o spec.TestOpts) bool {
	if o.MsgFunc == nil {
		return false
	}
	if o.Message == nil {
		return true
	}
	order := o.Order
	if order == nil {
		order = []int{0, 1, 2, 3, 4}
	}
	pm, pf := -1, -1
	for i, x := range order {
		if x == 0 {
			pm = i
		}
		if x == 1 {
			pf = i
		}
	}
	return pf > pm
}

func describeIssue(x ref.XIssue) string {
	msg := "<default>"
	if funcWins(x.Opts) {
		msg = *x.Opts.MsgFunc
	} else if x.Opts.Message != nil {
		msg = *x.Opts.Message
	}
	var params map[string]any
	defer func() {}()
	if x.Opts.Params != nil {
		params = x.Opts.Params
	} else if x.Test != nil {
		params = x.Test.BuiltinParams()
	}
	if x.Opts.MsgFuncReads && funcWins(x.Opts) {
		var pp *string
		if x.Opts.Path == nil {
			np := x.Path
			pp = &np
		}
		msg = spec.ComposeMsg(*x.Opts.MsgFunc, x.Code, x.Dtype, params, pp)
	}
	ps := "nil"
	if len(params) > 0 {
		ps = obs.Render(obs.Norm(params))
	}
	return fmt.Sprintf("%s|%s|%s|%s|%s", x.Path, x.Code, x.Dtype, msg, ps)
}

func describeActual(ci obs.CI) string {
	msg := ci.Message
	if !strings.HasPrefix(msg, "msg-") && !strings.HasPrefix(msg, "fmsg-") {
		msg = "<default>"
	}
	p := "nil"
	if ci.ParamsV != nil {
		p = obs.Render(obs.Norm(ci.ParamsV))
	}
	if len(ci.ParamsV) == 0 {
		p = "nil"
	}
	return fmt.Sprintf("%s|%s|%s|%s|%s", ci.Path, ci.Code, ci.Dtype, msg, p)
}

func valuePool(r *rng.Rand, n *spec.Node) []any {
	var out []any
	switch n.Kind {
	case spec.String:
		for i := 0; i < 12; i++ {
			out = append(out, gen.Word(r))
		}
		out = append(out, "a@b.co", "123e4567-e89b-12d3-a456-426614174000", "A1!", "zzzzzzzzzzzzzzzzzzzzzzzzzz", "q", "~n", "abc", "foo", "123")
		for _, k := range ref.URLPoolKeys() {
			out = append(out, k)
		}
	case spec.Bool:
		out = append(out, true, false)
	case spec.Time:
		for _, d := range []int{-5000, -600, -100, -1, 0, 1, 100, 600, 5000} {
			out = append(out, gen.BaseTime.Add(time.Duration(d)*time.Hour))
		}
	default:
		for _, v := range []int64{-500, -60, -1, 0, 1, 7, 50, 130, 199, 260, 900} {
			out = append(out, reflect.ValueOf(v).Convert(n.GoType()).Interface())
		}
	}
	return out
}

// c17WholeAbsent: input class "the slice itself is absent"
type c17WholeAbsent struct{}

func c17Chain(c *core.Ctx) {
	o := gen.DefaultOpts()
	o.ModChains = true
	o.TestOptsPct = 55
	o.CatchPct = 12
	o.DefaultPct = 25
	o.Posts = false
	o.TopKinds = []spec.Kind{spec.String, spec.String, spec.Int, spec.Int32, spec.Int64, spec.Float32, spec.Float64, spec.Bool, spec.Time, spec.Slice, spec.Ptr}
	o.MaxDepth = 1
	o.Customs = false
	n := gen.Schema(c.R, o)
	leaf := n
	for leaf.Kind == spec.Ptr || leaf.Kind == spec.Slice {
		leaf = leaf.Elem
	}
	if !leaf.Kind.IsPrimitive() {
		return
	}
	// message functions that read the issue they are given
	for i := range leaf.Tests {
		if leaf.Tests[i].PredName != "probe" && (leaf.Kind != spec.Bool || leaf.Tests[i].Op == spec.TCustom) && c.R.Intn(6) == 0 {
			// both message options on one test, in either order: the one passed last is the test's message
			m, f := "msg-both", "fmsg-both"
			leaf.Tests[i].Opts.Message, leaf.Tests[i].Opts.MsgFunc = &m, &f
			leaf.Tests[i].Opts.Order = c.R.Perm(5)
			leaf.Tests[i].Patch = false
		}
		if leaf.Tests[i].Opts.MsgFunc != nil && funcWins(leaf.Tests[i].Opts) {
			leaf.Tests[i].Opts.MsgFuncReads = true
		}
	}
	for i := range leaf.Mods {
		if leaf.Mods[i].Opts.MsgFunc != nil && leaf.Mods[i].Opts.Message == nil {
			leaf.Mods[i].Opts.MsgFuncReads = true
		}
	}
	// last-call-wins with and without options: Required(opts) ... Required() and the reverse, Optional() in between
	if c.R.Intn(3) == 0 {
		msg, code := "msg-first-required", "code_first"
		withOpts := spec.Mod{Op: spec.MRequired, Opts: spec.TestOpts{Message: &msg, Code: &code}}
		bare := spec.Mod{Op: spec.MRequired}
		seqs := [][]spec.Mod{{withOpts, bare}, {bare, withOpts}, {withOpts, {Op: spec.MOptional}, bare}, {withOpts, {Op: spec.MOptional}}, {bare, withOpts, bare}}
		leaf.Mods = append(leaf.Mods, seqs[c.R.Intn(len(seqs))]...)
		if n.Kind == spec.Slice && c.R.Bool() {
			// the same on the slice node itself (its Required is a builder call like any other)
			n.Mods = append(n.Mods, seqs[c.R.Intn(len(seqs))]...)
		}
	}
	// every 4th chain ends in a PostTransform that returns a plain error: that issue belongs to the node, whatever options
	// (IssuePath, IssueCode, Params, Message) the tests before it carry
	failingPost := c.R.Intn(4) == 0 && !leaf.Eff().HasCatch
	if failingPost {
		leaf.Posts = append(leaf.Posts, spec.Post{Name: "returns-error", Fn: func(any) error { return errors.New("post-transform sentinel") }})
	}
	postPath := ""
	for x := n; x.Kind == spec.Slice || x.Kind == spec.Ptr; x = x.Elem {
		if x.Kind == spec.Slice {
			postPath += "[0]"
		}
	}
	src := n.Source()
	interesting := len(leaf.Mods) > 1
	for _, t := range leaf.Tests {
		if t.Not || !t.Opts.Empty() {
			interesting = true
		}
	}
	wrapIn := func(v any) any {
		switch n.Kind {
		case spec.Slice:
			return []any{v, n.Elem.Witness}
		}
		return v
	}
	inputs := []any{leaf.Witness, nil, "", "  "}
	inputs = append(inputs, valuePool(c.R, leaf)...)
	if n.Kind == spec.Slice {
		inputs = append(inputs, c17WholeAbsent{}) // the slice itself is absent (nil in Parse, empty in Validate)
	}
	passSeen, failSeen := map[int]bool{}, map[int]bool{}
	for _, in := range inputs {
		for _, mode := range []ref.Mode{ref.Parse, ref.Validate} {
			var data, val any
			if _, whole := in.(c17WholeAbsent); whole {
				if mode == ref.Validate {
					val = []any{}
				}
			} else if mode == ref.Parse {
				data = wrapIn(in)
			} else {
				// build a value of the schema's type around the leaf value
				lv := in
				if lv == nil || reflect.TypeOf(lv) != leaf.GoType() {
					lv = obs.NormValue(reflect.Zero(leaf.GoType()))
				}
				switch n.Kind {
				case spec.Slice:
					val = []any{lv, n.Elem.Witness}
					if n.Elem.Kind == spec.Ptr {
						val = []any{obs.PtrV{V: lv}, obs.PtrV{V: leaf.Witness}}
					}
				case spec.Ptr:
					val = obs.PtrV{V: lv}
					if n.Elem.Kind == spec.Slice {
						val = obs.PtrV{V: []any{lv}}
					} else if n.Elem.Kind == spec.Ptr {
						val = obs.PtrV{V: obs.PtrV{V: lv}}
					}
				default:
					val = lv
				}
				if n.Kind == spec.Slice && n.Elem.Kind == spec.Slice {
					val = []any{[]any{lv}}
				}
			}
			var exp *ref.Result
			var out *run.Outcome
			b := spec.Build(n, nil)
			var input any
			func() {
				defer func() {
					if r := recover(); r != nil {
						exp = &ref.Result{Unknown: fmt.Sprint("harness could not shape the value: ", r)}
					}
				}()
				if mode == ref.Parse {
					exp = ref.Eval(n, &ref.Env{Mode: mode}, data, nil)
					out = run.Parse(b, data, nil)
					input = data
				} else {
					exp = ref.Eval(n, &ref.Env{Mode: mode}, nil, val)
					out = run.Validate(b, val)
					input = val
				}
			}()
			if exp.Unknown != "" || out == nil {
				c.Count("skipped_open_corner", 1)
				continue
			}
			c.Eval(1)
			if out.Panicked {
				c.Violation("panic|"+panicKind(out.Panic), describeCase(n, mode, input, map[string]any{"panic": trunc(fmt.Sprint(out.Panic), 300), "stack": trunc(out.Stack, 1500)}))
				return
			}
			if failingPost && len(exp.Issues) == 0 {
				// nothing else failed: if the transform ran, its error is the only issue, at the node's own path, described as what it is
				if len(out.Issues) > 0 {
					ci := out.Issues[0]
					if len(out.Issues) != 1 || ci.Path != postPath || (ci.Code != "" && ci.Code != "custom") || (ci.Params != "nil" && ci.Params != "{}") {
						c.Violation("builder-chain|post-transform-error-carries-test-options|"+mode.String(), describeCase(n, mode, input, map[string]any{"want": fmt.Sprintf("one issue: path %q, no test code, no params", postPath), "issues": issuesText(out)}))
						return
					}
					c.Count("post_transform_error_issues_checked", 1)
				}
				continue
			}
			var want, got []string
			failedUIDs := map[int]bool{}
			for _, x := range exp.Issues {
				want = append(want, describeIssue(x))
				if x.Test != nil {
					failedUIDs[x.Test.UID] = true
				}
			}
			for _, ci := range out.Issues {
				if failingPost && ci.Err == "post-transform sentinel" && strings.HasPrefix(ci.Path, postPath[:min(len(postPath), len(ci.Path))]) && ci.Code == "" {
					continue // the transform of an instance visited before anything failed (which one depends on the visit order): judged above when nothing else fails
				}
				got = append(got, describeActual(ci))
			}
			sort.Strings(want)
			sort.Strings(got)
			if a, bb := obs.MultisetDiff(want, got); len(a) > 0 || len(bb) > 0 {
				cls := "issue-description"
				if len(a) != len(bb) {
					cls = "issue-set"
				}
				c.Violation("builder-chain|"+cls+"|"+mode.String(), describeCase(n, mode, input, map[string]any{"expected(path|code|type|message|params)": want, "observed": got, "issues": issuesText(out)}))
				return
			}
			if len(exp.CatchFired) == 0 && exp.NodesPresent > 0 {
				for i := range leaf.Tests {
					if failedUIDs[leaf.Tests[i].UID] {
						failSeen[leaf.Tests[i].UID] = true
					} else if len(exp.Issues) == 0 || exp.Issues[0].Kind == "test" {
						passSeen[leaf.Tests[i].UID] = true
					}
				}
			}
			if interesting {
				c.NonTrivial(fpf("%s|%s|%s", src, mode, obs.Render(obs.Norm(input))))
			}
		}
	}
	both := 0
	for uid := range passSeen {
		if failSeen[uid] {
			both++
		}
	}
	c.Count("tests_in_chains", len(leaf.Tests))
	c.Count("tests_observed_both_passing_and_failing", both)
	if c.WantSample() && interesting {
		c.Sample(map[string]any{"chain": src, "inputs": len(inputs), "tests": len(leaf.Tests), "tests_seen_passing_and_failing": both})
	}
}

// ---------- (2) coercer locality ----------

func mark(k spec.Kind, i int) any {
	switch k {
	case spec.String:
		return fmt.Sprintf("MARK%d", i)
	case spec.Int:
		return 1000 + i
	case spec.Float64:
		return 1000.5 + float64(i)
	case spec.Bool:
		return i%2 == 0
	}
	return gen.BaseTime.Add(time.Duration(1000+i) * time.Hour)
}

func c17Coercer(c *core.Ctx) {
	r := c.R
	kinds := []spec.Kind{spec.String, spec.Int, spec.Float64, spec.Bool, spec.Time}
	leafN := 0
	leaf := func() *spec.Node {
		k := kinds[r.Intn(len(kinds))]
		n := &spec.Node{Kind: k}
		leafN++
		if r.Intn(3) == 0 {
			n.Coercer = &spec.CoercerSpec{Mark: mark(k, leafN)}
			if k == spec.Time && r.Bool() {
				n.Layout = "2006-01-02" // Time.Format and WithCoercer on one schema: the coercer passed last replaces coercion altogether
			}
		}
		return n
	}
	// structure: struct{ a: leaf, l: slice(leaf) [slice coercer?], p: ptr(leaf), s: struct{ b: leaf, m: slice(slice(leaf)) }, q: preprocess(leaf) }
	l := &spec.Node{Kind: spec.Slice, Elem: leaf()}
	if r.Intn(2) == 0 {
		l.Coercer = &spec.CoercerSpec{Mark: []any{"s1", 2, true}}
	}
	inner := structOf("b", leaf(), "m", sliceOf(sliceOf(leaf())))
	pr := &spec.Node{Kind: spec.Pre, Elem: &spec.Node{Kind: spec.String}, PreName: "sprint", PreFn: func(d any) (any, error) { return fmt.Sprint(d), nil }}
	if r.Intn(2) == 0 {
		pr.Elem.Coercer = &spec.CoercerSpec{Mark: "PREMARK"}
	}
	root := structOf("a", leaf(), "l", l, "p", ptrOf(leaf()), "s", inner, "q", pr, "z", leaf())
	root.Number()
	data := map[string]any{"a": "1", "l": []any{"1", "0"}, "p": "1", "s": map[string]any{"b": "1", "m": []any{[]any{"1"}, []any{"0", "1"}}}, "q": "1", "z": "1"}
	if r.Bool() {
		data["l"] = "1"
	}
	// time leaves cannot parse "1": use an RFC3339 text for them
	fix := func(n *spec.Node, v any) any {
		if n.Kind == spec.Time {
			return gen.BaseTime.Format(time.RFC3339)
		}
		return v
	}
	data["a"] = fix(root.Fields[0].Node, data["a"])
	if l.Elem.Kind == spec.Time {
		data["l"] = []any{gen.BaseTime.Format(time.RFC3339)}
	}
	if r.Intn(3) == 0 {
		// the input already is a slice of exactly the destination's type: the coercers installed on the slice and on its
		// element still are what turns it into the value
		switch l.Elem.Kind {
		case spec.String:
			data["l"] = []string{"1", "0"}
		case spec.Int:
			data["l"] = []int{1, 0}
		case spec.Float64:
			data["l"] = []float64{1, 0}
		case spec.Bool:
			data["l"] = []bool{true, false}
		case spec.Time:
			data["l"] = []time.Time{gen.BaseTime}
		}
	}
	data["p"] = fix(root.Fields[2].Node.Elem, data["p"])
	sm := data["s"].(map[string]any)
	sm["b"] = fix(inner.Fields[0].Node, sm["b"])
	if inner.Fields[1].Node.Elem.Elem.Kind == spec.Time {
		sm["m"] = []any{[]any{gen.BaseTime.Format(time.RFC3339)}}
	}
	data["z"] = fix(root.Fields[5].Node, data["z"])
	exp := ref.Eval(root, &ref.Env{Mode: ref.Parse}, data, nil)
	if exp.Unknown != "" {
		c.Count("skipped_open_corner", 1)
		return
	}
	for rep := 0; rep < 3; rep++ {
		calls := map[int]int{}
		b := spec.Build(root, &spec.Hooks{OnCoerce: func(n *spec.Node, d any) { calls[n.ID]++ }, FieldOrder: permutedOrder(r)})
		o := run.Parse(b, data, nil)
		c.Eval(1)
		if o.Panicked {
			c.Violation("panic|"+panicKind(o.Panic), describeCase(root, ref.Parse, data, map[string]any{"panic": trunc(fmt.Sprint(o.Panic), 300)}))
			return
		}
		want, got := expectedTriples(exp), actualTriples(o)
		a, bb := obs.MultisetDiff(want, got)
		if len(a) > 0 || len(bb) > 0 || (len(want) == 0 && !obs.Equal(exp.Out, o.Dest)) {
			c.Violation("coercer-not-local", describeCase(root, ref.Parse, data, map[string]any{"expected_destination": obs.Render(exp.Out), "observed_destination": obs.Render(o.Dest), "expected_issues": want, "observed_issues": issuesText(o), "difference": obs.Diff(exp.Out, o.Dest, "$")}))
			return
		}
	}
	// WithCoercer applied to a Ptr schema replaces coercion of the pointed-to schema
	var dest *string
	ps := z.Ptr(z.String())
	z.WithCoercer(func(any) (any, error) { return "VIA-PTR", nil })(ps)
	ps.Parse("x", &dest)
	c.Eval(1)
	if dest == nil || *dest != "VIA-PTR" {
		c.Violation("coercer-through-ptr", map[string]any{"schema": "p := z.Ptr(z.String()); z.WithCoercer(const VIA-PTR)(p)", "destination": fmt.Sprint(dest)})
		return
	}
	c.NonTrivial(fpf("coercer|%s", root.Source()))
	c.Count("coercer_cases", 1)
	if c.WantSample() {
		c.Sample(map[string]any{"monitor": "coercer locality", "schema": root.Source(), "input": obs.Render(obs.Norm(data)), "destination": obs.Render(exp.Out)})
	}
}

// ---------- (3) sharing differential ----------

// c17AliasedPointers: one pointer schema object used at several places, validating a value in which the SAME pointer sits at
// several of those places: every place is validated, exactly as with independent copies of the schema.
func c17AliasedPointers(c *core.Ctx) bool {
	type Addr struct{ City string }
	type Order struct {
		Billing  *Addr
		Shipping *Addr
		Others   []*Addr
	}
	mk := func() *z.PointerSchema { return z.Ptr(z.Struct(z.Schema{"city": z.String().Min(3)})) }
	shared := mk()
	one := z.Struct(z.Schema{"billing": shared, "shipping": shared, "others": z.Slice(shared)})
	copies := z.Struct(z.Schema{"billing": mk(), "shipping": mk(), "others": z.Slice(mk())})
	a, b := &Addr{City: "NY"}, &Addr{City: "Paris"}
	var v Order
	switch c.R.Intn(4) {
	case 0:
		v = Order{Billing: a, Shipping: a}
	case 1:
		v = Order{Billing: a, Shipping: b, Others: []*Addr{a, a, b}}
	case 2:
		v = Order{Billing: b, Shipping: b, Others: []*Addr{a, b, a}}
	default:
		v = Order{Others: []*Addr{a, a, a}}
	}
	keys := func(m z.ZogIssueMap) string {
		var ks []string
		for k, l := range m {
			if k != "$first" {
				ks = append(ks, fmt.Sprintf("%s x%d", k, len(l)))
			}
		}
		sort.Strings(ks)
		return strings.Join(ks, ", ")
	}
	v1, v2 := v, v
	got, want := keys(one.Validate(&v1)), keys(copies.Validate(&v2))
	c.Eval(2)
	if got != want {
		c.Violation("shared-node-differs-from-independent-copies|aliased-pointers", map[string]any{"schema": "p := z.Ptr(z.Struct{city: String().Min(3)}); z.Struct{billing: p, shipping: p, others: z.Slice(p)}",
			"value": fmt.Sprintf("billing=%p shipping=%p others=%v (cities NY / Paris)", v.Billing, v.Shipping, v.Others), "issue_keys_with_the_shared_object": got, "issue_keys_with_independent_copies": want})
		return false
	}
	c.Count("aliased_pointer_validations", 1)
	return true
}

// c17CustomOptions: the options given to a custom schema belong to its test (the user's function); the schema's own type-mismatch
// issue is not that test and carries none of them.
func c17CustomOptions(c *core.Ctx) bool {
	called := false
	opts := [][]z.TestOption{
		{z.Message("the function's message")},
		{z.IssuePath("function.path"), z.IssueCode("function_code")},
		{z.Params(map[string]any{"k": 1}), z.MessageFunc(func(e *z.ZogIssue, ctx z.Ctx) { called = true; e.SetMessage("from the function's MessageFunc") })},
		{z.Message("m"), z.IssuePath("p"), z.Params(map[string]any{"k": 2}), z.IssueCode("cc")},
	}[c.R.Intn(4)]
	sch := z.CustomFunc(func(p *int, ctx z.Ctx) bool { return *p > 0 }, opts...)
	type rec struct {
		N int
		S string
	}
	var d rec
	m := z.Struct(z.Schema{"n": sch, "s": z.String()}).Parse(map[string]any{"n": "not an int", "s": "x"}, &d)
	c.Eval(1)
	all, _ := obs.CanonMap(m)
	if len(all) != 1 || all[0].Path != "n" || all[0].Code != "coerce" || all[0].Params != "nil" && all[0].Params != "{}" || all[0].Message != "value is invalid" || called {
		c.Violation("builder-chain|custom-schema-options-on-its-coerce-issue", map[string]any{"schema": "{n: z.CustomFunc[int](fn, <test options>), s: String()}", "input": "{n: \"not an int\", s: \"x\"}",
			"want": "one issue: path n, code coerce, no params, the default message", "issues": obs.Multiset(all, func(ci obs.CI) string { return ci.String() }), "message_func_called": called})
		return false
	}
	c.Count("custom_option_scenarios", 1)
	return true
}

// c17Directed: (a) Not() followed by Min / Max on the schema object Not() returned (statement style): the length test is the negated one,
// the test after it is plain; (b) WithCoercer applied to a Ptr acts exactly as the same option given to the pointed-to schema's
// constructor; (c) NotNil on a pointer to a pointer concerns that pointer: the inner pointer schema, also used elsewhere, stays optional.
func c17Directed(c *core.Ctx) bool {
	render := func(l z.ZogIssueList) string {
		var out []string
		for _, e := range l {
			out = append(out, e.Path+"|"+e.Code)
		}
		sort.Strings(out)
		return strings.Join(out, ", ")
	}
	renderM := func(m z.ZogIssueMap) string {
		var l z.ZogIssueList
		for k, v := range m {
			if k != "$first" {
				l = append(l, v...)
			}
		}
		return render(l)
	}
	// (a)
	for _, which := range []string{"Min", "Max"} {
		mk := func() *z.StringSchema[string] {
			s := z.String()
			s.Not()
			if which == "Min" {
				s.Min(3)
			} else {
				s.Max(3)
			}
			s.Contains("a")
			return s
		}
		for _, in := range []string{"ab", "abcd", "xyz", "wxyz", "a", "abc"} {
			plain := len([]rune(in)) >= 3
			if which == "Max" {
				plain = len([]rune(in)) <= 3
			}
			var want []string
			if !strings.Contains(in, "a") {
				want = append(want, "|contained")
			}
			if plain {
				want = append(want, "|not_"+strings.ToLower(which))
			}
			sort.Strings(want)
			for _, mode := range []string{"Parse", "Validate"} {
				var got string
				if mode == "Parse" {
					var d string
					got = render(mk().Parse(in, &d))
				} else {
					v := in
					got = render(mk().Validate(&v))
				}
				c.Eval(1)
				if got != strings.Join(want, ", ") {
					c.Violation("not-negates-other-test|statement-style", map[string]any{"schema": fmt.Sprintf("s := z.String(); s.Not(); s.%s(3); s.Contains(\"a\")", which), "input": in, "mode": mode, "issues(path|code)": got, "want": strings.Join(want, ", ")})
					return false
				}
			}
		}
	}
	// (b)
	type sc struct {
		name  string
		viaP  func() *z.PointerSchema
		viaC  func() *z.PointerSchema
		input []any
	}
	dash := func(d any) (any, error) {
		if s, ok := d.(string); ok && strings.Trim(s, "-") == "" {
			return "", nil
		}
		if d == "bad" {
			return nil, errors.New("refused")
		}
		return fmt.Sprint(d), nil
	}
	num := func(d any) (any, error) {
		if d == "bad" {
			return nil, errors.New("refused")
		}
		return 41, nil
	}
	apply := func(p *z.PointerSchema, co z.CoercerFunc) *z.PointerSchema { z.WithCoercer(co)(p); return p }
	scs := []sc{
		{"Ptr(String().Required())", func() *z.PointerSchema { return apply(z.Ptr(z.String().Required()), dash) }, func() *z.PointerSchema { return z.Ptr(z.String(z.WithCoercer(dash)).Required()) }, []any{"---", "x", "bad", 5}},
		{"Ptr(String().Default(dflt).Min(2))", func() *z.PointerSchema { return apply(z.Ptr(z.String().Default("dflt").Min(2)), dash) }, func() *z.PointerSchema { return z.Ptr(z.String(z.WithCoercer(dash)).Default("dflt").Min(2)) }, []any{"---", "x", "bad", "long"}},
		{"Ptr(String().Min(2).Catch(caught))", func() *z.PointerSchema { return apply(z.Ptr(z.String().Min(2).Catch("caught")), dash) }, func() *z.PointerSchema { return z.Ptr(z.String(z.WithCoercer(dash)).Min(2).Catch("caught")) }, []any{"---", "x", "bad", "long"}},
	}
	for _, x := range scs {
		for _, in := range x.input {
			var d1, d2 *string
			g1, g2 := renderM(x.viaP().Parse(in, &d1)), renderM(x.viaC().Parse(in, &d2))
			c.Eval(2)
			v1, v2 := "<nil>", "<nil>"
			if d1 != nil {
				v1 = *d1
			}
			if d2 != nil {
				v2 = *d2
			}
			if g1 != g2 || v1 != v2 {
				c.Violation("coercer-through-ptr-differs-from-coercer-on-the-pointee", map[string]any{"schema": x.name, "input": fmt.Sprint(in), "WithCoercer applied to the Ptr": fmt.Sprintf("issues [%s] value %q", g1, v1), "WithCoercer given to the pointee": fmt.Sprintf("issues [%s] value %q", g2, v2)})
				return false
			}
		}
	}
	var n1, n2 *int
	g1 := renderM(apply(z.Ptr(z.Int().GT(50).Catch(7)), num).Parse("bad", &n1))
	g2 := renderM(z.Ptr(z.Int(z.WithCoercer(num)).GT(50).Catch(7)).Parse("bad", &n2))
	c.Eval(2)
	if g1 != g2 || n1 == nil || n2 == nil || *n1 != *n2 {
		c.Violation("coercer-through-ptr-differs-from-coercer-on-the-pointee", map[string]any{"schema": "Ptr(Int().GT(50).Catch(7)), coercer refuses", "issues_via_ptr": g1, "issues_via_pointee": g2})
		return false
	}
	// (c)
	type rec struct {
		A **int
		B *int
		L []*int
	}
	inner := z.Ptr(z.Int())
	one := z.Struct(z.Schema{"a": z.Ptr(inner).NotNil(z.Message("a is needed")), "b": inner, "l": z.Slice(inner)})
	copies := z.Struct(z.Schema{"a": z.Ptr(z.Ptr(z.Int())).NotNil(z.Message("a is needed")), "b": z.Ptr(z.Int()), "l": z.Slice(z.Ptr(z.Int()))})
	for _, in := range []map[string]any{{"a": 1}, {"a": 1, "l": []any{2, nil}}, {"b": 3}, {}} {
		var r1, r2 rec
		g1, g2 := renderM(one.Parse(in, &r1)), renderM(copies.Parse(in, &r2))
		c.Eval(2)
		if g1 != g2 {
			c.Violation("shared-node-differs-from-copies|Parse", map[string]any{"schema": "inner := Ptr(Int()); {a: Ptr(inner).NotNil(), b: inner, l: Slice(inner)}", "input": fmt.Sprint(in), "issues_one_object": g1, "issues_independent_copies": g2})
			return false
		}
	}
	x := 5
	px := &x
	var nilInt *int
	for _, v := range []rec{{A: &px}, {A: &nilInt}, {A: &px, L: []*int{nil, px}}} {
		v1, v2 := v, v
		g1, g2 := renderM(one.Validate(&v1)), renderM(copies.Validate(&v2))
		c.Eval(2)
		if g1 != g2 {
			c.Violation("shared-node-differs-from-copies|Validate", map[string]any{"schema": "inner := Ptr(Int()); {a: Ptr(inner).NotNil(), b: inner, l: Slice(inner)}", "issues_one_object": g1, "issues_independent_copies": g2})
			return false
		}
	}
	// (d) options given to one test stay with that test, also when the caller spreads a sub-slice of a longer option list (spare capacity)
	// and uses the longer list for another test afterwards
	opts := make([]z.TestOption, 0, 8)
	opts = append(opts, z.Message("m1"), z.IssueCode("c_own"), z.IssuePath("p_own"))
	never := func(any, z.Ctx) bool { return false }
	var sv string
	first := z.String().TestFunc(never, opts[:1]...)
	second := z.String().TestFunc(never, opts...)
	third := z.String().Test(z.TestFunc("c3", never, opts[:2]...))
	fourth := z.String().Min(5, opts...)
	got := []string{}
	for _, sch := range []*z.StringSchema[string]{first, second, third, fourth} {
		l := sch.Parse("ab", &sv)
		if len(l) != 1 {
			got = append(got, fmt.Sprintf("%d issues", len(l)))
			continue
		}
		got = append(got, l[0].Code+"/"+l[0].Path+"/"+l[0].Message)
	}
	c.Eval(4)
	if want := "//m1, c_own/p_own/m1, c_own//m1, c_own/p_own/m1"; strings.Join(got, ", ") != want {
		c.Violation("test-options-leak|shared-option-slice", map[string]any{"schema": "opts := make([]TestOption, 0, 8); opts = append(opts, Message(m1), IssueCode(c_own), IssuePath(p_own)); TestFunc(f, opts[:1]...), TestFunc(f, opts...), Test(TestFunc(c3, f, opts[:2]...)), Min(5, opts...)", "code/path/message": strings.Join(got, ", "), "want": want})
		return false
	}
	// (e) WithCoercer through a Ptr reaches the pointed-to schema whatever that schema is: a list
	split := func(d any) (any, error) { return strings.Split(fmt.Sprint(d), ","), nil }
	{
		var direct []string
		z.Slice(z.String(), z.WithCoercer(split)).Parse("a,b,c", &direct)
		var one *[]string
		m1 := apply(z.Ptr(z.Slice(z.String())), split).Parse("a,b,c", &one)
		var two **[]string
		m2 := apply(z.Ptr(z.Ptr(z.Slice(z.String()))), split).Parse("a,b,c", &two)
		c.Eval(3)
		g1, g2 := "<nil>", "<nil>"
		if one != nil {
			g1 = fmt.Sprint(*one)
		}
		if two != nil && *two != nil {
			g2 = fmt.Sprint(**two)
		}
		if len(m1) != 0 || len(m2) != 0 || g1 != fmt.Sprint(direct) || g2 != fmt.Sprint(direct) {
			c.Violation("coercer-through-ptr-differs-from-coercer-on-the-pointee", map[string]any{"schema": "WithCoercer(split on commas) applied to Ptr(Slice(String())) / Ptr(Ptr(Slice(String())))", "input": "a,b,c", "through_one_pointer": g1, "through_two_pointers": g2, "given_to_the_slice": fmt.Sprint(direct)})
			return false
		}
	}
	// (f) coercion-setting options replace one another, last one applied wins - also when the last one names the default-looking layout
	mark := time.Date(1999, 9, 9, 9, 9, 9, 0, time.UTC)
	always := func(any) (any, error) { return mark, nil }
	for _, layout := range []string{time.RFC3339, "2006-01-02"} {
		var tv time.Time
		text := time.Date(2024, 3, 10, 0, 0, 0, 0, time.UTC).Format(layout)
		l := z.Time(z.WithCoercer(always), z.Time.Format(layout)).Parse(text, &tv)
		var tv2 time.Time
		l2 := z.Time(z.Time.Format(layout), z.WithCoercer(always)).Parse(text, &tv2)
		c.Eval(2)
		if len(l) != 0 || tv.Equal(mark) || len(l2) != 0 || !tv2.Equal(mark) {
			c.Violation("last-call-wins|coercion-options", map[string]any{"layout": layout, "Time(WithCoercer(always mark), Format(layout))": fmt.Sprint(tv, z.Issues.SanitizeList(l)), "Time(Format(layout), WithCoercer(always mark))": fmt.Sprint(tv2, z.Issues.SanitizeList(l2)), "want": "the text parsed by the layout / the mark"})
			return false
		}
	}
	// (g) Default obeys last-call-wins also when the last call takes the default away again
	for _, mode := range []string{"Parse", "Validate"} {
		sch := z.Slice(z.String()).Default([]string{"a", "b"}).Default(nil).Required()
		opt := z.Slice(z.String()).Default([]string{"a", "b"}).Default(nil)
		var d1, d2 []string
		var m1, m2 z.ZogIssueMap
		if mode == "Parse" {
			m1, m2 = sch.Parse(nil, &d1), opt.Parse(nil, &d2)
		} else {
			m1, m2 = sch.Validate(&d1), opt.Validate(&d2)
		}
		c.Eval(2)
		if len(m1["$root"]) != 1 || m1["$root"][0].Code != "required" || len(m2) != 0 || len(d1) != 0 || len(d2) != 0 {
			c.Violation("last-call-wins|Default(list).Default(nil)", map[string]any{"mode": mode, "Slice(String()).Default([a b]).Default(nil).Required()": fmt.Sprint(d1, z.Issues.SanitizeMap(m1)), "the same without Required": fmt.Sprint(d2, z.Issues.SanitizeMap(m2)), "want": "a required issue / nothing; no default applied"})
			return false
		}
	}
	// (h) a Params map given to one test stays what the application made it, and reaches no other test
	shared := map[string]any{"unit": "kg"}
	var nn int
	z.Int().OneOf([]int{1, 2, 3}, z.Params(shared)).Parse(9, &nn)
	z.String().OneOf([]string{"a"}, z.Params(shared)).Parse("zz", &sv)
	lp := z.Int().LT(5, z.Params(shared)).Parse(9, &nn)
	c.Eval(3)
	if fmt.Sprint(shared) != "map[unit:kg]" || len(lp) != 1 || fmt.Sprint(lp[0].Params) != "map[unit:kg]" {
		c.Violation("test-options-leak|shared-params-map", map[string]any{"schema": "m := map{unit: kg}; Int().OneOf([1 2 3], Params(m)); String().OneOf([a], Params(m)); Int().LT(5, Params(m))", "the_applications_map_now": fmt.Sprint(shared), "params_of_the_LT_issue": fmt.Sprint(lp[0].Params), "want": "map[unit:kg]"})
		return false
	}
	// (i) a pending Not() waits for the next built-in string test: custom tests added in between are not string tests and do not
	// consume it; repeating Not() before the test changes nothing
	{
		s1 := z.String()
		s1.Not()
		s1.TestFunc(func(any, z.Ctx) bool { return true })
		s1.Email()
		s2 := z.String()
		s2.Not()
		s2.Not()
		s2.URL()
		s3 := z.String()
		s3.Not()
		s3.Not()
		s3.Not()
		s3.UUID()
		l1 := s1.Parse("a@b.co", &sv)
		l2 := s2.Parse("https://example.com", &sv)
		l3 := s3.Parse("123e4567-e89b-12d3-a456-426614174000", &sv)
		l4 := s2.Parse("not a url", &sv)
		c.Eval(4)
		if len(l1) != 1 || l1[0].Code != "not_email" || len(l2) != 1 || l2[0].Code != "not_url" || len(l3) != 1 || l3[0].Code != "not_uuid" || len(l4) != 0 {
			c.Violation("not-negates-other-test|statement-style", map[string]any{"schemas": "s.Not(); s.TestFunc(f); s.Email() on a@b.co / s.Not(); s.Not(); s.URL() on a URL and on text / s.Not() x3; s.UUID() on a UUID", "issues": fmt.Sprint(z.Issues.SanitizeList(l1), z.Issues.SanitizeList(l2), z.Issues.SanitizeList(l3), z.Issues.SanitizeList(l4)), "want": "not_email / not_url, nothing / not_uuid"})
			return false
		}
	}
	// (j) a custom coercer on a list is the whole coercion: a scalar it refuses is not boxed behind its back
	{
		calls := 0
		listsOnly := func(d any) (any, error) {
			calls++
			if l, ok := d.([]any); ok {
				return l, nil
			}
			return nil, errors.New("lists only")
		}
		var out []string
		m := z.Slice(z.String(), z.WithCoercer(listsOnly)).Parse("lonely", &out)
		var out2 []string
		m2 := z.Slice(z.String(), z.WithCoercer(listsOnly)).Parse([]any{"a", "b"}, &out2)
		c.Eval(2)
		if len(m["$root"]) != 1 || m["$root"][0].Code != "coerce" || len(out) != 0 || len(m2) != 0 || len(out2) != 2 || calls != 2 {
			c.Violation("coercer-not-replaced|list-coercer-refusing-a-scalar", map[string]any{"schema": "Slice(String(), WithCoercer(accepts []any only))", "scalar_input": fmt.Sprint(out, z.Issues.SanitizeMap(m)), "list_input": fmt.Sprint(out2, z.Issues.SanitizeMap(m2)), "coercer_calls": calls, "want": "one coerce issue and nothing parsed / [a b]; two calls"})
			return false
		}
	}
	c.Count("directed_builder_scenarios", 1)
	return true
}

func c17Sharing(c *core.Ctx) {
	r := c.R
	if c.Case%10 == 7 && !c17Directed(c) {
		return
	}
	if c.Case%10 == 5 && !c17AliasedPointers(c) {
		return
	}
	if c.Case%10 == 6 && !c17CustomOptions(c) {
		return
	}
	if c.Case%20 == 2 {
		if sig, det := sameNamedTypesCheck(c.R); sig != "" {
			c.Violation(sig, det)
			return
		}
		c.Eval(48)
		c.Count("same_named_destination_type_rounds", 1)
	}
	o := gen.DefaultOpts()
	o.MaxDepth = 2
	o.CatchPct = 40
	o.DefaultPct = 30
	o.Customs = false
	g := &gen.G{R: r, O: o}
	_ = g
	// the shared object: a primitive with catch/default, a slice or a struct
	var shared *spec.Node
	switch r.Intn(4) {
	case 0:
		o.TopKinds = []spec.Kind{spec.Struct}
		o.MaxDepth = 1
		shared = gen.Schema(r, o)
	case 1:
		o.TopKinds = []spec.Kind{spec.Slice}
		o.MaxDepth = 1
		shared = gen.Schema(r, o)
	default:
		o.TopKinds = []spec.Kind{spec.String, spec.Int, spec.Float64, spec.Bool, spec.Time}
		shared = gen.Schema(r, o)
	}
	other := func() *spec.Node {
		o2 := gen.DefaultOpts()
		o2.TopKinds = []spec.Kind{spec.String, spec.Int, spec.Slice}
		o2.MaxDepth = 1
		o2.Customs = false
		return gen.Schema(r, o2)
	}
	var root *spec.Node
	switch r.Intn(4) {
	case 0:
		root = structOf("a", shared, "m", other(), "b", shared)
	case 1:
		root = structOf("a", shared, "l", sliceOf(shared), "m", other())
	case 2:
		root = structOf("x", structOf("a", shared, "m", other()), "y", structOf("b", shared), "c", shared)
	default:
		root = structOf("a", shared, "p", ptrOf(shared), "l", sliceOf(ptrOf(shared)), "b", shared)
	}
	root.Number()
	src := root.Source()
	for k := 0; k < 5; k++ {
		data := gen.ParseInput(r, root, gen.InOpts{ValidPct: 45, AbsentPct: 20, WrongPct: 15, AltRep: true})
		val := gen.ValueTree(r, root, gen.InOpts{ValidPct: 45, AbsentPct: 25}, false)
		for _, mode := range []ref.Mode{ref.Parse, ref.Validate} {
			results := map[string]string{}
			for _, noShare := range []bool{false, true} {
				for rep := 0; rep < 4; rep++ {
					b := spec.Build(root, &spec.Hooks{FieldOrder: permutedOrder(r), NoShare: noShare})
					var out *run.Outcome
					if mode == ref.Parse {
						out = run.Parse(b, data, nil)
					} else {
						out = run.Validate(b, val)
					}
					c.Eval(1)
					if out.Panicked {
						c.Violation("panic|"+panicKind(out.Panic), describeCase(root, mode, data, map[string]any{"shared_object": !noShare, "panic": trunc(fmt.Sprint(out.Panic), 300)}))
						return
					}
					res := canonResult(out)
					if len(out.Issues) > 0 {
						// destinations of failed runs are not specified; compare issues only
						res = obs.Multiset(out.Issues, func(ci obs.CI) string { return ci.Full() })
					}
					results[res] += fmt.Sprintf("[shared=%v] ", !noShare)
				}
			}
			if len(results) > 1 {
				var input any = data
				if mode == ref.Validate {
					input = val
				}
				c.Violation("shared-schema-object-behaves-differently|"+mode.String(), describeCase(root, mode, input, map[string]any{"shared_object": shared.Source(), "distinct_results": results}))
				return
			}
			c.NonTrivial(fpf("share|%s|%s|%d", src, mode, k))
		}
	}
	// the same struct schema object parsed into destination types with different field orders
	if shared.Kind == spec.Struct && len(shared.Fields) >= 2 {
		b := spec.Build(shared, nil)
		data := gen.ParseInput(r, shared, gen.InOpts{ValidPct: 90, AltRep: true})
		t1 := shared.GoType()
		var fs []reflect.StructField
		for i := t1.NumField() - 1; i >= 0; i-- {
			fs = append(fs, t1.Field(i))
		}
		t2 := reflect.StructOf(fs)
		var prev map[string]any
		for rep := 0; rep < 4; rep++ {
			for ti, t := range []reflect.Type{t1, t2, t1} {
				dp := reflect.New(t)
				out := run.ParseInto(b, data, dp)
				c.Eval(1)
				if out.Panicked {
					c.Violation("panic|two-destination-types", map[string]any{"schema": shared.Source(), "panic": trunc(fmt.Sprint(out.Panic), 300)})
					return
				}
				cur, _ := out.Dest.(map[string]any)
				if prev != nil && len(out.Issues) == 0 && !obs.Equal(prev, cur) {
					c.Violation("schema-remembers-destination-layout", map[string]any{"schema": shared.Source(), "input": obs.Render(obs.Norm(data)), "destination_type_index": ti, "destination": obs.Render(cur), "destination_with_other_field_order": obs.Render(prev)})
					return
				}
				if len(out.Issues) == 0 {
					prev = cur
				}
			}
		}
	}
	c.Count("sharing_cases", 1)
	if c.WantSample() {
		c.Sample(map[string]any{"monitor": "sharing differential", "shared_object": shared.Source(), "schema": src})
	}
}
