package props

import (
	"encoding/json"
	"math/big"
	"net/http"
	"net/url"
	"os"
	"regexp"
	"strconv"
	"strings"

	"github.com/Oudwins/zog/parsers/zjson"
	"github.com/Oudwins/zog/zenv"
	"github.com/Oudwins/zog/zhttp"

	"zogverif/internal/gen"
	"zogverif/internal/obs"
	"zogverif/internal/ref"
	"zogverif/internal/run"
	"zogverif/internal/spec"
)

var allFronts = []string{"map", "zjson", "zhttp-json", "form", "query", "env"}

func frontIsFlat(f string) bool { return f == "form" || f == "query" || f == "env" }

func frontTag(f string) string {
	switch f {
	case "zjson", "zhttp-json":
		return "json"
	case "form":
		return "form"
	case "query":
		return "query"
	case "env":
		return "env"
	}
	return ""
}

// frontExec runs Parse of the schema on the record rendered for the given front end.
// It returns the outcome and the reference environment + data describing what the front end presents.
func frontExec(b *spec.Built, n *spec.Node, rec any, front string, prefill any, stray bool) (*run.Outcome, *ref.Env, any) {
	tag := frontTag(front)
	switch front {
	case "map":
		data := gen.RecToNested(n, rec, "", false)
		return run.Parse(b, data, prefill), &ref.Env{Mode: ref.Parse}, data
	case "zjson":
		doc := gen.RecToJSON(n, rec)
		decoded, _ := decodeJSONDoc(doc)
		return run.Parse(b, zjson.Decode(strings.NewReader(doc)), prefill), &ref.Env{Mode: ref.Parse, SourceTag: "json"}, any(decoded)
	case "zhttp-json":
		doc := gen.RecToJSON(n, rec)
		decoded, _ := decodeJSONDoc(doc)
		r, _ := http.NewRequest("POST", "/x?unrelated=1", strings.NewReader(doc))
		r.Header.Set("Content-Type", "application/json; charset=utf-8")
		return run.Parse(b, zhttp.Request(r), prefill), &ref.Env{Mode: ref.Parse, SourceTag: "json"}, any(decoded)
	case "form", "query":
		vals := gen.RecToFlat(n, rec, tag)
		if stray {
			addStray(n, tag, vals)
		}
		var r *http.Request
		if front == "form" {
			// a form is body plus query (as net/http defines it): the record is sent in the body, split over body and URL (every key
			// whole in one place, so that the order of its values is the record's), or - for a method whose body net/http does not
			// read - in the URL alone
			enc := vals.Encode()
			h := 0
			for i := 0; i < len(enc); i++ {
				h = h*31 + int(enc[i])
			}
			if h < 0 {
				h = -h
			}
			switch h % 4 {
			case 1:
				body, query := url.Values{}, url.Values{}
				i := 0
				for _, k := range sortedKeys(vals) {
					if (h>>uint(i%16))&1 == 0 {
						body[k] = vals[k]
					} else {
						query[k] = vals[k]
					}
					i++
				}
				r, _ = http.NewRequest([]string{"POST", "PUT", "PATCH"}[h%3], "/x?"+query.Encode(), strings.NewReader(body.Encode()))
			case 2:
				r, _ = http.NewRequest("DELETE", "/x?"+enc, strings.NewReader("ignored=1"))
			default:
				r, _ = http.NewRequest("POST", "/x", strings.NewReader(enc))
			}
			r.Header.Set("Content-Type", "application/x-www-form-urlencoded")
		} else {
			// query parameters are what GET and HEAD read, whatever headers the client sends along
			enc := vals.Encode()
			switch len(enc) % 3 {
			case 1:
				r, _ = http.NewRequest("HEAD", "/x?"+enc, nil)
				r.Header.Set("Content-Type", "application/json")
			case 2:
				r, _ = http.NewRequest("HEAD", "/x?"+enc, nil)
				r.Header.Set("Content-Type", "application/x-www-form-urlencoded")
			default:
				r, _ = http.NewRequest("GET", "/x?"+enc, nil)
			}
		}
		env := &ref.Env{Mode: ref.Parse, SourceTag: tag, Flat: true, FlatLookup: urlLookup(vals)}
		return run.Parse(b, zhttp.Request(r), prefill), env, nil
	case "env":
		vals := gen.RecToFlat(n, rec, tag)
		if stray {
			addStray(n, tag, vals)
		}
		var set []string
		for k, v := range vals {
			if len(v) > 0 {
				// the documented trimming of environment values is the trimming of white space as the library defines it everywhere else
				// (Unicode white space): values are set with padding of several kinds, the reference sees the unpadded value
				pads := []string{"", " ", "\t", "\u00a0", "\v", "\u2003\f", "\u0085", "\r\n", "\u3000 "}
				os.Setenv(k, pads[len(k)%len(pads)]+v[0]+pads[(len(k)+len(v[0]))%len(pads)])
				set = append(set, k)
			}
		}
		defer func() {
			for _, k := range set {
				os.Unsetenv(k)
			}
		}()
		env := &ref.Env{Mode: ref.Parse, SourceTag: tag, Flat: true, FlatLookup: func(key string) any {
			if v, ok := vals[key]; ok && len(v) > 0 {
				return strings.TrimSpace(v[0])
			}
			return ""
		}}
		return run.Parse(b, zenv.NewDataProvider(), prefill), env, nil
	}
	panic("unknown front " + front)
}

// decodeJSONDoc is what a JSON document presents, computed independently of zog: objects and arrays as maps and slices, numbers
// as float64 - except integer literals a float64 cannot hold exactly, which stay the exact integer (C18: a number is never
// silently changed on its way to the schema). more=true: data follows the first value.
func decodeJSONDoc(doc string) (m map[string]any, err error) {
	dec := json.NewDecoder(strings.NewReader(doc))
	dec.UseNumber()
	if err = dec.Decode(&m); err != nil {
		return nil, err
	}
	var fix func(v any) (any, error)
	fix = func(v any) (any, error) {
		switch x := v.(type) {
		case map[string]any:
			for k, e := range x {
				n, err := fix(e)
				if err != nil {
					return nil, err
				}
				x[k] = n
			}
		case []any:
			for i, e := range x {
				n, err := fix(e)
				if err != nil {
					return nil, err
				}
				x[i] = n
			}
		case json.Number:
			f, ferr := strconv.ParseFloat(string(x), 64)
			if ferr != nil {
				return nil, ferr // beyond the float64 range: undecodable, as with encoding/json's default number handling
			}
			if bi, ok := new(big.Int).SetString(string(x), 10); ok && bi.IsInt64() {
				if back, acc := new(big.Float).SetFloat64(f).Int(nil); acc != big.Exact || back.Cmp(bi) != 0 {
					return int(bi.Int64()), nil
				}
			}
			return f, nil
		}
		return v, nil
	}
	if _, err = fix(m); err != nil {
		return nil, err
	}
	return m, nil
}

// addStray puts a value under the own key of every nested struct field, and a `key[]` parameter next to every absent field
// keyed `key`: flat sources must ignore both.
func addStray(n *spec.Node, tag string, vals url.Values) {
	for n.Kind == spec.Ptr {
		n = n.Elem
	}
	for i := range n.Fields {
		f := &n.Fields[i]
		if f.Node.Kind == spec.Struct {
			vals.Set(f.DataKey(tag), "stray-value")
			// parameters spelled like a path into the nested struct (parent.child, parent[child]): not the nested fields either
			for j := range f.Node.Fields {
				ck := f.Node.Fields[j].DataKey(tag)
				if tag != "env" {
					vals[f.DataKey(tag)+"."+ck] = []string{"stray-dotted"}
					vals[f.DataKey(tag)+"["+ck+"]"] = []string{"stray-bracketed"}
				}
			}
			addStray(f.Node, tag, vals)
			continue
		}
		// a parameter that merely looks like the key of an absent field (other spelling of the name): not that field's value
		if k := f.DataKey(tag); tag != "env" && !strings.HasSuffix(k, "[]") {
			if _, present := vals[k]; !present {
				if _, taken := vals[k+"[]"]; !taken {
					vals[k+"[]"] = []string{"stray1", "stray2"}
				}
			}
		}
	}
}

// urlLookup is the documented presentation of URL parameters: a `[]` name or a repeated one is a list, a single one a string, a missing one absent.
func urlLookup(vals url.Values) func(key string) any {
	return func(key string) any {
		v, ok := vals[key]
		if strings.HasSuffix(key, "[]") && len(key) > 2 {
			if !ok {
				return nil
			}
			out := make([]any, len(v))
			for i := range v {
				out[i] = v[i]
			}
			return out
		}
		if len(v) > 1 {
			out := make([]any, len(v))
			for i := range v {
				out[i] = v[i]
			}
			return out
		}
		if len(v) == 1 {
			return v[0]
		}
		return ""
	}
}

var tagPrefixRe = regexp.MustCompile(`^(j_|f_|q_|z_|E_|e_)`)

// canonPath maps a front-end specific issue path to a front-end independent one (prefix of the tag scheme stripped, lower-cased).
func canonPath(p string) string {
	if p == "" {
		return p
	}
	var sb strings.Builder
	seg := ""
	flush := func() {
		if seg == "" {
			return
		}
		s := tagPrefixRe.ReplaceAllString(seg, "")
		sb.WriteString(strings.ToLower(s))
		seg = ""
	}
	for i := 0; i < len(p); i++ {
		switch p[i] {
		case '.':
			flush()
			sb.WriteByte('.')
		case '[':
			flush()
			j := strings.IndexByte(p[i:], ']')
			if j < 0 {
				sb.WriteString(p[i:])
				return sb.String()
			}
			sb.WriteString(p[i : i+j+1])
			i += j
		default:
			seg += string(p[i])
		}
	}
	flush()
	return sb.String()
}

func canonIssues(o *run.Outcome) []string {
	out := make([]string, len(o.Issues))
	for i, c := range o.Issues {
		out[i] = canonPath(c.Path) + "|" + c.Code + "|" + c.Dtype + "|" + c.Message
	}
	sortStrings(out)
	return out
}

func sortStrings(s []string) {
	for i := 1; i < len(s); i++ {
		for j := i; j > 0 && s[j] < s[j-1]; j-- {
			s[j], s[j-1] = s[j-1], s[j]
		}
	}
}

var _ = obs.Render

func sortedKeys(v url.Values) []string {
	ks := make([]string, 0, len(v))
	for k := range v {
		ks = append(ks, k)
	}
	sortStrings(ks)
	return ks
}
