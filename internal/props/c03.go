package props

import (
	"encoding/json"
	"errors"
	"fmt"
	"math/big"
	"net"
	"net/http"
	"net/url"
	"os"
	"reflect"
	"strings"
	"time"

	z "github.com/Oudwins/zog"
	"github.com/Oudwins/zog/conf"
	"github.com/Oudwins/zog/zenv"
	"github.com/Oudwins/zog/zhttp"

	"zogverif/internal/core"
	"zogverif/internal/gen"
	"zogverif/internal/obs"
	"zogverif/internal/ref"
	"zogverif/internal/run"
	"zogverif/internal/spec"
)

// C03: on success the destination holds the documented coercion of the input.
type c03 struct{}

func init() { core.Register(c03{}) }

func (c03) ID() string { return "C03" }

var c03Layouts = []string{"", "2006-01-02", time.RFC1123, "02/01/2006 15:04", time.RFC3339Nano, time.Kitchen, time.RFC822Z}

// representation matrix: destination kind -> inputs in every documented representation
func c03Reps(k spec.Kind) []any {
	t := gen.BaseTime
	switch k {
	case spec.String:
		return []any{"plain", "  padded  ", "é世", 42, int64(-7), int32(3), 2.5, 1e21, 0.00001, 1e20, float32(1.5), float32(0.1), float32(16777217), float32(1e-7), float32(3.4e38), 1e-5, 123456789.125, true, false, []any{1, "a"}, map[string]any{"k": 1}, t, uint8(200), 'x', []string{"a", "b"}, struct{ A int }{5}, complex(1, 2),
			// types with their own text methods: %v asks Formatter first, then error, then Stringer
			new(big.Float).SetFloat64(12345678901234.5), big.NewInt(-5), big.NewRat(1, 3), 90 * time.Second, c03ErrStringer{"v"}, &c03ErrStringer{"p"}, c03FmtStringer(7), net.IPv4(10, 0, 0, 1), c03Stringer{3}, errors.New("plain error"), time.UTC}
	case spec.Int, spec.Int32, spec.Int64:
		return []any{12, int32(13), int64(14), "15", "-16", "+17", 6.29, -6.99, 0.4, true, false, 0, "0", 1e6, float64(1 << 40), "007"}
	case spec.Float32, spec.Float64:
		return []any{12, "1.5", "-2.25", "1e3", 2.5, float32(0.1), 0, "0", 0.1, "0.1", 1e30, "16777217", 16777217, 16777217.0, -0.0, ".5", "5."}
	case spec.Bool:
		return []any{true, false, "on", "off", "true", "false", "t", "f", "T", "F", "TRUE", "FALSE", "True", "False", "1", "0", 1, 0}
	case spec.Time:
		return []any{t, t.In(time.FixedZone("z", 3600)), t.Format(time.RFC3339), t.In(time.FixedZone("z", -7200)).Format(time.RFC3339), "2024-02-29T23:59:59+05:30", int(t.Unix()), t.Unix(), 0, int64(-1), "1970-01-01T00:00:00Z"}
	}
	return nil
}

type c03ErrStringer struct{ s string }

func (e c03ErrStringer) Error() string  { return "error-text-" + e.s }
func (e c03ErrStringer) String() string { return "stringer-text-" + e.s }

type c03FmtStringer int

func (f c03FmtStringer) Format(st fmt.State, verb rune) {
	fmt.Fprintf(st, "formatted<%d,%c>", int(f), verb)
}
func (f c03FmtStringer) String() string { return "stringer-text" }

type c03Stringer struct{ n int }

func (s c03Stringer) String() string { return fmt.Sprintf("S(%d)", s.n) }

type c03cell struct {
	name string
	node func() *spec.Node
	data []any
	glob string // "", or the conf.Coercers field overridden around construction and execution
}

var c03Matrix = buildC03Matrix()

func buildC03Matrix() []c03cell {
	var out []c03cell
	prims := []spec.Kind{spec.String, spec.Int, spec.Int32, spec.Int64, spec.Float32, spec.Float64, spec.Bool, spec.Time}
	witness := map[spec.Kind]any{spec.String: "MARK", spec.Int: 4242, spec.Int32: int32(4242), spec.Int64: int64(4242), spec.Float32: float32(42.5), spec.Float64: 42.5, spec.Bool: true, spec.Time: gen.BaseTime.Add(777 * time.Hour)}
	for _, k := range prims {
		k := k
		out = append(out, c03cell{name: k.String() + "/default coercer", node: func() *spec.Node { return &spec.Node{Kind: k} }, data: c03Reps(k)})
		out = append(out, c03cell{name: k.String() + "/WithCoercer", node: func() *spec.Node { return &spec.Node{Kind: k, Coercer: &spec.CoercerSpec{Mark: witness[k]}} }, data: c03Reps(k)})
		out = append(out, c03cell{name: k.String() + "/WithCoercer failing", node: func() *spec.Node { return &spec.Node{Kind: k, Coercer: &spec.CoercerSpec{Fail: true}} }, data: c03Reps(k)})
		out = append(out, c03cell{name: k.String() + "/global override", node: func() *spec.Node { return &spec.Node{Kind: k} }, data: c03Reps(k), glob: "yes"})
		out = append(out, c03cell{name: "Ptr(" + k.String() + ")/WithCoercer reaches the pointee", node: func() *spec.Node {
			return &spec.Node{Kind: spec.Ptr, Elem: &spec.Node{Kind: k, Coercer: &spec.CoercerSpec{Mark: witness[k]}}}
		}, data: c03Reps(k)})
	}
	for _, l := range c03Layouts[1:] {
		l := l
		t := gen.BaseTime.Add(1234567 * time.Second)
		data := []any{t.Format(l), t.In(time.FixedZone("z", 19800)).Format(l), t.Format(time.RFC3339), t, int(t.Unix()), t.Unix(), "garbage", t.Format("2006-01-02")}
		out = append(out, c03cell{name: fmt.Sprintf("Time.Format(%q)", l), node: func() *spec.Node { return &spec.Node{Kind: spec.Time, Layout: l} }, data: data})
		out = append(out, c03cell{name: fmt.Sprintf("Ptr(Time.Format(%q))", l), node: func() *spec.Node { return &spec.Node{Kind: spec.Ptr, Elem: &spec.Node{Kind: spec.Time, Layout: l}} }, data: data})
	}
	// slices: every input shape
	for _, ek := range []spec.Kind{spec.String, spec.Int, spec.Float64, spec.Bool} {
		ek := ek
		data := []any{[]any{}, []any{"1"}, []any{"1", 2, 3.0}, []string{"1", "0"}, []int{1, 0, 1}, []float64{1, 0}, []bool{true, false}, "1", 1, true, []any{"1", nil, "0"}, [][]any{{1}}}
		out = append(out, c03cell{name: "Slice(" + ek.String() + ")", node: func() *spec.Node { return &spec.Node{Kind: spec.Slice, Elem: &spec.Node{Kind: ek}} }, data: data})
	}
	out = append(out, c03cell{name: "Slice(String)/WithCoercer", node: func() *spec.Node {
		return &spec.Node{Kind: spec.Slice, Elem: &spec.Node{Kind: spec.String}, Coercer: &spec.CoercerSpec{Mark: []any{"m1", "m2", "m3"}}}
	}, data: []any{"a,b,c", []any{"x"}, 5}})
	out = append(out, c03cell{name: "Slice(String)/global override", node: func() *spec.Node { return &spec.Node{Kind: spec.Slice, Elem: &spec.Node{Kind: spec.String}} }, data: []any{"a,b,c", []any{"x"}, 5}, glob: "yes"})
	return out
}

func (c03) Info(t core.Tier) core.Info {
	return core.Info{
		Level: "exploration",
		Rule: fmt.Sprintf("(a) EXHAUSTIVE options matrix: %d cells = every primitive kind x {default coercer, WithCoercer, failing WithCoercer, global conf.Coercers override, WithCoercer through Ptr} + Time.Format with %d layouts (plain and behind Ptr) + slice input shapes, each with every documented input representation "+
			"(ints of all widths, floats incl. 1e21/1e-5, numeric strings, bool spellings, time.Time, RFC3339 / layout strings, unix seconds, arbitrary values into String via %%v, scalars and typed slices into slices), placed at top level and as a struct field; "+
			"(b) random schemas (WithCoercer / Time.Format / shared nodes) x valid-biased inputs in alternative representations. destinations are pre-filled with stale sentinels (stale leaves, non-nil slices with spare capacity, stale non-nil pointers, unnamed fields). "+
			"oracle: on success every destination leaf == reference coercion of the input at its key/index, slice length/order == input's, absent optional leaves untouched, present pointers allocated, unnamed fields untouched. "+
			"non-trivial: success with >= 1 leaf whose input representation differs from its destination type, or a stale destination position that had to stay untouched; distinct by (schema, input).", len(c03Matrix), len(c03Layouts)-1),
		Assumptions: append([]string{"time.Parse / fmt %v of the standard library define the documented string forms"}, commonAssumptions...),
		MinDistinct: 200,
		Exhaustive:  true,
		// global coercer overrides are process-wide: each worker runs its cases serially, overrides are installed and restored inside one case
	}
}

func (c03) NumCases(t core.Tier) int { return len(c03Matrix) + tierN(t, 25000, 2000000) }

func withGlobalOverride(k spec.Kind, f func()) (mark any) {
	saved := conf.Coercers
	defer func() { conf.Coercers = saved }()
	switch k {
	case spec.String:
		mark = "GLOBAL"
		conf.Coercers.String = func(any) (any, error) { return "GLOBAL", nil }
	case spec.Int, spec.Int32, spec.Int64:
		mark = 4242
		conf.Coercers.Int = func(any) (any, error) { return 4242, nil }
	case spec.Float32, spec.Float64:
		mark = 42.5
		conf.Coercers.Float64 = func(any) (any, error) { return 42.5, nil }
	case spec.Bool:
		mark = true
		conf.Coercers.Bool = func(any) (any, error) { return true, nil }
	case spec.Time:
		mark = gen.BaseTime.Add(99 * time.Hour)
		m := mark
		conf.Coercers.Time = func(any) (any, error) { return m, nil }
	case spec.Slice:
		mark = []any{"g1", "g2"}
		conf.Coercers.Slice = func(any) (any, error) { return []any{"g1", "g2"}, nil }
	}
	f()
	return mark
}

func c03Compare(c *core.Ctx, root *spec.Node, refRoot *spec.Node, data any, stale bool, cell string, execWrap func(func())) bool {
	prior := gen.Prefill(c.R, root, stale)
	exp := ref.Eval(refRoot, &ref.Env{Mode: ref.Parse}, data, prior)
	if exp.Unknown != "" {
		c.Count("skipped_open_corner", 1)
		return true
	}
	var o *run.Outcome
	execWrap(func() {
		b := spec.Build(root, nil)
		if cell == "random schema" && c.R.Intn(3) == 0 {
			warmAlt(c.R, b)
		}
		o = run.Parse(b, data, prior)
	})
	c.Eval(1)
	det := func(extra map[string]any) map[string]any {
		extra["cell"] = cell
		extra["destination_before"] = obs.Render(prior)
		return describeCase(root, ref.Parse, data, extra)
	}
	if o.Panicked {
		c.Violation("panic", det(map[string]any{"panic": fmt.Sprint(o.Panic), "stack": trunc(o.Stack, 2000)}))
		return false
	}
	want, got := expectedTriples(exp), actualTriples(o)
	if a, b := obs.MultisetDiff(want, got); len(a) > 0 || len(b) > 0 {
		c.Violation("coercible-or-not", det(map[string]any{"expected_issues": want, "observed_issues": issuesText(o), "reference_destination": obs.Render(exp.Out)}))
		return false
	}
	if len(want) > 0 {
		return true
	}
	if d := obs.Diff(exp.Out, o.Dest, "$"); d != "" {
		c.Violation("destination-is-not-documented-coercion", det(map[string]any{"expected_destination": obs.Render(exp.Out), "observed_destination": obs.Render(o.Dest), "difference": d}))
		return false
	}
	c.Count("successes_compared", 1)
	c.NonTrivial(fpf("%s|%s|%v", root.Source(), obs.Render(obs.Norm(data)), stale))
	return true
}

func noWrap(f func()) { f() }

// c03Directed: (a) z.Time.Format(layout) means that layout (and unix seconds) whatever the application has installed as its global
// time coercer, also for the default-looking layout RFC3339; (b) a form is body plus query as net/http defines it: a list field
// gets the body's values followed by the URL's.
func c03Directed(c *core.Ctx) bool {
	saved := conf.Coercers
	conf.Coercers.Time = func(d any) (any, error) {
		if s, ok := d.(string); ok {
			return time.Parse("2006-01-02", s)
		}
		if n, ok := d.(int); ok {
			return time.UnixMilli(int64(n)), nil
		}
		return nil, errors.New("not a date")
	}
	problem := ""
	for _, layout := range []string{time.RFC3339, time.RFC1123, "2006-01-02 15:04"} {
		s := z.Time(z.Time.Format(layout))
		ts := time.Date(2024, 3, 10, 12, 30, 0, 0, time.UTC)
		var got time.Time
		if l := s.Parse(ts.Format(layout), &got); len(l) != 0 || !got.Equal(ts) {
			problem = fmt.Sprintf("Time(Format(%q)).Parse(%q) with an application-wide time coercer installed: issues %v, destination %v; want %v", layout, ts.Format(layout), z.Issues.SanitizeList(l), got, ts)
		}
		var g2 time.Time
		if l := s.Parse("2024-03-05", &g2); len(l) != 1 || l[0].Code != "coerce" {
			problem = fmt.Sprintf("Time(Format(%q)).Parse(\"2024-03-05\") with an application-wide date-only coercer installed: issues %v, destination %v; want one coerce issue (the text is not in the schema's layout)", layout, z.Issues.SanitizeList(l), g2)
		}
		var g3 time.Time
		if l := s.Parse(1700000000, &g3); len(l) != 0 || !g3.Equal(time.Unix(1700000000, 0)) {
			problem = fmt.Sprintf("Time(Format(%q)).Parse(1700000000): issues %v, destination %v; want unix seconds %v", layout, z.Issues.SanitizeList(l), g3, time.Unix(1700000000, 0).UTC())
		}
	}
	conf.Coercers = saved
	c.Eval(9)
	if problem != "" {
		c.Violation("destination-is-not-documented-coercion|Time.Format-under-a-global-override", map[string]any{"observed": problem})
		return false
	}
	type search struct {
		Tags  []string
		Debug string
		Q     string
	}
	sch := z.Struct(z.Schema{"tags": z.Slice(z.String()), "debug": z.String(), "q": z.String()})
	for _, rq := range []struct{ method, url, body, want string }{
		{"POST", "/search?tags=c&debug=1", "tags=a&tags=b", "[a b c]|1|"},
		{"POST", "/search?tags=c", "tags=a&q=x", "[a c]||x"},
		{"PUT", "/search?debug=1&tags=z&tags=y", "q=x&tags=a", "[a z y]|1|x"},
		{"POST", "/search?debug=1", "tags=a&tags=b", "[a b]|1|"},
		{"DELETE", "/search?tags=c&debug=1", "tags=a", "[c]|1|"},
	} {
		r, _ := http.NewRequest(rq.method, rq.url, strings.NewReader(rq.body))
		r.Header.Set("Content-Type", "application/x-www-form-urlencoded")
		var d search
		m := sch.Parse(zhttp.Request(r), &d)
		c.Eval(1)
		if got := fmt.Sprintf("%v|%s|%s", d.Tags, d.Debug, d.Q); len(m) != 0 || got != rq.want {
			c.Violation("destination-is-not-documented-coercion|form-body-plus-query", map[string]any{"request": rq.method + " " + rq.url + " body " + rq.body, "schema": "{tags: Slice(String()), debug: String(), q: String()}", "destination(tags|debug|q)": got, "want": rq.want, "issues": fmt.Sprint(z.Issues.SanitizeMap(m))})
			return false
		}
	}
	// (c) a layout without a zone is read as time.Parse reads it (UTC), wherever the process happens to run
	savedLocal := time.Local
	time.Local = time.FixedZone("harness+5", 5*3600)
	var tl time.Time
	ll := z.Time(z.Time.Format("2006-01-02 15:04")).Parse("2024-03-10 12:30", &tl)
	var tl2 time.Time
	ll2 := z.Time(z.Time.Format(time.DateOnly)).Parse("2024-03-10", &tl2)
	time.Local = savedLocal
	c.Eval(2)
	if len(ll) != 0 || len(ll2) != 0 || !tl.Equal(time.Date(2024, 3, 10, 12, 30, 0, 0, time.UTC)) || !tl2.Equal(time.Date(2024, 3, 10, 0, 0, 0, 0, time.UTC)) {
		c.Violation("destination-is-not-documented-coercion|zone-less-layout-in-a-non-UTC-process", map[string]any{"process_zone": "UTC+5 (time.Local set by the harness)", "Time(Format(2006-01-02 15:04)).Parse(2024-03-10 12:30)": fmt.Sprint(tl.UTC()), "Time(Format(DateOnly)).Parse(2024-03-10)": fmt.Sprint(tl2.UTC()), "want": "the instants time.Parse gives: 12:30 UTC / 00:00 UTC"})
		return false
	}
	// (d) a record given as a Go struct that holds a scalar where the schema expects a nested record: not coercible, so not a success
	type flatIn struct {
		Name    string
		Address string
		Tags    int
	}
	type addr struct {
		City string
		Zip  int
	}
	type outT struct {
		Name    string
		Address addr
	}
	var o outT
	m := z.Struct(z.Schema{"Name": z.String(), "Address": z.Struct(z.Schema{"City": z.String().Default("unknown"), "Zip": z.Int()})}).Parse(flatIn{Name: "bob", Address: "12 Main St"}, &o)
	c.Eval(1)
	if len(m["Address"]) != 1 || m["Address"][0].Code != "coerce" {
		c.Violation("coercible-or-not|scalar-for-a-nested-struct-in-a-struct-record", map[string]any{"schema": "{Name: String(), Address: Struct{City: Default(unknown), Zip: Int()}}", "input": "struct{Name: bob, Address: \"12 Main St\" (a string)}", "issues": fmt.Sprint(z.Issues.SanitizeMap(m)), "destination": fmt.Sprintf("%+v", o), "want": "one coerce issue at Address"})
		return false
	}
	// (e) a Preprocess function declared to return `any` that returns a pointer: the wrapped schema gets what it points to
	type person struct {
		Name string
		Tags []string
	}
	var pz person
	pm := z.Struct(z.Schema{
		"name": z.Preprocess(func(d any, ctx z.Ctx) (any, error) { s := fmt.Sprint(d) + "ert"; return &s, nil }, z.String()),
		"tags": z.Preprocess(func(d any, ctx z.Ctx) (any, error) { l := strings.Split(fmt.Sprint(d), ","); return &l, nil }, z.Slice(z.String())),
	}).Parse(map[string]any{"name": "Rob", "tags": "a,b,c"}, &pz)
	c.Eval(1)
	if len(pm) != 0 || pz.Name != "Robert" || fmt.Sprint(pz.Tags) != "[a b c]" {
		c.Violation("destination-is-not-documented-coercion|preprocess-returning-a-pointer-as-any", map[string]any{"destination": fmt.Sprintf("%+v", pz), "issues": fmt.Sprint(z.Issues.SanitizeMap(pm)), "want": "{Name:Robert Tags:[a b c]}"})
		return false
	}
	// (f) a tag that is present and empty names the empty key: the field is read from there, not from the schema key
	type emptyTag struct {
		Text string `zog:""`
		N    int    `json:""`
	}
	var et emptyTag
	em := z.Struct(z.Schema{"text": z.String(), "n": z.Int()}).Parse(map[string]any{"": "from-empty-key", "text": "from-schema-key", "n": 3}, &et)
	c.Eval(1)
	if len(em) != 0 || et.Text != "from-empty-key" || et.N != 3 {
		c.Violation("destination-is-not-documented-coercion|empty-tag-key", map[string]any{"destination_type": "struct{ Text string `zog:\"\"`; N int `json:\"\"` }", "input": "{\"\": from-empty-key, text: from-schema-key, n: 3}", "destination": fmt.Sprintf("%+v", et), "want": "{Text:from-empty-key N:3}"})
		return false
	}
	c.Count("directed_coercion_scenarios", 1)
	return true
}

func (c03) RunCase(c *core.Ctx) {
	if c.Case%97 == 23 && !w10(c, "C03") {
		return
	}
	if c.Case >= len(c03Matrix) {
		if c.Case%200 == 3 && !c03Directed(c) {
			return
		}
		c03Random(c)
		return
	}
	cell := c03Matrix[c.Case]
	for _, d := range cell.data {
		for _, place := range []string{"top", "field"} {
			leaf := cell.node()
			refLeaf := cell.node()
			wrap := noWrap
			if cell.glob != "" {
				k := leaf.Kind
				var mark any
				wrap = func(f func()) { mark = withGlobalOverride(k, f) }
				// the reference treats a global override like a coercer returning the mark (converted to the node's type)
				wrap(func() {})
				if k == spec.Slice {
					refLeaf.Coercer = &spec.CoercerSpec{Mark: mark}
				} else {
					refLeaf.Coercer = &spec.CoercerSpec{Mark: reflect.ValueOf(mark).Convert(refLeaf.GoType()).Interface()}
				}
			}
			root, refRoot, data := leaf, refLeaf, d
			if place == "field" {
				mk := func(l *spec.Node) *spec.Node {
					r := &spec.Node{Kind: spec.Struct, ExtraFields: []spec.ExtraField{{GoName: "XUntouchedS", Type: reflect.TypeOf("")}},
						Fields: []spec.Field{{Key: "v", GoName: "V", Node: l}, {Key: "opt", GoName: "Opt", Node: &spec.Node{Kind: spec.String}}}}
					r.Number()
					return r
				}
				root, refRoot = mk(leaf), mk(refLeaf)
				data = map[string]any{"v": d}
			} else {
				root.Number()
				refRoot.Number()
			}
			for _, stale := range []bool{false, true} {
				if !c03Compare(c, root, refRoot, data, stale, cell.name+" @"+place, wrap) {
					return
				}
			}
		}
	}
	c.Count("matrix_cells", 1)
	c.Distinct("matrix_cells", cell.name)
	if c.WantSample() && c.Case%29 == 0 {
		c.Sample(map[string]any{"cell": cell.name, "schema": cell.node().Source(), "inputs": obs.Render(obs.Norm(cell.data))})
	}
}

var c03JSONContentTypes = []string{"application/json", "application/json; charset=utf-8", "application/json;charset=UTF-8", "Application/JSON", "application/json; charset=utf-8; charset=UTF-8",
	"application/json; charset=utf-8; CHARSET=latin1", "application/json ; a=1; A=2", "application/json; boundary", "application/json;", "application/json; q=\"x;y\""}

// c03JSONRequest: the documented coercions also hold for a JSON body read through zhttp, whatever parameters follow the media type
// (the URL carries other values under the same names, so a wrong source shows in the destination).
func c03JSONRequest(c *core.Ctx) bool {
	type dst struct {
		Name string
		Age  int
		Ok   bool
		Tags []string
		Code string
		Big  string
	}
	// (code / big: JSON numbers into String leaves - a number a float64 holds exactly arrives as that float64 and prints as %v prints
	// a float64; an integer no float64 holds arrives as the integer)
	sch := z.Struct(z.Schema{"name": z.String(), "age": z.Int(), "ok": z.Bool(), "tags": z.Slice(z.String()), "code": z.String(), "big": z.String()})
	age := c.R.Range(1, 90)
	body := fmt.Sprintf(`{"name":%q,"age":%d,"ok":true,"tags":["a","b"],"code":9007199254740994,"big":9007199254740993}`, gen.Word(c.R), age)
	var wantName string
	_ = json.Unmarshal([]byte(body[8:strings.Index(body, ",")]), &wantName)
	for _, ct := range c03JSONContentTypes {
		for _, method := range []string{"POST", "PUT", "PATCH", "DELETE"} {
			r, _ := http.NewRequest(method, "/x?name=from-query&age=99&ok=false&tags=q", strings.NewReader(body))
			r.Header.Set("Content-Type", ct)
			var d dst
			issues := sch.Parse(zhttp.Request(r), &d)
			c.Eval(1)
			if issues != nil || d.Name != wantName || d.Age != age || !d.Ok || strings.Join(d.Tags, ",") != "a,b" || d.Code != fmt.Sprintf("%v", float64(9007199254740994)) || d.Big != "9007199254740993" {
				c.Violation("destination-is-not-documented-coercion|json-body-through-zhttp", map[string]any{"method": method, "content_type": ct, "body": body, "url_query": "name=from-query&age=99&ok=false&tags=q",
					"destination": fmt.Sprintf("%+v", d), "issues": fmt.Sprint(z.Issues.SanitizeMap(issues))})
				return false
			}
		}
	}
	c.Count("json_requests_through_zhttp", len(c03JSONContentTypes)*4)
	return true
}

// c03FlatOptionalStruct: a flat source (form, query, environment) has no entry for an optional nested struct: its pointer stays nil
// (absent optional inputs leave their destination untouched), whatever else the source carries; the other fields are read.
func c03FlatOptionalStruct(c *core.Ctx) bool {
	type Addr struct {
		Street string `form:"street" query:"street" env:"C03_STREET"`
		Zip    int    `form:"zip" query:"zip" env:"C03_ZIP"`
	}
	type dst struct {
		Name string `form:"name" query:"name" env:"C03_NAME"`
		Addr *Addr  `form:"addr" query:"addr" env:"C03_ADDR"`
	}
	sch := z.Struct(z.Schema{"name": z.String(), "addr": z.Ptr(z.Struct(z.Schema{"street": z.String(), "zip": z.Int()}))})
	name := gen.Word(c.R)
	withInner := c.R.Bool()
	vals := url.Values{"name": {name}}
	if withInner {
		vals.Set("street", "Main")
		vals.Set("zip", "12345")
	}
	for _, front := range []string{"form", "query", "env"} {
		var d dst
		var issues z.ZogIssueMap
		switch front {
		case "form":
			r, _ := http.NewRequest("POST", "/x", strings.NewReader(vals.Encode()))
			r.Header.Set("Content-Type", "application/x-www-form-urlencoded")
			issues = sch.Parse(zhttp.Request(r), &d)
		case "query":
			r, _ := http.NewRequest("GET", "/x?"+vals.Encode(), nil)
			issues = sch.Parse(zhttp.Request(r), &d)
		default:
			os.Setenv("C03_NAME", name)
			if withInner {
				os.Setenv("C03_STREET", "Main")
				os.Setenv("C03_ZIP", "12345")
			}
			issues = sch.Parse(zenv.NewDataProvider(), &d)
			os.Unsetenv("C03_NAME")
			os.Unsetenv("C03_STREET")
			os.Unsetenv("C03_ZIP")
		}
		c.Eval(1)
		if issues != nil || d.Name != strings.TrimSpace(name) || d.Addr != nil {
			c.Violation("destination-is-not-documented-coercion|optional-nested-struct-from-a-flat-source", map[string]any{"front_end": front, "parameters": vals.Encode(),
				"schema": "{name: String(), addr: Ptr(Struct{street: String(), zip: Int()})}", "destination": fmt.Sprintf("Name=%q Addr=%+v", d.Name, d.Addr), "issues": fmt.Sprint(z.Issues.SanitizeMap(issues))})
			return false
		}
	}
	c.Count("flat_optional_struct_parses", 3)
	return true
}

func c03Random(c *core.Ctx) {
	if c.Case%50 == 1 && !c03JSONRequest(c) {
		return
	}
	if c.Case%50 == 2 && !c03FlatOptionalStruct(c) {
		return
	}
	if c.Case%100 == 0 {
		if sig, det := sameNamedTypesCheck(c.R); sig != "" {
			c.Violation(sig, det)
			return
		}
		c.Eval(48)
		c.Count("same_named_destination_type_rounds", 1)
	}
	o := gen.DefaultOpts()
	o.Coercers = true
	o.CatchPct = 10
	o.DefaultPct = 20
	o.Share = c.R.Intn(4) == 0
	o.MaxDepth = 4
	switch c.R.Intn(8) {
	case 0:
		o.TopKinds = []spec.Kind{spec.Slice}
	case 1:
		o.TopKinds = []spec.Kind{spec.Ptr}
	}
	n := gen.Schema(c.R, o)
	for k := 0; k < 8; k++ {
		data := gen.ParseInput(c.R, n, gen.InOpts{ValidPct: 85, AbsentPct: 10, WrongPct: 1, AltRep: true, Decoys: true})
		if !c03Compare(c, n, n, data, c.R.Intn(3) != 0, "random schema", noWrap) {
			return
		}
	}
	if c.WantSample() && c.Case%97 == 0 {
		c.Sample(map[string]any{"cell": "random schema", "schema": n.Source()})
	}
}
