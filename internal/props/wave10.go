package props

import (
	"encoding/json"
	"errors"
	"fmt"
	"math/big"
	"net/http"
	"net/url"
	"reflect"
	"sort"
	"strings"
	"time"

	z "github.com/Oudwins/zog"
	"github.com/Oudwins/zog/parsers/zjson"
	"github.com/Oudwins/zog/zhttp"

	"zogverif/internal/core"
)

// Directed scenarios added after the tenth wave of seeded changes (DESIGN.md §8): statically typed schemas and inputs the
// generated workloads do not produce. Each scenario returns ("", nil) when the real code behaves as the property says, otherwise
// the violation class and what was observed. They only add to what a monitor checks: w10(c, id) is called from RunCase of the
// monitor of property id on a few case numbers.

type w10Scenario func() (string, map[string]any)

func w10(c *core.Ctx, id string) bool {
	list := w10Scenarios[id]
	for _, s := range list {
		c.Eval(1)
		if sig, det := s(); sig != "" {
			c.Violation(sig, det)
			return false
		}
	}
	c.Count("wave10_directed_scenarios", len(list))
	return true
}

func w10Keys(m z.ZogIssueMap) string {
	keys := []string{}
	for k := range m {
		if k != "$first" {
			keys = append(keys, k)
		}
	}
	sort.Strings(keys)
	return strings.Join(keys, " ")
}

func w10List(l z.ZogIssueList) string {
	out := []string{}
	for _, i := range l {
		out = append(out, fmt.Sprintf("%s@%q:%q", i.Code, i.Path, i.Message))
	}
	return strings.Join(out, " | ")
}

type w10Label struct{ Names []string }
type w10Item struct {
	ID   int
	Meta any
}
type w10Shape interface{ Sides() int }
type w10Poly int

func (p w10Poly) Sides() int { return int(p) }

type w10JSONUser struct {
	Name string `json:"full_name"`
}

var w10Scenarios = map[string][]w10Scenario{
	"C02": {
		// whole unix seconds that no time can be built from are un-coercible: exactly one coerce issue
		func() (string, map[string]any) {
			for _, v := range []float64{float64(1<<62) * 1.5, -9223372036854775808.0, 9223372036854775808.0, float64(1<<62) + 1024, -float64(1<<62) - 2048} {
				var t time.Time
				l := z.Time().Parse(v, &t)
				if len(l) != 1 || l[0].Code != "coerce" {
					return "missing-or-wrong-issue|time-from-unix-seconds-out-of-range", map[string]any{"schema": "Time()", "input": fmt.Sprintf("float64 %v", v), "issues": w10List(l), "destination": t.String(), "want": "one coerce issue"}
				}
			}
			return "", nil
		},
	},
	"C03": {
		// a string is read with the layout given with Time.Format, also when the layout has digits only
		func() (string, map[string]any) {
			for _, lc := range [][2]string{{"20060102", "20240131"}, {"2006", "1999"}, {"150405", "235958"}, {"20060102150405", "20240131235958"}} {
				var d struct{ T time.Time }
				m := z.Struct(z.Schema{"t": z.Time(z.Time.Format(lc[0]))}).Parse(map[string]any{"t": lc[1]}, &d)
				want, _ := time.Parse(lc[0], lc[1])
				if len(m) != 0 || !d.T.Equal(want) {
					return "destination-differs-from-documented-coercion|time-layout-of-digits", map[string]any{"schema": "Time(Time.Format(" + lc[0] + "))", "input": lc[1], "destination": d.T.String(), "want": want.String(), "issues": w10Keys(m)}
				}
			}
			var t time.Time
			if l := z.Time().Parse("1700000000", &t); len(l) != 1 || l[0].Code != "coerce" || !t.IsZero() {
				return "destination-differs-from-documented-coercion|text-that-is-not-in-the-layout", map[string]any{"schema": "Time() (RFC3339)", "input": `"1700000000" (a string)`, "destination": t.String(), "issues": w10List(l), "want": "one coerce issue: the string is not in the layout"}
			}
			return "", nil
		},
		// any value that is not a string becomes its %v text
		func() (string, map[string]any) {
			for _, in := range []any{[]byte("hi"), []byte{}, []uint8{32, 9}, json.RawMessage(`{"a":1}`), [2]byte{1, 2}, []rune("hé")} {
				var s string
				l := z.String().Parse(in, &s)
				var d struct{ V string }
				m := z.Struct(z.Schema{"v": z.String()}).Parse(map[string]any{"v": in}, &d)
				want := fmt.Sprintf("%v", in)
				if len(l) != 0 || s != want || len(m) != 0 || d.V != want {
					return "destination-differs-from-documented-coercion|string-of-a-byte-list", map[string]any{"schema": "String()", "input": fmt.Sprintf("%T %v", in, in), "destination": s, "as_a_field": d.V, "want": want, "issues": w10List(l) + " " + w10Keys(m)}
				}
			}
			return "", nil
		},
	},
	"C04": {
		// a list is present whatever its items are: bytes that happen to be white space code points are items, not blank text
		func() (string, map[string]any) {
			for _, in := range [][]uint8{{32, 9}, {}, {10, 13, 32}, {0x20}} {
				var dest []string
				m := z.Slice(z.String()).Required().Parse(in, &dest)
				want := []string{}
				for _, b := range in {
					want = append(want, fmt.Sprint(b))
				}
				if len(m) != 0 || dest == nil || !reflect.DeepEqual(dest, want) {
					return "present-value-treated-as-absent|list-of-bytes", map[string]any{"schema": "Slice(String()).Required()", "input": fmt.Sprintf("[]uint8%v", in), "issues": w10Keys(m), "destination": fmt.Sprintf("%#v", dest), "want": fmt.Sprintf("%#v, no issue", want)}
				}
				var d struct{ Codes []string }
				d.Codes = []string{"prefilled"}
				m = z.Struct(z.Schema{"codes": z.Slice(z.String())}).Parse(map[string]any{"codes": in}, &d)
				if len(m) != 0 || !reflect.DeepEqual(d.Codes, want) {
					return "present-value-treated-as-absent|list-of-bytes", map[string]any{"schema": "{codes: Slice(String())} (optional)", "input": fmt.Sprintf("[]uint8%v", in), "issues": w10Keys(m), "destination": fmt.Sprintf("%#v", d.Codes), "want": fmt.Sprintf("%#v", want)}
				}
			}
			return "", nil
		},
	},
	"C05": {
		// nothing fails on the node (present, coercible, tests pass): the destination is the parsed and transformed value, never the
		// Catch value - also when a PostTransform reports an issue itself on the catching node
		func() (string, map[string]any) {
			mk := func() *z.StringSchema[string] {
				return z.String().Min(2).Catch("fallback").PostTransform(func(p any, ctx z.Ctx) error {
					s := p.(*string)
					*s = strings.ToUpper(*s) + "!"
					ctx.AddIssue(ctx.Issue().SetMessage("reported by the transform itself"))
					return nil
				})
			}
			var s string
			l := mk().Parse("hey", &s)
			v := "hey"
			lv := mk().Validate(&v)
			var d struct{ A string }
			m := z.Struct(z.Schema{"a": mk()}).Parse(map[string]any{"a": "hey"}, &d)
			if s != "HEY!" || v != "HEY!" || d.A != "HEY!" {
				return "catch-value-without-a-failure|self-reporting-transform", map[string]any{"schema": `String().Min(2).Catch("fallback").PostTransform(upper-cases, calls ctx.AddIssue, returns nil)`, "input": "hey", "parse": s, "validate": v, "field": d.A, "issues": w10List(l) + " / " + w10List(lv) + " / " + w10Keys(m), "want": "HEY!"}
			}
			return "", nil
		},
	},
	"C06": {
		// a failed test is an issue, whatever the (valid) options of the test are
		func() (string, map[string]any) {
			launch := time.Date(2024, 5, 1, 0, 0, 0, 0, time.UTC)
			type tc struct {
				name string
				run  func() z.ZogIssueList
			}
			var t time.Time
			cases := []tc{
				{"Time().After(t, Params{after: text})", func() z.ZogIssueList {
					return z.Time().After(launch, z.Params(map[string]any{"after": "the launch date"})).Parse("2023-01-01T00:00:00Z", &t)
				}},
				{"Time().Before(t, Params{before: 7})", func() z.ZogIssueList {
					return z.Time().Before(launch, z.Params(map[string]any{"before": 7})).Parse("2025-01-01T00:00:00Z", &t)
				}},
				{"Time().EQ(t, Params{eq: nil})", func() z.ZogIssueList {
					return z.Time().EQ(launch, z.Params(map[string]any{"eq": nil})).Parse("2025-01-01T00:00:00Z", &t)
				}},
				{"Time().TestFunc(fn, IssueCode(after))", func() z.ZogIssueList {
					return z.Time().TestFunc(func(any, z.Ctx) bool { return false }, z.IssueCode("after"), z.Params(map[string]any{"after": []int{1}})).Parse("2025-01-01T00:00:00Z", &t)
				}},
			}
			for _, k := range cases {
				var l z.ZogIssueList
				var pan any
				func() {
					defer func() { pan = recover() }()
					l = k.run()
				}()
				if pan != nil || len(l) != 1 {
					return "panic|test-options", map[string]any{"schema": k.name, "input": "a time that fails the test", "panic": fmt.Sprint(pan), "issues": w10List(l), "want": "one issue"}
				}
			}
			return "", nil
		},
	},
	"C07": {
		// what an issue prints as is what it holds now, whatever a recycled issue printed in an earlier call
		func() (string, map[string]any) {
			for round := 0; round < 30; round++ {
				var s string
				l := z.String().Min(5 + round).Parse("ab", &s)
				for _, i := range l {
					_ = i.Error()
					_ = fmt.Sprint(i)
				}
				z.Issues.CollectList(l)
				var d struct{ N int }
				m := z.Struct(z.Schema{"n": z.Int().Required()}).Parse(map[string]any{"n": "x"}, &d)
				for _, i := range m["n"] {
					_ = i.String()
				}
				z.Issues.CollectMap(m)
				var n int
				l2 := z.Int().LT(3).Parse(fmt.Sprint(10+round), &n)
				l3 := z.Int().Parse("not a number", &n)
				var b bool
				l4 := z.Bool().Required().Parse(nil, &b)
				for _, ll := range []z.ZogIssueList{l2, l3, l4} {
					for _, i := range ll {
						fresh := &z.ZogIssue{Code: i.Code, Path: i.Path, Value: i.Value, Dtype: i.Dtype, Params: i.Params, Message: i.Message, Err: i.Err}
						if i.String() != fresh.String() || i.Error() != fresh.Error() {
							return "result-depends-on-history|printed-form-of-a-recycled-issue", map[string]any{"history": "String().Min(n).Parse(ab) printed and collected, {n: Int().Required()}.Parse({n: x}) printed and collected", "call": "Int().LT(3) / Int() / Bool().Required()", "issue_prints_as": i.String(), "an_issue_with_the_same_fields_prints_as": fresh.String()}
						}
					}
					z.Issues.CollectList(ll)
				}
			}
			return "", nil
		},
		// the source tag of an earlier execution is not the tag of a later one, whatever kind of schema starts it
		func() (string, map[string]any) {
			schema := z.Preprocess(func(in string, ctx z.Ctx) (w10JSONUser, error) {
				return w10JSONUser{Name: strings.TrimSpace(in)}, nil
			}, z.Struct(z.Schema{"Name": z.String().Required()}))
			probe := func() string {
				var d w10JSONUser
				l := schema.Parse(" zog ", &d)
				return fmt.Sprintf("%+v %s", d, w10List(l))
			}
			want := probe()
			for i := 0; i < 40; i++ {
				var u w10JSONUser
				z.Struct(z.Schema{"name": z.String().Required()}).Parse(zjson.Decode(strings.NewReader(`{"full_name":"json"}`)), &u)
				var q struct {
					Name string `query:"full_name"`
				}
				r, _ := http.NewRequest("GET", "/x?full_name=q", nil)
				if i%2 == 1 {
					z.Struct(z.Schema{"name": z.String().Required()}).Parse(zhttp.Request(r), &q)
				}
				if got := probe(); got != want {
					return "result-depends-on-history|source-tag-of-an-earlier-execution", map[string]any{"history": "a struct parsed from a JSON document / a query string", "call": "Preprocess(func(string) User, Struct{Name: String().Required()}).Parse(\" zog \") with `json:\"full_name\"` on the field", "result": got, "result_without_history": want}
				}
			}
			return "", nil
		},
	},
	"C09": {
		// Validate: a Preprocess field and a sibling that both fail
		func() (string, map[string]any) {
			type doc struct {
				Name string
				Age  int
				Tags []string
			}
			sch := z.Struct(z.Schema{
				"name": z.Preprocess(func(s *string, ctx z.Ctx) (string, error) { return strings.TrimSpace(*s), nil }, z.String().Min(5)),
				"age":  z.Int().GT(18),
				"tags": z.Preprocess(func(s *[]string, ctx z.Ctx) ([]string, error) { return *s, nil }, z.Slice(z.String()).Min(2)),
			})
			seen := map[string]int{}
			for i := 0; i < 300; i++ {
				v := doc{Name: " ab ", Age: 3, Tags: []string{"x"}}
				m := sch.Validate(&v)
				seen[w10Keys(m)+fmt.Sprintf(" -> %+v", v)]++
			}
			if _, both := seen["age name tags -> {Name:ab Age:3 Tags:[x]}"]; len(seen) != 1 || !both {
				return "result-depends-on-field-order|Validate|preprocess-next-to-a-failing-sibling", map[string]any{"schema": "{name: Preprocess(trim, String().Min(5)), age: Int().GT(18), tags: Preprocess(id, Slice(String()).Min(2))}", "value": `{Name: " ab ", Age: 3, Tags: [x]}`, "distinct_outcomes_over_300_runs": fmt.Sprint(seen)}
			}
			return "", nil
		},
		// a JSON document with members whose names differ only by padding
		func() (string, map[string]any) {
			type doc struct {
				Name string `json:"name"`
				N    int    `json:"n"`
			}
			for _, body := range []string{`{" name":"alice","name ":"x","n":1}`, `{"name ":"alice"," name":"bob","\tname":"carol","n ":2," n":3}`, `{"o":{" k":1,"k ":2}," name ":"zed"}`} {
				seen := map[string]int{}
				for i := 0; i < 300; i++ {
					var d doc
					m := z.Struct(z.Schema{"name": z.String().Min(3), "n": z.Int()}).Parse(zjson.Decode(strings.NewReader(body)), &d)
					seen[w10Keys(m)+fmt.Sprintf(" -> %+v", d)]++
				}
				if len(seen) != 1 {
					return "result-depends-on-map-order|json-member-names", map[string]any{"schema": "{name: String().Min(3), n: Int()}", "json_document": body, "distinct_outcomes_over_300_runs": fmt.Sprint(seen)}
				}
			}
			return "", nil
		},
	},
	"C10": {
		// IssuePath replaces the path, whatever it starts with and however deep the node is
		func() (string, map[string]any) {
			type note struct {
				Note string
			}
			type doc struct {
				Lines []string
				Notes []note
				Inner struct{ Lines []string }
			}
			sch := z.Struct(z.Schema{
				"lines": z.Slice(z.String()).Min(2, z.IssuePath("[0]")),
				"notes": z.Slice(z.Struct(z.Schema{"note": z.String().Required(z.IssuePath("[1].note"))})),
				"inner": z.Struct(z.Schema{"lines": z.Slice(z.String().Min(3, z.IssuePath("[7]"))).Max(1, z.IssuePath("[x]"))}),
			})
			var d doc
			m := sch.Parse(map[string]any{"lines": []any{"a"}, "notes": []any{map[string]any{}}, "inner": map[string]any{"lines": []any{"ab", "cde"}}}, &d)
			want := "[0] [1].note [7] [x]"
			ok := w10Keys(m) == want
			for k, l := range m {
				for _, i := range l {
					if k != "$first" && i.Path != k {
						ok = false
					}
				}
			}
			v := doc{Lines: []string{"a"}, Notes: []note{{}}}
			v.Inner.Lines = []string{"ab", "cde"}
			mv := sch.Validate(&v)
			if !ok || w10Keys(mv) != want {
				return "issue-not-addressed-by-its-path|IssuePath-starting-with-an-index", map[string]any{"schema": `{lines: Slice(String()).Min(2, IssuePath("[0]")), notes: Slice(Struct{note: Required(IssuePath("[1].note"))}), inner: {lines: Slice(String().Min(3, IssuePath("[7]"))).Max(1, IssuePath("[x]"))}}`, "parse_keys": w10Keys(m), "validate_keys": w10Keys(mv), "want": want}
			}
			return "", nil
		},
		// the key of a field is its tag, to the letter: `tags[]` is a name like any other
		func() (string, map[string]any) {
			type filter struct {
				Tags  []string `form:"tags[]" query:"tag[]"`
				Owner string   `form:"owner" query:"owner"`
			}
			sch := z.Struct(z.Schema{"tags": z.Slice(z.String().Min(3)).Max(2), "owner": z.String().Required()})
			body := url.Values{"tags[]": {"okay", "x", "yy"}}.Encode()
			r, _ := http.NewRequest("POST", "http://example.com/items", strings.NewReader(body))
			r.Header.Set("Content-Type", "application/x-www-form-urlencoded")
			var f filter
			m := sch.Parse(zhttp.Request(r), &f)
			r2, _ := http.NewRequest("GET", "http://example.com/items?"+url.Values{"tag[]": {"a", "long enough"}}.Encode(), nil)
			var f2 filter
			m2 := sch.Parse(zhttp.Request(r2), &f2)
			ok := w10Keys(m) == "owner tags[] tags[][1] tags[][2]" && w10Keys(m2) == "owner tag[][0]"
			for _, mm := range []z.ZogIssueMap{m, m2} {
				for k, l := range mm {
					for _, i := range l {
						if k != "$first" && i.Path != k {
							ok = false
						}
					}
				}
			}
			if !ok {
				return "issue-key-is-not-the-tag-of-the-field|form-and-query", map[string]any{"destination": "struct{Tags []string `form:\"tags[]\" query:\"tag[]\"`; Owner string}", "form_keys": w10Keys(m), "query_keys": w10Keys(m2), "want": "owner tags[] tags[][1] tags[][2] / owner tag[][0]"}
			}
			return "", nil
		},
	},
	"C12": {
		// the error a callback returns is the error the issue wraps, whatever kind of error it is
		func() (string, map[string]any) {
			boom := errors.New("boom")
			joined := errors.Join(nil, boom, nil)
			joinedIssue := errors.Join(&z.ZogIssue{Code: "inner", Path: "elsewhere", Message: "m"})
			wrapped := fmt.Errorf("ctx: %w", boom)
			for name, e := range map[string]error{"errors.Join(nil, boom, nil)": joined, "errors.Join(&ZogIssue{Path: elsewhere})": joinedIssue, "fmt.Errorf(%w)": wrapped} {
				e := e
				var s string
				l := z.String().PostTransform(func(any, z.Ctx) error { return e }).Parse("x", &s)
				var d struct{ A string }
				m := z.Struct(z.Schema{"a": z.String().PostTransform(func(any, z.Ctx) error { return e })}).Parse(map[string]any{"a": "x"}, &d)
				v := "x"
				lv := z.String().PostTransform(func(any, z.Ctx) error { return e }).Validate(&v)
				if len(l) != 1 || l[0].Err != e || len(m["a"]) != 1 || m["a"][0].Err != e || m["a"][0].Path != "a" || len(lv) != 1 || lv[0].Err != e {
					return "transform-error-not-wrapped-at-the-node|kind-of-error", map[string]any{"returned_error": name, "parse": w10List(l), "field_keys": w10Keys(m), "validate": w10List(lv), "want": "one issue at the node's path whose Err is the returned error"}
				}
			}
			return "", nil
		},
		// a custom schema at the root sees the context values of its call in both modes
		func() (string, map[string]any) {
			var seen []any
			sch := z.CustomFunc(func(p *int, ctx z.Ctx) bool { seen = append(seen, ctx.Get("tenant")); return true })
			var n int
			sch.Parse(5, &n, z.WithCtxValue("tenant", "acme-parse"))
			v := 6
			sch.Validate(&v, z.WithCtxValue("tenant", "acme-validate"))
			var seenFmt []string
			f := z.WithIssueFormatter(func(e *z.ZogIssue, ctx z.Ctx) { seenFmt = append(seenFmt, "fmt"); e.SetMessage("custom formatter") })
			bad := z.CustomFunc(func(p *int, ctx z.Ctx) bool { return false })
			lp := bad.Parse(5, &n, f)
			lv := bad.Validate(&v, f)
			if fmt.Sprint(seen) != "[acme-parse acme-validate]" || len(lp) != 1 || len(lv) != 1 || lp[0].Message != "custom formatter" || lv[0].Message != "custom formatter" {
				return "callback-context-values|custom-schema-at-the-root", map[string]any{"schema": "CustomFunc[int] as the root of Parse and of Validate with WithCtxValue(tenant) / WithIssueFormatter", "function_saw": fmt.Sprint(seen), "parse": w10List(lp), "validate": w10List(lv)}
			}
			return "", nil
		},
	},
	"C13": {
		// a catching node whose PostTransform reports an issue itself
		func() (string, map[string]any) {
			mk := func() *z.StructSchema {
				return z.Struct(z.Schema{"name": z.String().Catch("c").PostTransform(func(p any, ctx z.Ctx) error {
					ctx.AddIssue(ctx.Issue().SetCode("too_long").SetMessage("reported by the transform"))
					return nil
				}), "n": z.Int().Catch(1).PostTransform(func(p any, ctx z.Ctx) error { return errors.New("returned") })})
			}
			type doc struct {
				Name string
				N    int
			}
			var d doc
			mp := mk().Parse(map[string]any{"name": "okay", "n": 4}, &d)
			v := doc{Name: "okay", N: 4}
			mv := mk().Validate(&v)
			if w10Keys(mp) != w10Keys(mv) || (len(mp) == 0 && d != v) {
				return "modes-disagree|self-reporting-transform-on-a-catching-node", map[string]any{"schema": `{name: String().Catch("c").PostTransform(calls ctx.AddIssue, returns nil), n: Int().Catch(1).PostTransform(returns an error)}`, "parse": w10Keys(mp) + fmt.Sprintf(" %+v", d), "validate": w10Keys(mv) + fmt.Sprintf(" %+v", v)}
			}
			return "", nil
		},
		// a key with a dot in it is a key
		func() (string, map[string]any) {
			type address struct {
				City string `zog:"city"`
			}
			type doc struct {
				Address address `zog:"address"`
				Label   string  `zog:"address.city"`
			}
			sch := z.Struct(z.Schema{"address": z.Struct(z.Schema{"city": z.String().Required()}), "label": z.String().OneOf([]string{"home", "work"})})
			v := doc{Address: address{City: "Paris"}, Label: "home"}
			mv := sch.Validate(&v)
			var d doc
			mp := sch.Parse(map[string]any{"address": map[string]any{"city": "Paris"}, "address.city": "home"}, &d)
			if w10Keys(mv) != w10Keys(mp) || d != v {
				return "modes-disagree|dotted-key", map[string]any{"destination": "struct{Address struct{City `zog:\"city\"`} `zog:\"address\"`; Label string `zog:\"address.city\"`}", "parse": w10Keys(mp) + fmt.Sprintf(" %+v", d), "validate": w10Keys(mv) + fmt.Sprintf(" %+v", v)}
			}
			return "", nil
		},
	},
	"C14": {
		// a whole number in a string leaf: the same record as a Go map (int) and as a JSON document
		func() (string, map[string]any) {
			type rec struct {
				Code string `json:"code"`
				Zip  string `json:"zip"`
			}
			var narrowSig string
			var narrowDet map[string]any
			for _, n := range []int{7, 123, 999999, 12345678, 20240131, 1700000000, -31536000, 9007199254740993} {
				var viaMap, viaJSON, viaBody rec
				sch := z.Struct(z.Schema{"code": z.String().Min(1), "zip": z.String()})
				mm := sch.Parse(map[string]any{"code": n, "zip": "z"}, &viaMap)
				doc := fmt.Sprintf(`{"code": %d, "zip": "z"}`, n)
				mj := sch.Parse(zjson.Decode(strings.NewReader(doc)), &viaJSON)
				r, _ := http.NewRequest("POST", "/x", strings.NewReader(doc))
				r.Header.Set("Content-Type", "application/json")
				mb := sch.Parse(zhttp.Request(r), &viaBody)
				if len(mm) != 0 || len(mj) != 0 || len(mb) != 0 || viaMap != viaJSON || viaMap != viaBody {
					sig := "front-end-destination-differs|json|whole-number-in-a-string-leaf"
					if len(mm) == 0 && len(mj) == 0 && len(mb) == 0 && viaJSON == viaBody && viaJSON.Zip == "z" && viaMap.Code == fmt.Sprint(n) && viaJSON.Code == fmt.Sprintf("%v", float64(n)) && strings.Contains(viaJSON.Code, "e+") {
						// narrow class: exactly the %v text of the float64 the JSON decoder stores the literal in, in exponent notation
						sig = "front-end-destination-differs|json|whole-number-of-7-or-more-digits-in-a-string-leaf-printed-in-exponent-notation"
					}
					det := map[string]any{"schema": "{code: String().Min(1), zip: String()}", "record": fmt.Sprintf("{code: %d, zip: z}", n), "go_map": fmt.Sprintf("%+v %s", viaMap, w10Keys(mm)), "json_document": fmt.Sprintf("%+v %s", viaJSON, w10Keys(mj)), "zhttp_json_body": fmt.Sprintf("%+v %s", viaBody, w10Keys(mb))}
					if !strings.HasSuffix(sig, "exponent-notation") {
						return sig, det
					}
					narrowSig, narrowDet = sig, det // every value is looked at: anything outside the narrow class is reported first
				}
			}
			return narrowSig, narrowDet
		},
	},
	"C16": {
		// a name the base has no field for selects nothing: the derived schema behaves like the one written out by hand
		func() (string, map[string]any) {
			type user struct {
				Name  string
				Age   int
				Ghost string
			}
			base := func() *z.StructSchema {
				return z.Struct(z.Schema{"name": z.String().Min(3), "age": z.Int().GT(0)})
			}
			byHand := func() *z.StructSchema { return z.Struct(z.Schema{"name": z.String().Min(3)}) }
			withGhost := func() *z.StructSchema {
				return z.Struct(z.Schema{"ghost": z.String().Required(), "name": z.String().Min(3)})
			}
			derived := map[string]func() *z.StructSchema{
				`base.Pick("name", "ghost")`:                    func() *z.StructSchema { return base().Pick("name", "ghost") },
				`base.Pick(map{name: true, ghost: true})`:       func() *z.StructSchema { return base().Pick(map[string]bool{"name": true, "ghost": true, "age": false}) },
				`base.Omit("age", "ghost")`:                     func() *z.StructSchema { return base().Omit("age", "ghost") },
				`base.Pick("name", "ghost").Omit("ghost")`:      func() *z.StructSchema { return base().Pick("name", "ghost").Omit("ghost") },
				`base.Pick("name").Merge(base.Pick("missing"))`: func() *z.StructSchema { return base().Pick("name").Merge(base().Pick("missing")) },
			}
			run := func(sch *z.StructSchema, data map[string]any) (out string) {
				defer func() {
					if r := recover(); r != nil {
						out = fmt.Sprint("PANIC: ", r)
					}
				}()
				u := user{Age: -5, Ghost: "untouched"}
				m := sch.Parse(data, &u)
				v := user{Name: fmt.Sprint(data["name"]), Age: -5, Ghost: "untouched"}
				mv := sch.Validate(&v)
				return fmt.Sprintf("parse %+v [%s] validate %+v [%s]", u, w10Keys(m), v, w10Keys(mv))
			}
			for _, data := range []map[string]any{{"name": "alice", "age": 3, "ghost": "g"}, {"name": "al"}, {"name": "bob", "ghost": ""}} {
				want := run(byHand(), data)
				for name, mk := range derived {
					if got := run(mk(), data); got != want {
						return "derived-schema-differs-from-hand-written|name-the-base-has-no-field-for", map[string]any{"base": "{name: String().Min(3), age: Int().GT(0)}", "derived": name, "input": fmt.Sprint(data), "derived_result": got, "hand_written_result": want}
					}
				}
				wantG := run(withGhost(), data)
				if got := run(withGhost().Merge(base().Pick("ghost")), data); got != wantG {
					return "derived-schema-differs-from-hand-written|name-the-base-has-no-field-for", map[string]any{"base": "{name: String().Min(3), age: Int().GT(0)}", "derived": `{ghost: String().Required(), name}.Merge(base.Pick("ghost"))`, "input": fmt.Sprint(data), "derived_result": got, "hand_written_result": wantG}
				}
			}
			return "", nil
		},
	},
	"C17": {
		// the parameters of a test belong to that test: what a MessageFunc writes into the issue of one test never shows on another schema
		func() (string, map[string]any) {
			for _, n := range []int{3, 7} {
				loud := z.String().Min(n, z.MessageFunc(func(e *z.ZogIssue, ctx z.Ctx) {
					e.Params["min"] = 99
					e.Params["hint"] = "edited"
					e.SetMessage("loud")
				})).Max(n+20, z.MessageFunc(func(e *z.ZogIssue, ctx z.Ctx) { e.Params["max"] = -1 })).Len(n+1, z.MessageFunc(func(e *z.ZogIssue, ctx z.Ctx) { e.Params["len"] = -1 }))
				var s string
				loud.Parse("a", &s)
				loud.Parse(strings.Repeat("x", 40), &s)
				quiet := z.String().Min(n)
				l := quiet.Parse("a", &s)
				l2 := z.String().Max(n + 20).Parse(strings.Repeat("x", 40), &s)
				l3 := z.String().Len(n + 1).Parse("a", &s)
				if len(l) != 1 || fmt.Sprint(l[0].Params) != fmt.Sprintf("map[min:%d]", n) || !strings.Contains(l[0].Message, fmt.Sprint(n)) ||
					len(l2) != 1 || fmt.Sprint(l2[0].Params) != fmt.Sprintf("map[max:%d]", n+20) || len(l3) != 1 || fmt.Sprint(l3[0].Params) != fmt.Sprintf("map[len:%d]", n+1) {
					return "option-leaks-to-another-schema|params-of-length-tests", map[string]any{"first_schema": fmt.Sprintf("String().Min(%d, MessageFunc(writes e.Params)).Max(..).Len(..), failed once", n), "second_schema": fmt.Sprintf("String().Min(%d) / Max(%d) / Len(%d)", n, n+20, n+1), "issues_of_the_second": w10List(l) + fmt.Sprint(l[0].Params) + " " + w10List(l2) + " " + w10List(l3)}
				}
			}
			return "", nil
		},
		// the last message option of a call wins, also when it is the empty message
		func() (string, map[string]any) {
			shout := z.MessageFunc(func(e *z.ZogIssue, ctx z.Ctx) { e.SetMessage("FROM MESSAGEFUNC") })
			var s string
			ref := z.String().Min(5).Parse("abc", &s)
			got := z.String().Min(5, shout, z.Message("")).Parse("abc", &s)
			got2 := z.String().Min(5, z.Message("first"), z.Message("")).Parse("abc", &s)
			var n int
			refN := z.Int().Required().Parse(nil, &n)
			gotN := z.Int().Required(shout, z.Message("")).Parse(nil, &n)
			if len(ref) != 1 || len(got) != 1 || len(got2) != 1 || got[0].Message != ref[0].Message || got2[0].Message != ref[0].Message || len(refN) != 1 || len(gotN) != 1 || gotN[0].Message != refN[0].Message {
				return "last-option-does-not-win|empty-message", map[string]any{"schema": `String().Min(5, MessageFunc(f), Message("")) / Min(5, Message("first"), Message("")) / Int().Required(MessageFunc(f), Message(""))`, "messages": w10List(got) + " / " + w10List(got2) + " / " + w10List(gotN), "want": w10List(ref) + " / " + w10List(refN)}
			}
			return "", nil
		},
	},
	"C18": {
		// integer literals of a JSON document after string members that end in a backslash or hold quotes
		func() (string, map[string]any) {
			for _, pre := range []string{`"dir":"C:\\",`, `"q":"say \"hi\\\"",`, `"a\\":"\\\\",`, `"s":"1234567890123456",`} {
				for _, lit := range []string{"9007199254740993", "-9007199254740993", "1152921504606846977", "9223372036854775807", "123456789012345678"} {
					doc := `{` + pre + `"id":` + lit + `}`
					var d struct {
						Id int64 `json:"id"`
					}
					m := z.Struct(z.Schema{"id": z.Int64()}).Parse(zjson.Decode(strings.NewReader(doc)), &d)
					if len(m) == 0 && fmt.Sprint(d.Id) != lit {
						return "number-silently-changed|json-integer-literal-after-a-string-member", map[string]any{"json_document": doc, "destination_type": "Int64", "sent": lit, "stored": d.Id}
					}
					if len(m) != 0 {
						return "number-silently-changed-or-wrongly-rejected|json-integer-literal-after-a-string-member", map[string]any{"json_document": doc, "issues": w10Keys(m)}
					}
				}
			}
			return "", nil
		},
		// json.Number inputs (a document the caller decoded with UseNumber): refused, or stored exactly
		func() (string, map[string]any) {
			for _, lit := range []string{"5", "-7", "9007199254740993", "9223372036854775807", "9223372036854775808", "-9223372036854775809", "18446744073709551616", "1e19", "-1e19", "1.5e300", "1e3", "12.0", "4294967296", "-2147483649", "2147483648e0"} {
				exact, ok := new(big.Rat).SetString(lit)
				if !ok || !exact.IsInt() {
					continue
				}
				for _, kind := range []string{"Int", "Int64", "Int32"} {
					var got int64
					var l z.ZogIssueList
					var pan any
					func() {
						defer func() { pan = recover() }()
						switch kind {
						case "Int":
							var d int
							l = z.Int().Parse(json.Number(lit), &d)
							got = int64(d)
						case "Int64":
							var d int64
							l = z.Int64().Parse(json.Number(lit), &d)
							got = d
						default:
							var d int32
							l = z.Int32().Parse(json.Number(lit), &d)
							got = int64(d)
						}
					}()
					if pan != nil {
						return "panic|json-number-input", map[string]any{"schema": kind + "()", "input": "json.Number " + lit, "panic": fmt.Sprint(pan)}
					}
					if len(l) == 0 && new(big.Rat).SetInt64(got).Cmp(exact) != 0 {
						return "number-silently-changed|json-number-input", map[string]any{"schema": kind + "()", "input": "json.Number " + lit, "destination": got, "issues": 0}
					}
				}
			}
			return "", nil
		},
	},
	"C19": {
		// the default is copied with everything it owns, also what sits in a struct boxed in an interface
		func() (string, map[string]any) {
			newDefault := func() []w10Item {
				return []w10Item{{ID: 1, Meta: w10Label{Names: []string{"a", "b"}}}, {ID: 2, Meta: [1][]string{{"arr"}}}}
			}
			for _, mode := range []string{"Validate", "Parse"} {
				def := newDefault()
				var seen []string
				edit := func(ptr any, ctx z.Ctx) error {
					d := ptr.(*[]w10Item)
					l := (*d)[0].Meta.(w10Label)
					a := (*d)[1].Meta.([1][]string)
					seen = append(seen, l.Names[0]+a[0][0])
					l.Names[0] = "changed"
					a[0][0] = "changed"
					return nil
				}
				for i := 0; i < 2; i++ {
					if mode == "Validate" {
						dest := []w10Item{}
						z.Slice(z.Struct(z.Schema{"ID": z.Int()})).Default(def).PostTransform(edit).Validate(&dest)
					} else {
						var dest []w10Item
						z.Slice(z.CustomFunc(func(p *w10Item, ctx z.Ctx) bool { return true })).Default(def).PostTransform(edit).Parse(nil, &dest)
					}
				}
				if fmt.Sprint(seen) != "[aarr aarr]" || !reflect.DeepEqual(def, newDefault()) {
					return "schema-default-modified|struct-boxed-in-an-interface|" + mode, map[string]any{"schema": "Slice(..).Default([]Item{{Meta: any(Label{Names: []string{a, b}})}, {Meta: any([1][]string{{arr}})}}).PostTransform(writes through the destination)", "transform_saw_on_two_uses": fmt.Sprint(seen), "default_afterwards": fmt.Sprintf("%+v", def)}
				}
			}
			return "", nil
		},
		// Validate changes the value only through Default, Catch and PostTransform: a Preprocess function that refuses leaves it alone
		func() (string, map[string]any) {
			type doc struct {
				Tags []string
				Name string
			}
			refuse := errors.New("refused")
			sch := z.Struct(z.Schema{
				"tags": z.Preprocess(func(s *[]string, ctx z.Ctx) ([]string, error) { return nil, refuse }, z.Slice(z.String())),
				"name": z.Preprocess(func(s *string, ctx z.Ctx) (string, error) { return "", refuse }, z.String()),
			})
			v := doc{Tags: []string{"a", "b"}, Name: "keep"}
			m := sch.Validate(&v)
			name := "keep"
			l := z.Preprocess(func(s *string, ctx z.Ctx) (string, error) { return "overwritten", refuse }, z.String()).Validate(&name)
			if !reflect.DeepEqual(v, doc{Tags: []string{"a", "b"}, Name: "keep"}) || name != "keep" || len(m["tags"]) != 1 || m["tags"][0].Err != refuse || len(m["name"]) != 1 || len(l) != 1 || l[0].Err != refuse {
				return "validate-modified-the-value|refusing-preprocess", map[string]any{"schema": "{tags: Preprocess(fn returning an error, Slice(String())), name: Preprocess(fn returning an error, String())}", "value_before": "{Tags: [a b], Name: keep}", "value_after": fmt.Sprintf("%+v / %q", v, name), "issues": w10Keys(m)}
			}
			return "", nil
		},
	},
	"C20": {
		// the predicate of a built-in test does not depend on the issue code the caller gives it
		func() (string, map[string]any) {
			var s string
			type tc struct {
				name     string
				sch      *z.StringSchema[string]
				pass, no string
			}
			for _, k := range []tc{
				{`Min(8, IssueCode("not_long_enough"))`, z.String().Min(8, z.IssueCode("not_long_enough")), "long enough yes", "short"},
				{`Email(IssueCode("not_corporate_email"))`, z.String().Email(z.IssueCode("not_corporate_email")), "a@b.co", "nope"},
				{`Len(4, IssueCode("not_four"))`, z.String().Len(4, z.IssueCode("not_four")), "four", "three"},
				{`OneOf([a b], IssueCode("not_"))`, z.String().OneOf([]string{"a", "b"}, z.IssueCode("not_")), "a", "c"},
				{`Not().Email(IssueCode("login_is_email"))`, z.String().Not().Email(z.IssueCode("login_is_email")), "nope", "a@b.co"},
				{`Not().Len(4, IssueCode("len"))`, z.String().Not().Len(4, z.IssueCode("len")), "three", "four"},
				{`HasPrefix(x, IssueCode("not_prefixed"))`, z.String().HasPrefix("x", z.IssueCode("not_prefixed")), "xy", "yx"},
			} {
				lp := k.sch.Parse(k.pass, &s)
				ln := k.sch.Parse(k.no, &s)
				v1, v2 := k.pass, k.no
				vp := k.sch.Validate(&v1)
				vn := k.sch.Validate(&v2)
				if len(lp) != 0 || len(ln) != 1 || len(vp) != 0 || len(vn) != 1 {
					return "test-decides-another-predicate|custom-issue-code", map[string]any{"schema": "String()." + k.name, "subject_that_satisfies": k.pass, "issues": len(lp) + len(vp), "subject_that_does_not": k.no, "issues_": len(ln) + len(vn)}
				}
			}
			return "", nil
		},
		// slice Contains is membership by deep equality, whatever the element type of the destination
		func() (string, map[string]any) {
			anyItem := func() z.ZogSchema { return z.CustomFunc(func(p *any, ctx z.Ctx) bool { return true }) }
			member := func(items []any, x any) bool {
				for _, it := range items {
					if reflect.DeepEqual(it, x) {
						return true
					}
				}
				return false
			}
			inputs := [][]any{{1, "a", 2.5}, {"a"}, {3, 3}, {[]int{1, 2}, "x"}, {int64(1), 1.0}}
			needles := []any{1, "a", 2.5, 3, "zz", int64(1), []int{1, 2}}
			for _, in := range inputs {
				for _, needle := range needles {
					want := member(in, needle)
					var dest []any
					m := z.Slice(anyItem()).Contains(needle).Parse(in, &dest)
					val := append([]any{}, in...)
					mv := z.Slice(anyItem()).Contains(needle).Validate(&val)
					if (len(m) == 0) != want || (len(mv) == 0) != want {
						return "test-decides-another-predicate|contains-in-a-list-of-interfaces", map[string]any{"schema": fmt.Sprintf("Slice(Custom[any]).Contains(%#v)", needle), "subject": fmt.Sprintf("%#v", in), "member_by_deep_equality": want, "parse_passed": len(m) == 0, "validate_passed": len(mv) == 0}
					}
				}
			}
			shapes := []w10Shape{w10Poly(3), w10Poly(4)}
			shapeItem := func() z.ZogSchema { return z.CustomFunc(func(p *w10Shape, ctx z.Ctx) bool { return true }) }
			a := z.Slice(shapeItem()).Contains(w10Poly(4)).Validate(&shapes)
			b := z.Slice(shapeItem()).Contains(w10Poly(5)).Validate(&shapes)
			ints := []int{1, 2, 3}
			cI := z.Slice(z.Int()).Contains(2).Validate(&ints)
			dI := z.Slice(z.Int()).Contains(int64(2)).Validate(&ints)
			if len(a) != 0 || len(b) == 0 || len(cI) != 0 || len(dI) == 0 {
				return "test-decides-another-predicate|contains-in-a-list-of-interfaces", map[string]any{"schema": "Slice(Custom[Shape]).Contains(Poly(4)) / Contains(Poly(5)) / Slice(Int()).Contains(2) / Contains(int64(2))", "subject": "[]Shape{3,4} / []int{1,2,3}", "issue_keys": w10Keys(a) + " / " + w10Keys(b) + " / " + w10Keys(cI) + " / " + w10Keys(dI)}
			}
			return "", nil
		},
	},
}
