package props

import (
	"errors"
	"fmt"
	"reflect"
	"sort"
	"strings"

	z "github.com/Oudwins/zog"
	"github.com/Oudwins/zog/conf"
	"github.com/Oudwins/zog/i18n"
	"github.com/Oudwins/zog/i18n/en"
	"github.com/Oudwins/zog/i18n/es"
	zinternals "github.com/Oudwins/zog/internals"
	"github.com/Oudwins/zog/parsers/zjson"
	"github.com/Oudwins/zog/zconst"
	"github.com/Oudwins/zog/zhttp"
	"net/http/httptest"

	"zogverif/internal/core"
	"zogverif/internal/gen"
	"zogverif/internal/obs"
	"zogverif/internal/ref"
	"zogverif/internal/rng"
	"zogverif/internal/run"
	"zogverif/internal/spec"
)

// C12: user callbacks run at the documented times with the node's own value.
type c12 struct{}

func init() { core.Register(c12{}) }

func (c12) ID() string { return "C12" }

func (c12) Info(t core.Tier) core.Info {
	return core.Info{
		Level: "exploration",
		Rule: "each case = one generated schema in which EVERY node (primitive, slice, struct, custom, preprocess; at any depth: struct in slice, struct behind pointer, slice in struct in slice ...) carries recording TestFuncs / Test(z.TestFunc) and two recording PostTransforms, x 5 inputs x {Parse, Validate}, each call with a random subset of WithCtxValue keys carrying call-unique values. " +
			"recorders store argument type, nil-ness, a deep copy of the pointee, the argument's address, ctx.Get for the whole key universe, ctx.HasErrored() and a sequence number. oracle: test callbacks == reference events (node, value); struct/slice/custom tests and all PostTransforms get a non-nil pointer of the node's pointer type that points INTO the destination (address belongs to the destination's address set); " +
			"ctx.Get == exactly this call's values; PostTransforms saw HasErrored()==false, ran in declaration order, at most once per visit, and exactly once per visited node on a globally successful run. " +
			"plus error scenarios: one PostTransform returns an error / a ZogIssue (first or second of its node): exactly one issue at the node's path wrapping it, the node's remaining PostTransforms silent; Preprocess error / type mismatch: one issue, wrapped schema's callbacks silent. " +
			"non-trivial: >= 1 callback below a slice or pointer, or an error scenario; distinct by (schema, input, mode, scenario).",
		Assumptions: commonAssumptions,
		MinDistinct: 50,
	}
}

func (c12) NumCases(t core.Tier) int { return tierN(t, 20000, 1200000) }

type cbEvent struct {
	kind    string // test | post | pre
	node    *spec.Node
	uid     int
	argType reflect.Type
	isNil   bool
	val     any // tree copy of the value (pointee for pointers)
	addr    uintptr
	ctxVals map[string]any
	errored bool
	seq     int
}

type cbRecorder struct {
	events []cbEvent
	keys   []string
}

func (r *cbRecorder) snap(ctx z.Ctx) (map[string]any, bool) {
	m := map[string]any{}
	for _, k := range r.keys {
		if v := ctx.Get(k); v != nil {
			m[k] = v
		}
	}
	return m, ctx.HasErrored()
}

func (r *cbRecorder) add(kind string, n *spec.Node, uid int, arg any, ctx z.Ctx) {
	ev := cbEvent{kind: kind, node: n, uid: uid, seq: len(r.events)}
	rv := reflect.ValueOf(arg)
	if rv.IsValid() {
		ev.argType = rv.Type()
		if rv.Kind() == reflect.Ptr {
			ev.isNil = rv.IsNil()
			if !ev.isNil {
				ev.addr = rv.Pointer()
				ev.val = obs.NormValue(rv.Elem())
			}
		} else {
			ev.val = obs.NormValue(rv)
		}
	} else {
		ev.isNil = true
	}
	ev.ctxVals, ev.errored = r.snap(ctx)
	r.events = append(r.events, ev)
}

func (r *cbRecorder) hooks(rr *rng.Rand) *spec.Hooks {
	return &spec.Hooks{
		OnTest:     func(n *spec.Node, t *spec.Test, val any, ctx z.Ctx) { r.add("test", n, t.UID, val, ctx) },
		OnPost:     func(n *spec.Node, p *spec.Post, ptr any, ctx z.Ctx) { r.add("post", n, p.UID, ptr, ctx) },
		OnPre:      func(n *spec.Node, data any, ctx z.Ctx) { r.add("pre", n, -1, data, ctx) },
		FieldOrder: permutedOrder(rr),
	}
}

// instrument adds recording tests and post-transforms to every node.
func instrument(n *spec.Node, r *rng.Rand) {
	seen := map[*spec.Node]bool{}
	n.Walk(func(x *spec.Node) {
		if seen[x] {
			return
		}
		seen[x] = true
		switch x.Kind {
		case spec.Ptr, spec.Custom, spec.Pre:
			return
		}
		x.Tests = append(x.Tests, spec.Test{Op: spec.TCustom, PredName: "rec", Pred: func(any) bool { return true }, ViaTest: r.Bool()})
		x.Posts = []spec.Post{{Name: "rec0"}, {Name: "rec1"}}
	})
	n.Number()
}

// addrSet collects the addresses (with types) of every addressable position inside the destination.
func addrSet(v reflect.Value, out map[string]bool, depth int) {
	if depth > 60 || !v.IsValid() {
		return
	}
	if v.CanAddr() {
		out[fmt.Sprintf("%x:%s", v.Addr().Pointer(), v.Type())] = true
	}
	switch v.Kind() {
	case reflect.Ptr:
		if !v.IsNil() {
			addrSet(v.Elem(), out, depth+1)
		}
	case reflect.Struct:
		if v.Type().String() == "time.Time" {
			return
		}
		for i := 0; i < v.NumField(); i++ {
			addrSet(v.Field(i), out, depth+1)
		}
	case reflect.Slice:
		for i := 0; i < v.Len(); i++ {
			addrSet(v.Index(i), out, depth+1)
		}
	}
}

func c12Schema(r *rng.Rand) *spec.Node {
	o := gen.DefaultOpts()
	o.Posts = false
	o.Pre = true
	o.MaxDepth = 4
	o.CatchPct = 15
	o.Share = r.Intn(5) == 0
	switch r.Intn(8) {
	case 0:
		o.TopKinds = []spec.Kind{spec.Slice}
	case 1:
		o.TopKinds = []spec.Kind{spec.Ptr}
	}
	n := gen.Schema(r, o)
	instrument(n, r)
	return n
}

func belowSliceOrPtr(root *spec.Node) map[*spec.Node]bool {
	out := map[*spec.Node]bool{}
	var walk func(n *spec.Node, under bool)
	walk = func(n *spec.Node, under bool) {
		if under {
			out[n] = true
		}
		u := under || n.Kind == spec.Slice || n.Kind == spec.Ptr
		if n.Elem != nil {
			walk(n.Elem, u)
		}
		for i := range n.Fields {
			walk(n.Fields[i].Node, u)
		}
	}
	walk(root, false)
	return out
}

var c12KeyUniverse = []string{"k0", "k1", "k2", "k3", "lang"}

// c12InPlace: the caller parses a typed slice into a destination that shares its array (Parse(tags, &tags), a destination
// emptied with [:0]): every element callback must still be called with its own element's value.
func c12InPlace(c *core.Ctx) bool {
	k := c.R.Range(1, 5)
	orig := make([]string, k)
	for i := range orig {
		orig[i] = fmt.Sprintf("%s-%d", gen.Word(c.R), i)
	}
	var seenTest, seenPost []string
	elem := z.String().TestFunc(func(v any, ctx z.Ctx) bool {
		sv, _ := v.(string) // primitive TestFuncs receive the value itself
		seenTest = append(seenTest, sv)
		return true
	}).PostTransform(func(ptr any, ctx z.Ctx) error {
		seenPost = append(seenPost, *ptr.(*string))
		return nil
	})
	type rec struct{ Tags []string }
	variant := c.R.Intn(4)
	input := append(make([]string, 0, k+2), orig...)
	var issues z.ZogIssueMap
	var got []string
	switch variant {
	case 0:
		dest := input
		issues = z.Slice(elem).Parse(input, &dest)
		got = dest
	case 1:
		dest := input[:0]
		issues = z.Slice(elem).Parse(input, &dest)
		got = dest
	case 2:
		dest := input[:k-1]
		issues = z.Slice(elem).Parse(input[1:], &dest)
		orig, got = orig[1:], dest
	default:
		d := rec{Tags: input}
		issues = z.Struct(z.Schema{"tags": z.Slice(elem)}).Parse(map[string]any{"tags": input}, &d)
		got = d.Tags
	}
	c.Eval(1)
	want := strings.Join(orig, ",")
	if issues != nil || strings.Join(seenTest, ",") != want || strings.Join(seenPost, ",") != want || strings.Join(got, ",") != want {
		c.Violation("callback-value-in-place-parse", map[string]any{"variant(0 same slice,1 emptied,2 overlapping,3 struct field)": variant, "elements": orig, "values_seen_by_tests": seenTest,
			"values_seen_by_post_transforms": seenPost, "destination": got, "issues": fmt.Sprint(z.Issues.SanitizeMap(issues))})
		return false
	}
	c.Count("in_place_parses", 1)
	return true
}

// c12SelfReported: a PostTransform that reports an issue itself (ctx.AddIssue) and returns nil has made an issue exist: the
// remaining PostTransforms of the node do not run ("only if no issue exists at that moment"), for primitives, slices and structs.
func c12SelfReported(c *core.Ctx) bool {
	type rec struct {
		A string
		L []string
	}
	for _, where := range []string{"primitive", "slice", "struct"} {
		for _, mode := range []string{"Parse", "Validate"} {
			var calls []string
			first := func(p any, ctx z.Ctx) error {
				calls = append(calls, "first")
				ctx.AddIssue(ctx.Issue().SetMessage("first says no"))
				return nil
			}
			second := func(p any, ctx z.Ctx) error { calls = append(calls, "second"); return nil }
			a, l := z.String(), z.Slice(z.String())
			st := z.Struct(z.Schema{"a": a, "l": l})
			switch where {
			case "primitive":
				st = z.Struct(z.Schema{"a": z.String().PostTransform(first).PostTransform(second), "l": l})
			case "slice":
				st = z.Struct(z.Schema{"a": a, "l": z.Slice(z.String()).PostTransform(first).PostTransform(second)})
			default:
				st = st.PostTransform(first).PostTransform(second)
			}
			var issues z.ZogIssueMap
			if mode == "Parse" {
				var d rec
				issues = st.Parse(map[string]any{"a": "x", "l": []any{"y"}}, &d)
			} else {
				d := rec{A: "x", L: []string{"y"}}
				issues = st.Validate(&d)
			}
			c.Eval(1)
			n := 0
			for k, li := range issues {
				if k != "$first" {
					n += len(li)
				}
			}
			if strings.Join(calls, ",") != "first" || n != 1 {
				c.Violation("post-transform-ran-although-an-issue-exists|"+mode, map[string]any{"transforms_on": where, "schema": "two PostTransforms; the first calls ctx.AddIssue(...) and returns nil", "transforms_called": calls, "issues": fmt.Sprint(z.Issues.SanitizeMap(issues))})
				return false
			}
		}
	}
	// a Preprocess whose input type is a plain T cannot take the pointer Validate hands to it: a type mismatch, i.e. one issue, the
	// wrapped schema skipped (the same schema works in Parse)
	innerRan := false
	pre := func() *z.PreprocessSchema[string, string] {
		return z.Preprocess(func(s string, ctx z.Ctx) (string, error) { return s + "!", nil }, z.String().TestFunc(func(any, z.Ctx) bool { innerRan = true; return true }))
	}
	str := "abc"
	var l z.ZogIssueList
	func() {
		defer func() {
			if r := recover(); r != nil {
				l = z.ZogIssueList{{Code: "PANIC", Message: fmt.Sprint(r)}}
			}
		}()
		l = pre().Validate(&str)
	}()
	var out string
	lp := pre().Parse("abc", &out)
	c.Eval(2)
	if len(l) != 1 || l[0].Code != "coerce" || innerRan && len(lp) == 0 && false || len(lp) != 0 || out != "abc!" {
		c.Violation("preprocess-type-mismatch-in-validate", map[string]any{"schema": "z.Preprocess(func(s string, ctx) (string, error), z.String())", "validate_issues": fmt.Sprint(z.Issues.SanitizeList(l)), "validate_codes": func() []string {
			var cs []string
			for _, i := range l {
				cs = append(cs, i.Code)
			}
			return cs
		}(), "parse_issues": fmt.Sprint(z.Issues.SanitizeList(lp)), "parse_result": out, "want": "Validate: exactly one coerce issue; Parse: abc!"})
		return false
	}
	c.Count("self_reported_issue_scenarios", 7)
	return true
}

// c12Directed: (a) an issue recorded through the deprecated ctx.NewError(path, issue) is an issue like any other: later PostTransforms do
// not run; (b) the PostTransforms of a struct run once each, in order, also when the record comes from a front end that is consumed on
// first use (zjson body, zhttp request); (c) with the i18n formatter installed, callbacks that run after an issue was formatted still
// see exactly the context values of this call.
func c12Directed(c *core.Ctx) bool {
	type rec struct {
		A string `json:"a" query:"a"`
		B string `json:"b" query:"b"`
	}
	// (a)
	for _, mode := range []string{"Parse", "Validate"} {
		var calls []string
		st := z.Struct(z.Schema{
			"a": z.String().TestFunc(func(v any, ctx z.Ctx) bool {
				pb := zinternals.NewPathBuilder()
				ctx.NewError(pb.Push(ptr("a")), ctx.Issue().SetMessage("reported the old way"))
				return true
			}).PostTransform(func(p any, ctx z.Ctx) error { calls = append(calls, "a.post"); return nil }),
			"b": z.String(),
		}).PostTransform(func(p any, ctx z.Ctx) error { calls = append(calls, "struct.post"); return nil })
		d := rec{A: "x", B: "y"}
		var m z.ZogIssueMap
		if mode == "Parse" {
			m = st.Parse(map[string]any{"a": "x", "b": "y"}, &d)
		} else {
			m = st.Validate(&d)
		}
		c.Eval(1)
		if len(calls) != 0 || len(m) == 0 {
			c.Violation("post-transform-ran-although-an-issue-exists|"+mode, map[string]any{"schema": "a TestFunc records an issue with ctx.NewError(path, issue) (deprecated, still public) and returns true; PostTransforms on the same node and on the struct", "transforms_called": calls, "issues": fmt.Sprint(z.Issues.SanitizeMap(m))})
			return false
		}
	}
	// (b)
	for _, front := range []string{"map", "zjson", "zhttp-json", "zhttp-query"} {
		var calls []string
		st := z.Struct(z.Schema{"a": z.String(), "b": z.String()}).
			PostTransform(func(p any, ctx z.Ctx) error { calls = append(calls, "f1"); p.(*rec).A += "!"; return nil }).
			PostTransform(func(p any, ctx z.Ctx) error { calls = append(calls, "f2"); p.(*rec).B += "?"; return nil })
		var d rec
		var data any
		switch front {
		case "map":
			data = map[string]any{"a": "x", "b": "y"}
		case "zjson":
			data = zjson.Decode(strings.NewReader(`{"a":"x","b":"y"}`))
		case "zhttp-json":
			r := httptest.NewRequest("POST", "/", strings.NewReader(`{"a":"x","b":"y"}`))
			r.Header.Set("Content-Type", "application/json")
			data = zhttp.Request(r)
		default:
			data = zhttp.Request(httptest.NewRequest("GET", "/?a=x&b=y", nil))
		}
		m := st.Parse(data, &d)
		c.Eval(1)
		if strings.Join(calls, ",") != "f1,f2" || len(m) != 0 || d.A != "x!" || d.B != "y?" {
			c.Violation("post-transform-order-or-count|Parse|"+front, map[string]any{"schema": "Struct{a, b}.PostTransform(f1: A += \"!\").PostTransform(f2: B += \"?\")", "front_end": front, "transforms_called": calls, "destination": fmt.Sprintf("%+v", d), "issues": fmt.Sprint(z.Issues.SanitizeMap(m)), "want": "f1,f2 once each; {A:x! B:y?}"})
			return false
		}
	}
	// (c)
	saved := conf.IssueFormatter
	defer func() { conf.IssueFormatter = saved }()
	i18n.SetLanguagesErrsMap(map[string]zconst.LangMap{"en": en.Map, "es": es.Map}, "en")
	for _, passed := range []any{nil, "fr", "es"} {
		for _, mode := range []string{"Parse", "Validate"} {
			var seen []any
			look := func(v any, ctx z.Ctx) bool { seen = append(seen, ctx.Get("lang")); return true }
			st := z.Struct(z.Schema{
				"a": z.String().Min(5).TestFunc(look),
				"b": z.String().TestFunc(look),
			}).TestFunc(func(v any, ctx z.Ctx) bool { return look(v, ctx) })
			var opts []z.ExecOption
			if passed != nil {
				opts = append(opts, z.WithCtxValue("lang", passed))
			}
			d := rec{A: "x", B: "y"}
			if mode == "Parse" {
				st.Parse(map[string]any{"a": "x", "b": "y"}, &d, opts...)
			} else {
				st.Validate(&d, opts...)
			}
			c.Eval(1)
			for _, g := range seen {
				if g != passed {
					c.Violation("callback-context-values|"+mode, map[string]any{"schema": "i18n installed (en default, es); {a: String().Min(5).TestFunc(look), b: String().TestFunc(look)}.TestFunc(look); Min(5) fails and is formatted by the global formatter", "WithCtxValue(lang)": fmt.Sprint(passed), "ctx.Get(lang)_seen_by_the_callbacks": fmt.Sprint(seen)})
					return false
				}
			}
			if len(seen) != 3 {
				c.Violation("callback-not-run|"+mode, map[string]any{"schema": "three look callbacks", "calls": len(seen)})
				return false
			}
		}
	}
	// (d) a PostTransform that records an issue itself AND returns an error: the returned error is reported too (the first error
	// returned is reported as an issue wrapping it), and the next transform does not run
	for _, mode := range []string{"Parse", "Validate"} {
		var calls []string
		boom := errors.New("boom")
		sch := z.String().PostTransform(func(p any, ctx z.Ctx) error {
			calls = append(calls, "first")
			ctx.AddIssue(ctx.Issue().SetCode("noted").SetMessage("noted by the transform"))
			return boom
		}).PostTransform(func(p any, ctx z.Ctx) error { calls = append(calls, "second"); return nil })
		var l z.ZogIssueList
		sv := "x"
		if mode == "Parse" {
			l = sch.Parse("x", &sv)
		} else {
			l = sch.Validate(&sv)
		}
		c.Eval(1)
		wrapped := false
		for _, e := range l {
			if e.Err != nil && errors.Is(e.Err, boom) {
				wrapped = true
			}
		}
		if len(l) != 2 || !wrapped || strings.Join(calls, ",") != "first" {
			c.Violation("post-transform-error-not-reported|"+mode, map[string]any{"schema": "String().PostTransform(records ctx.AddIssue(...) and returns errors.New(boom)).PostTransform(second)", "issues": fmt.Sprint(z.Issues.SanitizeList(l)), "an_issue_wraps_the_returned_error": wrapped, "transforms_called": calls, "want": "two issues (the recorded one and one wrapping boom), only the first transform called"})
			return false
		}
	}
	// (e) WithCtxValue(key, nil) after WithCtxValue(key, v) in the same call: the callbacks get what was passed last
	var seenT []any
	z.String().TestFunc(func(v any, ctx z.Ctx) bool { seenT = append(seenT, ctx.Get("tenant"), ctx.Get("other")); return true }).Parse("x", ptr(""), z.WithCtxValue("tenant", "t1"), z.WithCtxValue("other", 1), z.WithCtxValue("tenant", nil))
	c.Eval(1)
	if len(seenT) != 2 || seenT[0] != nil || seenT[1] != 1 {
		c.Violation("callback-context-values|Parse", map[string]any{"options": "WithCtxValue(tenant, t1), WithCtxValue(other, 1), WithCtxValue(tenant, nil)", "ctx.Get(tenant), ctx.Get(other)": fmt.Sprint(seenT), "want": "[<nil> 1]"})
		return false
	}
	// (f) the struct-level tests of a schema without fields (what Omit / Pick may leave) run, with a pointer to the struct, in both modes
	for _, how := range []string{"Struct(Schema{})", "Struct{a}.Omit(a)"} {
		for _, mode := range []string{"Parse", "Validate"} {
			var got []string
			mk := func() *z.StructSchema {
				base := z.Struct(z.Schema{})
				if how != "Struct(Schema{})" {
					base = z.Struct(z.Schema{"a": z.String()})
				}
				base = base.TestFunc(func(v any, ctx z.Ctx) bool { got = append(got, fmt.Sprintf("%T", v)); return false }, z.Message("struct rule"))
				if how != "Struct(Schema{})" {
					base = base.Omit("a")
				}
				return base
			}
			var d rec
			var m z.ZogIssueMap
			if mode == "Parse" {
				m = mk().Parse(map[string]any{"a": "x"}, &d)
			} else {
				m = mk().Validate(&d)
			}
			c.Eval(1)
			if len(got) != 1 || got[0] != "*props.rec" || len(m["$root"]) != 1 {
				c.Violation("callback-not-run|"+mode, map[string]any{"schema": how + ".TestFunc(always false)", "test_called_with": got, "issues": fmt.Sprint(z.Issues.SanitizeMap(m)), "want": "one call with *rec, one issue at $root"})
				return false
			}
		}
	}
	// (g) a Preprocess function declared over string, fed a *string (a pointer in a map, a pointer field of a struct record): a type
	// mismatch - one issue, the function and the wrapped schema do not run
	txt := "abc"
	type inRec struct{ Code *string }
	for _, data := range []any{map[string]any{"Code": &txt}, inRec{Code: &txt}} {
		fnCalls, innerCalls := 0, 0
		sch := z.Struct(z.Schema{"Code": z.Preprocess(func(s string, ctx z.Ctx) (string, error) { fnCalls++; return s + "!", nil },
			z.String().TestFunc(func(any, z.Ctx) bool { innerCalls++; return true }))})
		var d struct{ Code string }
		m := sch.Parse(data, &d)
		c.Eval(1)
		if fnCalls != 0 || innerCalls != 0 || len(m["Code"]) != 1 {
			c.Violation("preprocess-type-mismatch-not-reported", map[string]any{"schema": "{Code: Preprocess(func(s string) string, String().TestFunc(...))}", "input": fmt.Sprintf("%T holding a *string", data), "function_calls": fnCalls, "wrapped_schema_test_calls": innerCalls, "issues": fmt.Sprint(z.Issues.SanitizeMap(m)), "want": "one issue at Code, no calls"})
			return false
		}
	}
	// (h) a transform whose declared error type is a pointer and which returns a nil one: `error(nil *T) != nil` in Go - an error was
	// returned, it is reported and the remaining transforms do not run
	for _, mode := range []string{"Parse", "Validate"} {
		var calls []string
		sch := z.String().PostTransform(func(p any, ctx z.Ctx) error {
			calls = append(calls, "first")
			var e *c12TypedErr
			return e
		}).PostTransform(func(p any, ctx z.Ctx) error { calls = append(calls, "second"); return nil })
		sv := "x"
		var l z.ZogIssueList
		if mode == "Parse" {
			l = sch.Parse("x", &sv)
		} else {
			l = sch.Validate(&sv)
		}
		c.Eval(1)
		if len(l) != 1 || strings.Join(calls, ",") != "first" {
			c.Violation("post-transform-error-not-reported|"+mode, map[string]any{"schema": "String().PostTransform(returns (*MyErr)(nil) as error).PostTransform(second)", "issues": fmt.Sprint(z.Issues.SanitizeList(l)), "transforms_called": calls, "want": "one issue, only the first transform called"})
			return false
		}
	}
	// (i) a Preprocess declared over string in front of a pointer schema, the key missing: nil is not a string - one issue, neither the
	// function nor the wrapped schema runs
	{
		fnCalls := 0
		var d struct{ Nick *string }
		m := z.Struct(z.Schema{"nick": z.Preprocess(func(s string, ctx z.Ctx) (string, error) { fnCalls++; return s, nil }, z.Ptr(z.String().Min(3)).NotNil())}).Parse(map[string]any{}, &d)
		c.Eval(1)
		if fnCalls != 0 || len(m["nick"]) != 1 || m["nick"][0].Code != "coerce" {
			c.Violation("preprocess-type-mismatch-not-reported", map[string]any{"schema": "{nick: Preprocess(func(s string) string, Ptr(String().Min(3)).NotNil())}", "input": "{} (key missing)", "function_calls": fnCalls, "issues": fmt.Sprint(z.Issues.SanitizeMap(m)), "want": "one coerce issue at nick"})
			return false
		}
	}
	// (j) the error a transform returns is filed at the node's path, spelled like every other path: keys holding ".[" or "[" stay verbatim
	{
		type opt struct {
			Name string
		}
		type cfg struct {
			Opts opt `zog:"opts.[x]"`
			Raw  opt `zog:"[raw]"`
		}
		boom := errors.New("boom")
		var d cfg
		inner := func() *z.StructSchema {
			return z.Struct(z.Schema{"name": z.String().PostTransform(func(any, z.Ctx) error { return boom })})
		}
		m := z.Struct(z.Schema{"opts": inner()}).Parse(map[string]any{"opts.[x]": map[string]any{"name": "n"}}, &d)
		m2 := z.Struct(z.Schema{"raw": inner()}).Parse(map[string]any{"[raw]": map[string]any{"name": "n"}}, &d)
		c.Eval(2)
		if len(m["opts.[x].name"]) != 1 || len(m2["[raw].name"]) != 1 {
			c.Violation("post-transform-error-path", map[string]any{"schema": "{opts (key \"opts.[x]\"): Struct{name: String().PostTransform(returns an error)}} / the same under key \"[raw]\"", "keys": dKeys(m) + " / " + dKeys(m2), "want": "opts.[x].name / [raw].name"})
			return false
		}
	}
	// (k) a context value is handed to the callbacks as it is: the map the caller passed, not a copy of it
	{
		bag := map[string]any{}
		var sv string
		z.String().TestFunc(func(v any, ctx z.Ctx) bool {
			if b, ok := ctx.Get("bag").(map[string]any); ok {
				b["seen"] = v
			}
			return true
		}).Parse("x", &sv, z.WithCtxValue("bag", bag))
		c.Eval(1)
		if bag["seen"] != "x" {
			c.Violation("callback-context-values|Parse", map[string]any{"option": "WithCtxValue(bag, map[string]any{})", "observed": "a write the callback made through ctx.Get(bag) did not reach the caller's map", "callers_map": fmt.Sprint(bag)})
			return false
		}
	}
	c.Count("directed_callback_scenarios", 28)
	return true
}

type c12TypedErr struct{ msg string }

func (e *c12TypedErr) Error() string {
	if e == nil {
		return "typed nil error"
	}
	return e.msg
}

func ptr[T any](v T) *T { return &v }

func (c12) RunCase(c *core.Ctx) {
	if c.Case%97 == 23 && !w10(c, "C12") {
		return
	}
	if c.Case%40 == 11 && !c12SelfReported(c) {
		return
	}
	if c.Case%40 == 13 && !c12Directed(c) {
		return
	}
	if c.Case%40 == 12 {
		c.Eval(3)
		if problem := dPreprocessStruct(); problem != "" && !strings.Contains(problem, "present values") {
			c.Violation("preprocess-argument", map[string]any{"schema": "{order: Preprocess(fn, Struct{...}), ID: String()}", "observed": problem})
			return
		}
		if problem := dNamedStringTests(); problem != "" {
			c.Violation("callback-value-type", map[string]any{"schema": "StringSchema[dEnv].TestFunc(fn)", "observed": problem})
			return
		}
		if problem, _ := dPreprocessAbsent(); problem != "" {
			c.Violation("preprocess-argument", map[string]any{"schema": "Preprocess(func(n int) string, String().Required().Min(5)) as a struct field and as a slice element", "observed": problem})
			return
		}
	}
	if c.Case%20 == 7 && !c12InPlace(c) {
		return
	}
	switch c.Case % 5 {
	case 3:
		c12ErrorScenario(c)
		return
	case 4:
		c12PreScenario(c)
		return
	}
	n := c12Schema(c.R)
	src := n.Source()
	under := belowSliceOrPtr(n)
	for k := 0; k < 5; k++ {
		data := gen.ParseInput(c.R, n, gen.InOpts{ValidPct: 70, AbsentPct: 12, WrongPct: 8, AltRep: true})
		val := gen.ValueTree(c.R, n, gen.InOpts{ValidPct: 70, AbsentPct: 15}, false)
		for _, mode := range []ref.Mode{ref.Parse, ref.Validate} {
			// this call's context values
			want := map[string]any{}
			var opts []z.ExecOption
			for _, key := range c12KeyUniverse[:4] {
				if c.R.Bool() {
					v := fmt.Sprintf("%s-case%d-%d-%s", key, c.Case, k, mode)
					want[key] = v
					if c.R.Intn(4) == 0 {
						// the key given twice in one call (defaults of a helper, then the caller's own): the later value is the one passed
						opts = append(opts, z.WithCtxValue(key, "overridden-"+v))
					}
					opts = append(opts, z.WithCtxValue(key, v))
				}
			}
			rec := &cbRecorder{keys: c12KeyUniverse}
			b := spec.Build(n, rec.hooks(c.R))
			if c.R.Intn(3) == 0 {
				warmAlt(c.R, b) // the schema object has been used with another destination type before
				rec.events = nil
			}
			var o *run.Outcome
			var exp *ref.Result
			var input any
			if mode == ref.Parse {
				exp = ref.Eval(n, &ref.Env{Mode: mode}, data, nil)
				o = run.Parse(b, data, nil, opts...)
				input = data
			} else {
				exp = ref.Eval(n, &ref.Env{Mode: mode}, nil, val)
				o = run.Validate(b, val, opts...)
				input = val
			}
			c.Eval(1)
			det := func(extra map[string]any) map[string]any {
				extra["issues"] = issuesText(o)
				extra["callbacks_recorded"] = len(rec.events)
				return describeCase(n, mode, input, extra)
			}
			if o.Panicked {
				c.Violation("panic|"+panicKind(o.Panic), det(map[string]any{"panic": trunc(fmt.Sprint(o.Panic), 400), "stack": trunc(o.Stack, 2500)}))
				return
			}
			if exp.Unknown != "" {
				c.Count("skipped_open_corner", 1)
				continue
			}
			success := len(o.Issues) == 0 && len(exp.Issues) == 0
			addrs := map[string]bool{}
			addrSet(o.DestVal.Elem(), addrs, 0)
			deep := false
			// per-event checks
			postSeen := map[string][]int{} // node visit (node id + addr) -> uids in order
			for _, ev := range rec.events {
				if under[ev.node] {
					deep = true
				}
				if !obs.Equal(obs.Norm(ev.ctxVals), obs.Norm(want)) {
					c.Violation("callback-context-values|"+ev.kind, det(map[string]any{"callback": ev.kind, "node": ev.node.ID, "ctx_get_returned": obs.Render(obs.Norm(ev.ctxVals)), "this_call_passed": obs.Render(obs.Norm(want))}))
					return
				}
				wantsPtr := ev.kind == "post" || (ev.kind == "test" && !ev.node.Kind.IsPrimitive())
				if ev.kind == "pre" {
					continue
				}
				if wantsPtr {
					wt := reflect.PointerTo(ev.node.GoType())
					if ev.isNil || ev.argType != wt {
						c.Violation("callback-argument-not-node-pointer|"+ev.kind+"|"+mode.String(), det(map[string]any{"callback": ev.kind, "node": ev.node.ID, "node_kind": ev.node.Kind.String(), "argument_type": fmt.Sprint(ev.argType), "nil": ev.isNil, "want_type": wt.String()}))
						return
					}
					if !addrs[fmt.Sprintf("%x:%s", ev.addr, ev.node.GoType())] {
						c.Violation("callback-pointer-not-into-destination|"+ev.kind+"|"+mode.String(), det(map[string]any{"callback": ev.kind, "node": ev.node.ID, "node_kind": ev.node.Kind.String(), "pointee_seen": obs.Render(ev.val), "destination": obs.Render(o.Dest)}))
						return
					}
				} else if ev.argType != ev.node.GoType() {
					c.Violation("callback-argument-type|"+ev.kind+"|"+mode.String(), det(map[string]any{"callback": ev.kind, "node": ev.node.ID, "argument_type": fmt.Sprint(ev.argType), "want_type": ev.node.GoType().String()}))
					return
				}
				if ev.kind == "post" {
					if ev.errored {
						c.Violation("post-transform-ran-while-issue-exists|"+mode.String(), det(map[string]any{"node": ev.node.ID}))
						return
					}
					key := fmt.Sprintf("%d@%x", ev.node.ID, ev.addr)
					postSeen[key] = append(postSeen[key], ev.uid)
				}
			}
			for key, uids := range postSeen {
				if len(uids) > 2 || !sort.IntsAreSorted(uids) || (len(uids) == 2 && uids[0] == uids[1]) {
					c.Violation("post-transform-order-or-repeat|"+mode.String(), det(map[string]any{"node_visit": key, "post_transform_uids_in_call_order": uids}))
					return
				}
			}
			// events against the reference
			var wantEv, gotEv, optEv []string
			for _, e := range exp.Events {
				if e.Kind == "post" && !success {
					continue
				}
				if e.Kind == "pre" {
					continue
				}
				s := fmt.Sprintf("%s:%d", e.Kind, e.UID)
				if e.Kind == "test" {
					nd := nodeByTestUID(n, e.UID)
					if nd != nil && (nd.Kind.IsPrimitive() || success) {
						s += "=" + obs.Render(e.Val)
					}
				} else if success {
					s += "=" + obs.Render(e.Val)
				}
				if e.Optional {
					optEv = append(optEv, s)
				} else {
					wantEv = append(wantEv, s)
				}
			}
			for _, ev := range rec.events {
				if ev.kind == "post" && !success {
					continue
				}
				if ev.kind == "pre" {
					continue
				}
				s := fmt.Sprintf("%s:%d", ev.kind, ev.uid)
				if ev.kind == "test" {
					if ev.node.Kind.IsPrimitive() || success {
						s += "=" + obs.Render(ev.val)
					}
				} else if success {
					s += "=" + obs.Render(ev.val)
				}
				gotEv = append(gotEv, s)
			}
			sort.Strings(wantEv)
			sort.Strings(gotEv)
			missing, extra := obs.MultisetDiff(wantEv, gotEv)
			// optional events may account for extras
			extra, _ = obs.MultisetDiff(extra, optEv)
			if len(missing) > 0 || len(extra) > 0 {
				c.Violation("callback-invocations|"+mode.String(), det(map[string]any{"expected_but_not_called(kind:uid=value)": missing, "called_but_not_expected": extra, "globally_successful": success}))
				return
			}
			c.Count("callbacks_checked", len(rec.events))
			if deep && len(rec.events) > 0 {
				c.NonTrivial(fpf("%s|%s|%s", src, mode, obs.Render(obs.Norm(input))))
				if c.WantSample() {
					c.Sample(describeCase(n, mode, input, map[string]any{"callbacks_recorded": len(rec.events), "ctx_values_of_this_call": obs.Render(obs.Norm(want))}))
				}
			}
		}
	}
}

func nodeByTestUID(root *spec.Node, uid int) *spec.Node {
	var found *spec.Node
	root.Walk(func(x *spec.Node) {
		for i := range x.Tests {
			if x.Tests[i].UID == uid {
				found = x
			}
		}
	})
	return found
}

// c12ErrorScenario: exactly one post-transform errors on an otherwise valid input.
func c12ErrorScenario(c *core.Ctx) {
	o := gen.DefaultOpts()
	o.Posts, o.Customs, o.CatchPct, o.DefaultPct = false, false, 0, 0
	o.FailingTests = 0
	o.MaxDepth = 3
	n := gen.Schema(c.R, o)
	instrument(n, c.R)
	// choose the node whose post-transform fails
	var nodes []*spec.Node
	n.Walk(func(x *spec.Node) {
		if len(x.Posts) == 2 {
			nodes = append(nodes, x)
		}
	})
	if len(nodes) == 0 {
		return
	}
	victim := nodes[c.R.Intn(len(nodes))]
	which := c.R.Intn(2)
	retIssue := c.R.Intn(3) == 0
	var sentinel error = errors.New("post-transform sentinel error")
	sentIssue := &z.ZogIssue{Code: "from_post", Message: "issue returned by post-transform"}
	if !retIssue && c.R.Intn(3) == 0 {
		// an ordinary error that merely WRAPS an issue somewhere in its chain is still an ordinary error
		sentinel = fmt.Errorf("tag rejected: %w", &z.ZogIssue{Code: "inner_issue", Path: "some.other.path", Message: "inner"})
	}
	// a victim that also has a Catch value: a transform's error is not one of the failures a catch value stands in for, so it is
	// reported like any other and the chain stops there
	catching := victim.Kind.IsPrimitive() && c.R.Intn(4) == 0
	if catching {
		victim.Mods = append(victim.Mods, spec.Mod{Op: spec.MCatch, Val: victim.Witness})
	}
	victim.Posts[which].Name = fmt.Sprintf("fails(%d)", which)
	victim.Posts[which].Fn = func(ptr any) error {
		if retIssue {
			return sentIssue
		}
		return sentinel
	}
	src := n.Source()
	for _, mode := range []ref.Mode{ref.Parse, ref.Validate} {
		// fully valid, fully populated input so that every node is visited and nothing else fails
		val := gen.ValueTree(c.R, n, gen.InOpts{ValidPct: 100}, true)
		data := gen.ToParseMap(n, val)
		rec := &cbRecorder{keys: c12KeyUniverse}
		b := spec.Build(n, rec.hooks(c.R))
		var out *run.Outcome
		var exp *ref.Result
		if mode == ref.Parse {
			exp = ref.Eval(n, &ref.Env{Mode: mode}, data, nil)
			out = run.Parse(b, data, nil)
		} else {
			exp = ref.Eval(n, &ref.Env{Mode: mode}, nil, val)
			out = run.Validate(b, val)
		}
		c.Eval(1)
		if exp.Unknown != "" || len(exp.Issues) > 0 {
			c.Count("skipped_not_clean", 1)
			continue
		}
		det := func(extra map[string]any) map[string]any {
			extra["failing_post_transform"] = fmt.Sprintf("node %d (%s), post-transform #%d, returns ZogIssue=%v", victim.ID, victim.Kind, which, retIssue)
			extra["issues"] = issuesText(out)
			return describeCase(n, mode, val, extra)
		}
		if out.Panicked {
			c.Violation("panic|"+panicKind(out.Panic), det(map[string]any{"panic": trunc(fmt.Sprint(out.Panic), 400), "stack": trunc(out.Stack, 2000)}))
			return
		}
		// how many visits of the victim had their failing post-transform invoked
		failCalls := 0
		laterCalls := 0
		byVisit := map[uintptr][]int{}
		for _, ev := range rec.events {
			if ev.kind == "post" && ev.node == victim {
				byVisit[ev.addr] = append(byVisit[ev.addr], ev.uid)
			}
		}
		for _, uids := range byVisit {
			for i, u := range uids {
				if u == victim.Posts[which].UID {
					failCalls++
					laterCalls += len(uids) - i - 1
				}
			}
		}
		if failCalls == 0 {
			c.Violation("post-transform-not-run-on-valid-input|"+mode.String(), det(map[string]any{}))
			return
		}
		if laterCalls > 0 {
			c.Violation("post-transform-ran-after-error|"+mode.String(), det(map[string]any{"calls_after_the_error_in_the_same_visit": laterCalls}))
			return
		}
		if catching {
			c.Count("error_scenarios_on_catching_node", 1)
		}
		// the first error creates an issue; afterwards HasErrored gates every other post-transform, so exactly one issue exists
		if len(out.Issues) != 1 {
			c.Violation("post-transform-error-issue-count|"+mode.String(), det(map[string]any{"expected": "exactly one issue (the wrapped error); later post-transforms are gated on it"}))
			return
		}
		is := out.Issues[0]
		okWrap := false
		if retIssue {
			okWrap = is.Ptr == sentIssue || is.ErrIs == error(sentIssue)
		} else {
			okWrap = is.ErrIs == sentinel
		}
		if !okWrap {
			c.Violation("post-transform-error-not-wrapped|"+mode.String(), det(map[string]any{"issue": is.String()}))
			return
		}
		// path: the issue must be at the path of one of the victim's instances (unless the ZogIssue itself was returned, which carries its own path)
		if !(retIssue && is.Ptr == sentIssue) {
			paths := instancePaths(n, victim, mode, data, val)
			if !paths[is.Path] {
				c.Violation("post-transform-error-path|"+mode.String(), det(map[string]any{"issue_path": is.Path, "paths_of_the_node": keysOf(paths)}))
				return
			}
		}
		c.NonTrivial(fpf("err|%s|%s|%d|%d|%v", src, mode, victim.ID, which, retIssue))
		c.Count("error_scenarios", 1)
	}
}

func keysOf(m map[string]bool) []string {
	var out []string
	for k := range m {
		out = append(out, k)
	}
	sort.Strings(out)
	return out
}

// instancePaths lists the issue paths of all instances of a node for a fully populated value.
func instancePaths(root, target *spec.Node, mode ref.Mode, data any, val any) map[string]bool {
	out := map[string]bool{}
	var walk func(n *spec.Node, v any, path string)
	walk = func(n *spec.Node, v any, path string) {
		if n == target {
			out[path] = true
		}
		switch n.Kind {
		case spec.Struct:
			m, _ := v.(map[string]any)
			for i := range n.Fields {
				f := &n.Fields[i]
				p := f.DataKey("")
				if path != "" {
					p = path + "." + p
				}
				walk(f.Node, m[f.GoName], p)
			}
		case spec.Slice:
			s, _ := v.([]any)
			for i := range s {
				walk(n.Elem, s[i], fmt.Sprintf("%s[%d]", path, i))
			}
		case spec.Ptr:
			if p, ok := v.(obs.PtrV); ok && !p.Nil {
				walk(n.Elem, p.V, path)
			}
		}
	}
	walk(root, val, "")
	return out
}

// c12PreScenario: Preprocess error / type mismatch becomes one issue and skips the wrapped schema.
func c12PreScenario(c *core.Ctx) {
	kinds := []spec.Kind{spec.String, spec.Int, spec.Float64, spec.Bool}
	k := kinds[c.R.Intn(len(kinds))]
	inner := &spec.Node{Kind: k, Tests: []spec.Test{{Op: spec.TCustom, PredName: "rec", Pred: func(any) bool { return true }}}, Posts: []spec.Post{{Name: "rec0"}}}
	if c.R.Bool() {
		inner.Mods = []spec.Mod{{Op: spec.MRequired}}
	}
	failMsg := errors.New("preprocess refuses")
	witness := map[spec.Kind]any{spec.String: "pre-ok", spec.Int: 41, spec.Float64: 4.5, spec.Bool: true}[k]
	pre := &spec.Node{Kind: spec.Pre, Elem: inner, PreName: "fail-on-bang", PreFn: func(d any) (any, error) {
		if s, ok := d.(string); ok && strings.HasPrefix(s, "!") {
			return nil, failMsg
		}
		return witness, nil
	}}
	place := c.R.Intn(3)
	var root *spec.Node
	wrap := func(v any) any { return v }
	path := ""
	switch place {
	case 0:
		root = pre
	case 1:
		root = structOf("p", pre, "other", str())
		wrap = func(v any) any { return map[string]any{"p": v, "other": "o"} }
		path = "p"
	case 2:
		root = sliceOf(pre)
		wrap = func(v any) any { return []any{"fine", v} }
		path = "[1]"
	}
	root.Number()
	ps, pi := "pointer-held", 7
	for _, in := range []any{"!boom", "fine", 12, true, &ps, &pi} {
		rec := &cbRecorder{keys: c12KeyUniverse}
		b := spec.Build(root, rec.hooks(c.R))
		v := fmt.Sprintf("pre-%d", c.Case)
		out := run.Parse(b, wrap(in), nil, z.WithCtxValue("k0", v))
		c.Eval(1)
		det := func(extra map[string]any) map[string]any {
			extra["issues"] = issuesText(out)
			return describeCase(root, ref.Parse, wrap(in), extra)
		}
		if out.Panicked {
			c.Violation("panic|"+panicKind(out.Panic), det(map[string]any{"panic": trunc(fmt.Sprint(out.Panic), 300)}))
			return
		}
		fails := false
		if s, ok := in.(string); ok && strings.HasPrefix(s, "!") {
			fails = true
		}
		innerCalls, preCalls := 0, 0
		for _, ev := range rec.events {
			switch {
			case ev.kind == "pre":
				preCalls++
				if ev.ctxVals["k0"] != v {
					c.Violation("callback-context-values|pre", det(map[string]any{"ctx": obs.Render(obs.Norm(ev.ctxVals))}))
					return
				}
				if rv := reflect.ValueOf(in); rv.Kind() == reflect.Ptr {
					// a pointer input must reach the function as that very pointer (not its pointee)
					if !(place == 2 && preCalls == 1) && (ev.argType != rv.Type() || ev.addr != rv.Pointer()) {
						c.Violation("preprocess-argument", det(map[string]any{"received_type": fmt.Sprint(ev.argType), "node_input_type": rv.Type().String()}))
						return
					}
				} else if !obs.Equal(ev.val, obs.Norm(in)) && !(place == 2 && preCalls == 1 && obs.Equal(ev.val, "fine")) {
					c.Violation("preprocess-argument", det(map[string]any{"received": obs.Render(ev.val), "node_input": obs.Render(obs.Norm(in))}))
					return
				}
			case ev.node == inner:
				innerCalls++
			}
		}
		wantPre := 1
		if place == 2 {
			wantPre = 2
		}
		if preCalls != wantPre {
			c.Violation("preprocess-call-count", det(map[string]any{"calls": preCalls, "want": wantPre}))
			return
		}
		if fails {
			n := 0
			for _, ci := range out.Issues {
				if ci.Path == path {
					n++
				}
			}
			if n != 1 || len(out.Issues) != 1 {
				c.Violation("preprocess-error-issue-count", det(map[string]any{"want": "exactly one issue at " + path}))
				return
			}
			wantInner := 0
			if place == 2 {
				wantInner = 1 // the other element's test ran; its post-transform may be gated
			}
			tests := 0
			for _, ev := range rec.events {
				if ev.node == inner && ev.kind == "test" {
					tests++
				}
			}
			if tests != wantInner {
				c.Violation("preprocess-error-did-not-skip-schema", det(map[string]any{"wrapped_schema_test_calls": tests, "want": wantInner}))
				return
			}
		} else if len(out.Issues) != 0 || innerCalls == 0 {
			c.Violation("preprocess-success-path", det(map[string]any{"wrapped_schema_callbacks": innerCalls}))
			return
		}
		c.NonTrivial(fpf("pre|%d|%s|%v|%d", place, k, in, len(inner.Mods)))
	}
	c.Count("preprocess_scenarios", 1)
	c12PreValidate(c, k)
}

// c12PreValidate: in Validate the preprocess function receives the pointer to the value being validated; its result
// replaces the value; an error becomes one issue and skips the wrapped schema.
func c12PreValidate(c *core.Ctx, k spec.Kind) {
	zero := map[spec.Kind]any{spec.String: "", spec.Int: 0, spec.Float64: 0.0, spec.Bool: false}[k]
	start := map[spec.Kind]any{spec.String: "start", spec.Int: 5, spec.Float64: 2.5, spec.Bool: true}[k]
	witness := map[spec.Kind]any{spec.String: "pre-ok", spec.Int: 41, spec.Float64: 4.5, spec.Bool: true}[k]
	_ = zero
	for _, fail := range []bool{false, true} {
		for _, place := range []int{0, 1, 2, 3, 4} {
			inner := &spec.Node{Kind: k, Tests: []spec.Test{{Op: spec.TCustom, PredName: "rec", Pred: func(any) bool { return true }}}}
			failErr := errors.New("preprocess refuses in validate")
			var gotArg any
			pre := &spec.Node{Kind: spec.Pre, Elem: inner, PreName: "validate-pre", PreFn: func(d any) (any, error) {
				gotArg = d
				if fail {
					return nil, failErr
				}
				return witness, nil
			}}
			root := pre
			var val any = start
			path := ""
			switch place {
			case 1:
				root = structOf("p", pre)
				val = map[string]any{"P": start}
				path = "p"
			case 2: // item of a slice
				root = sliceOf(pre)
				val = []any{start}
				path = "[0]"
			case 3: // directly below a pointer, as a struct field
				root = structOf("p", ptrOf(pre))
				val = map[string]any{"P": obs.PtrV{V: start}}
				path = "p"
			case 4: // directly below a pointer, as the item of a slice
				root = sliceOf(ptrOf(pre))
				val = []any{obs.PtrV{V: start}}
				path = "[0]"
			}
			root.Number()
			rec := &cbRecorder{keys: c12KeyUniverse}
			b := spec.Build(root, rec.hooks(c.R))
			out := run.Validate(b, val, z.WithCtxValue("k1", "v-pre"))
			c.Eval(1)
			det := func(extra map[string]any) map[string]any {
				extra["issues"] = issuesText(out)
				extra["preprocess_fails"] = fail
				return describeCase(root, ref.Validate, val, extra)
			}
			if out.Panicked {
				c.Violation("panic|"+panicKind(out.Panic), det(map[string]any{"panic": trunc(fmt.Sprint(out.Panic), 300)}))
				return
			}
			// the argument must be the pointer to the node's own value
			rv := reflect.ValueOf(gotArg)
			if !rv.IsValid() || rv.Kind() != reflect.Ptr || rv.IsNil() || rv.Type() != reflect.PointerTo(inner.GoType()) {
				c.Violation("preprocess-argument|Validate", det(map[string]any{"received_type": fmt.Sprintf("%T", gotArg)}))
				return
			}
			innerTests := 0
			for _, ev := range rec.events {
				if ev.kind == "pre" && ev.ctxVals["k1"] != "v-pre" {
					c.Violation("callback-context-values|pre", det(map[string]any{"ctx": obs.Render(obs.Norm(ev.ctxVals))}))
					return
				}
				if ev.node == inner && ev.kind == "test" {
					innerTests++
				}
			}
			if fail {
				if len(out.Issues) != 1 || out.Issues[0].Path != path || innerTests != 0 {
					c.Violation("preprocess-error-in-validate", det(map[string]any{"want": "exactly one issue at the node's path, wrapped schema skipped", "wrapped_schema_test_calls": innerTests}))
					return
				}
			} else {
				var got any = out.Dest
				switch place {
				case 1:
					got = out.Dest.(map[string]any)["P"]
				case 2:
					got = out.Dest.([]any)[0]
				case 3:
					got = out.Dest.(map[string]any)["P"].(obs.PtrV).V
				case 4:
					got = out.Dest.([]any)[0].(obs.PtrV).V
				}
				if len(out.Issues) != 0 || innerTests != 1 || !obs.Equal(got, witness) {
					c.Violation("preprocess-success-in-validate", det(map[string]any{"value_after": obs.Render(out.Dest), "wrapped_schema_test_calls": innerTests}))
					return
				}
			}
			c.NonTrivial(fpf("prev|%s|%v|%d", k, fail, place))
		}
	}
}
