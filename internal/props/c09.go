package props

import (
	"encoding/json"
	"fmt"
	z "github.com/Oudwins/zog"
	"github.com/Oudwins/zog/conf"
	"github.com/Oudwins/zog/i18n"
	"github.com/Oudwins/zog/zconst"
	"sort"
	"strings"

	"github.com/Oudwins/zog/parsers/zjson"
	"github.com/Oudwins/zog/zhttp"
	"net/http/httptest"

	"zogverif/internal/core"
	"zogverif/internal/gen"
	"zogverif/internal/obs"
	"zogverif/internal/ref"
	"zogverif/internal/rng"
	"zogverif/internal/run"
	"zogverif/internal/spec"
)

// C09: results do not depend on map iteration or key insertion order.
type c09 struct{}

func init() { core.Register(c09{}) }

func (c09) ID() string { return "C09" }

func (c09) Info(t core.Tier) core.Info {
	reps := tierN(t, 12, 40)
	return core.Info{
		Level: "exploration",
		Rule: fmt.Sprintf("each case = one generated struct-rooted schema (2-5 fields per struct, nested structs / slices of structs, catching, defaulted and failing mixes) x 3 inputs x {Parse from Go maps, Validate, Parse of the same data as a JSON document through zjson}, executed %d times with the schema map and the input maps rebuilt in random insertion orders; "+
			"the field visit order of every run is observed through recording tests. oracle: the set of canonical results (every key of the issue map except $first with path, code, type, message, params, value, error; destination on success) over all runs is a singleton. "+
			"non-trivial: the case was observed under >= 2 distinct visit orders and has >= 1 issue or >= 2 leaves; distinct by (schema, input, mode).", reps),
		Assumptions: append([]string{"Go randomises map iteration per range statement; visit orders are observed, not assumed"}, commonAssumptions...),
		MinDistinct: 50,
	}
}

func (c09) NumCases(t core.Tier) int { return tierN(t, 6000, 80000) }

// permuteMaps deep-copies input data, inserting map keys in a random order.
func permuteMaps(r *rng.Rand, data any) any {
	switch x := data.(type) {
	case map[string]any:
		keys := make([]string, 0, len(x))
		for k := range x {
			keys = append(keys, k)
		}
		sort.Strings(keys)
		out := make(map[string]any, len(x))
		for _, i := range r.Perm(len(keys)) {
			out[keys[i]] = permuteMaps(r, x[keys[i]])
		}
		return out
	case []any:
		out := make([]any, len(x))
		for i := range x {
			out[i] = permuteMaps(r, x[i])
		}
		return out
	}
	return data
}

// anyKeyedMap turns a record into a map[any]any in which every string key has a twin of another type with the same text
// (a named string type) carrying another value, inserted in a random order.
func anyKeyedMap(r *rng.Rand, data any) any {
	m, ok := data.(map[string]any)
	if !ok {
		return data
	}
	type entry struct{ k, v any }
	var es []entry
	for k, v := range m {
		es = append(es, entry{k, v}, entry{gen.KeyStr(k), "twin-of-" + k})
	}
	sort.Slice(es, func(i, j int) bool { return fmt.Sprint(es[i].k, es[i].v) < fmt.Sprint(es[j].k, es[j].v) })
	out := make(map[any]any, len(es))
	for _, i := range r.Perm(len(es)) {
		out[es[i].k] = es[i].v
	}
	return out
}

type c09Dest struct {
	A string
	L []string
}

var c09AmbientSchema = z.Struct(z.Schema{"a": z.String(), "l": z.Slice(z.String()).Min(3)}).TestFunc(func(any, z.Ctx) bool { return false })

// c09Ambient: executions whose FIRST issue is a root-level one (struct-level test, slice-level test, undecodable body), handed back
// with the Collect helpers.
func c09Ambient(r *rng.Rand) {
	var d c09Dest
	var m z.ZogIssueMap
	switch r.Intn(3) {
	case 0:
		m = c09AmbientSchema.Parse(map[string]any{"a": "x", "l": []any{"1", "2", "3"}}, &d)
	case 1:
		var l []string
		m = z.Slice(z.String()).Min(3).Parse([]any{"1"}, &l)
	default:
		m = c09AmbientSchema.Parse(zjson.Decode(strings.NewReader(`[1,2`)), &d)
	}
	if r.Bool() {
		z.Issues.CollectMap(m)
	} else {
		_ = z.Issues.SanitizeMapAndCollect(m)
	}
}

func canonResult(o *run.Outcome) string {
	var sb strings.Builder
	sb.WriteString(obs.Multiset(o.Issues, func(c obs.CI) string { return c.Full() }))
	fmt.Fprintf(&sb, "\nnil=%v", o.Nil)
	if len(o.Issues) == 0 {
		sb.WriteString("\ndest=" + obs.Render(o.Dest))
	}
	// $first must be one of the issues
	if o.IsMap && len(o.Issues) > 0 {
		if len(o.Firsts) != 1 {
			fmt.Fprintf(&sb, "\nBAD-FIRST len=%d", len(o.Firsts))
		}
	}
	return sb.String()
}

// c09Flat: a record through the form / query front ends, with parameters that merely look like paths into nested structs
// (parent.child, parent[child]) and `key[]` look-alikes next to it: the same request gives the same result on every run.
func c09Flat(c *core.Ctx) bool {
	fo := gen.FrontOpts{Flat: true, MaxDepth: 2, MaxFields: 4, KeepIssuePath: true}
	n := gen.RecordSchema(c.R, fo)
	rec := gen.GenRecord(c.R, n, 55, fo)
	for _, f := range []string{"query", "form"} {
		results := map[string]int{}
		for rep := 0; rep < 10; rep++ {
			b := spec.Build(n, &spec.Hooks{FieldOrder: permutedOrder(c.R)})
			o, _, _ := frontExec(b, n, rec, f, nil, true)
			c.Eval(1)
			if o.Panicked {
				c.Violation("panic|"+f, map[string]any{"schema": n.Source(), "record": obs.Render(rec), "panic": fmt.Sprint(o.Panic)})
				return false
			}
			results[canonResult(o)]++
		}
		if len(results) > 1 {
			var alts []string
			for r := range results {
				alts = append(alts, trunc(r, 600))
			}
			c.Violation("result-depends-on-order|"+f, map[string]any{"schema": n.Source(), "record": obs.Render(rec), "flat_rendering": gen.RecToFlat(n, rec, frontTag(f)).Encode(), "distinct_results": alts})
			return false
		}
	}
	c.Count("flat_front_end_records", 1)
	return true
}

// c09PlaceholderText: a message template that uses {{value}} next to a parameter, and an input whose text looks like that parameter's
// placeholder: the same call gives the same message on every run.
func c09PlaceholderText(c *core.Ctx) bool {
	own := zconst.LangMap{zconst.TypeString: {"role_check": "{{value}} is not available to {{role}} accounts ({{value}}, {{tier}})", zconst.IssueCodeFallback: "string is invalid"}}
	seen := map[string]int{}
	for i := 0; i < 40; i++ {
		var s string
		l := z.String().TestFunc(func(v any, ctx z.Ctx) bool { return false }, z.IssueCode("role_check"), z.Params(map[string]any{"role": "guest", "tier": "{{role}}/{{value}}"})).
			Parse("{{role}}-{{tier}}", &s, z.WithIssueFormatter(conf.NewDefaultFormatter(own)))
		c.Eval(1)
		if len(l) != 1 {
			seen[fmt.Sprintf("%d issues", len(l))]++
			continue
		}
		seen[l[0].Message]++
	}
	if len(seen) != 1 {
		c.Violation("result-depends-on-order|message-placeholders", map[string]any{"template": own[zconst.TypeString]["role_check"], "params": "role=guest, tier={{role}}/{{value}}", "input": "{{role}}-{{tier}}", "distinct_messages_over_40_runs": seen})
		return false
	}
	// the same template idea on built-in tests (their issue's value is the destination): the text is the same on every run
	own2 := zconst.LangMap{zconst.TypeString: {zconst.IssueCodeMin: "'{{value}}' is shorter than {{min}}", zconst.IssueCodeFallback: "string is invalid"}, zconst.TypeSlice: {zconst.IssueCodeMin: "{{value}} has fewer than {{min}} items", zconst.IssueCodeFallback: "slice is invalid"}}
	seen2 := map[string]int{}
	for i := 0; i < 20; i++ {
		s := new(string)
		l := z.String().Min(5).Parse("ab", s, z.WithIssueFormatter(conf.NewDefaultFormatter(own2)))
		v := []string{"x"}
		m := z.Slice(z.String()).Min(3).Validate(&v, z.WithIssueFormatter(conf.NewDefaultFormatter(own2)))
		c.Eval(2)
		if len(l) == 1 && len(m["$root"]) == 1 {
			seen2[l[0].Message+" / "+m["$root"][0].Message]++
		} else {
			seen2["unexpected issue count"]++
		}
	}
	if len(seen2) != 1 {
		c.Violation("result-depends-on-order|message-with-value-placeholder", map[string]any{"templates": "'{{value}}' is shorter than {{min}} / {{value}} has fewer than {{min}} items", "distinct_messages_over_20_runs": seen2})
		return false
	}
	c.Count("placeholder_text_rounds", 1)
	return true
}

// c09Wide: (a) an execution that names a language the application did not configure, next to configured languages whose names are
// prefixes of one another (zh, zh-Hant): the message is the same on every run; (b) a record with two long lists of invalid items
// (well over a thousand issues in one execution): the keys of the issue map are the same on every run.
func c09Wide(c *core.Ctx) bool {
	saved := conf.IssueFormatter
	defer func() { conf.IssueFormatter = saved }()
	mkLang := func(tag string) zconst.LangMap {
		return zconst.LangMap{zconst.TypeString: {zconst.IssueCodeMin: tag + ": at least {{min}}", zconst.IssueCodeFallback: tag + ": invalid"}}
	}
	i18n.SetLanguagesErrsMap(map[string]zconst.LangMap{"zh": mkLang("zh"), "zh-Hant": mkLang("zh-Hant"), "sr": mkLang("sr"), "sr_Latn": mkLang("sr_Latn"), "en": mkLang("en")}, "en")
	for _, lang := range []string{"zh-Hant-TW", "sr_Latn_RS", "zh-Hans", "zh", "fr"} {
		seen := map[string]int{}
		for i := 0; i < 30; i++ {
			var s string
			l := z.String().Min(5).Parse("ab", &s, z.WithCtxValue("lang", lang))
			c.Eval(1)
			if len(l) != 1 {
				seen[fmt.Sprintf("%d issues", len(l))]++
				continue
			}
			seen[l[0].Message]++
		}
		if len(seen) != 1 {
			c.Violation("result-depends-on-order|message-language", map[string]any{"configured_languages": "zh, zh-Hant, sr, sr_Latn, en (default en)", "lang_of_the_execution": lang, "distinct_messages_over_30_runs": seen})
			return false
		}
	}
	conf.IssueFormatter = saved
	type rec struct {
		A, B []string
		N    string
	}
	st := z.Struct(z.Schema{"a": z.Slice(z.String().Min(3)), "b": z.Slice(z.String().Min(3)), "n": z.String().Min(3)})
	items := make([]any, 700)
	for i := range items {
		items[i] = "x"
	}
	seen := map[string]int{}
	for i := 0; i < 8; i++ {
		var d rec
		m := st.Parse(map[string]any{"a": items, "b": items, "n": "y"}, &d)
		c.Eval(1)
		na, nb, nn := 0, 0, len(m["n"])
		for k := range m {
			if strings.HasPrefix(k, "a[") {
				na++
			} else if strings.HasPrefix(k, "b[") {
				nb++
			}
		}
		seen[fmt.Sprintf("keys under a: %d, under b: %d, issues of n: %d", na, nb, nn)]++
	}
	if len(seen) != 1 {
		c.Violation("result-depends-on-order|many-issues", map[string]any{"schema": "{a: Slice(String().Min(3)), b: Slice(String().Min(3)), n: String().Min(3)}", "input": "a and b: 700 items \"x\" each, n: \"y\"", "distinct_key_sets_over_8_runs": seen})
		return false
	}
	// whatever these mean, they mean the same on every run: a map whose keys spell list positions (twice, for one of them) where a list
	// is expected; a test function written for another type (it panics: every time, or never) next to failing siblings; a validated
	// value whose embedded pointer is nil
	outs := map[string]int{}
	for i := 0; i < 40; i++ {
		var l []string
		m := z.Slice(z.String().Min(3)).Parse(map[string]any{"0": "go", "1": "zog", "01": "zod", "2": "x"}, &l)
		c.Eval(1)
		outs[fmt.Sprintf("%v [%s]", l, dKeys(m))]++
	}
	if len(outs) != 1 {
		c.Violation("result-depends-on-order|map-where-a-list-is-expected", map[string]any{"schema": "Slice(String().Min(3))", "input": "map[string]any{0: go, 1: zog, 01: zod, 2: x}", "distinct_results_over_40_runs": outs})
		return false
	}
	outs = map[string]int{}
	type order struct{ Sku string }
	type acct struct {
		Orders []order
		Name   string
		Email  string
	}
	for i := 0; i < 40; i++ {
		st := z.Struct(z.Schema{
			"orders": z.Slice(z.Struct(z.Schema{"sku": z.String()}).TestFunc(func(v any, ctx z.Ctx) bool { return v.(*acct) != nil })), // written for another type
			"name":   z.String().Min(5),
			"email":  z.String().Email(),
		})
		res := ""
		func() {
			defer func() {
				if r := recover(); r != nil {
					res = "panic"
				}
			}()
			var d acct
			res = dKeys(st.Parse(map[string]any{"orders": []any{map[string]any{"sku": "a"}}, "name": "x", "email": "y"}, &d))
		}()
		c.Eval(1)
		outs[res]++
	}
	if len(outs) != 1 {
		c.Violation("result-depends-on-order|mismatched-test-function", map[string]any{"schema": "{orders: Slice(Struct{sku}.TestFunc(asserts another type)), name: String().Min(5), email: String().Email()}", "distinct_results_over_40_runs": outs})
		return false
	}
	// two body factories made by one helper, parsed side by side in one execution; sibling paths whose segments spell the same text;
	// a json.RawMessage where a record is expected, next to a list of records with json tags
	mkDoc := func(doc string) any {
		r := httptest.NewRequest("POST", "/docs", strings.NewReader(doc))
		r.Header.Set("Content-Type", "application/json")
		return zhttp.Request(r)
	}
	type part struct {
		Title string `json:"title"`
	}
	type two struct{ A, B part }
	type author struct {
		Name string `json:"full_name"`
	}
	type book struct {
		Meta    part
		Authors []author
	}
	outs = map[string]int{}
	outs2 := map[string]int{}
	outs3 := map[string]int{}
	for i := 0; i < 40; i++ {
		var d two
		m := z.Struct(z.Schema{"a": z.Struct(z.Schema{"title": z.String().Required()}), "b": z.Struct(z.Schema{"title": z.String().Required().Min(4)})}).
			Parse(map[string]any{"a": mkDoc(`{"title":"first"}`), "b": mkDoc(`{"title":"2nd"}`)}, &d)
		outs[fmt.Sprintf("%+v [%s]", d, dKeys(m))]++
		type acc struct {
			Username string
			Hostname string
			User     struct{ Name string }
			Host     struct{ Name string }
		}
		var a acc
		m = z.Struct(z.Schema{"username": z.String().Min(9), "hostname": z.String().Min(9), "user": z.Struct(z.Schema{"name": z.String().Min(9)}), "host": z.Struct(z.Schema{"name": z.String().Min(9)})}).
			Parse(map[string]any{"username": "u", "hostname": "h", "user": map[string]any{"name": "n"}, "host": map[string]any{"name": "m"}}, &a)
		outs2[dKeys(m)]++
		var bk book
		m = z.Struct(z.Schema{"meta": z.Struct(z.Schema{"title": z.String()}), "authors": z.Slice(z.Struct(z.Schema{"name": z.String().Required()}))}).
			Parse(map[string]any{"meta": json.RawMessage(`{"title":"t"}`), "authors": []any{map[string]any{"name": "Ann"}}}, &bk)
		outs3[fmt.Sprintf("%+v [%s]", bk, dKeys(m))]++
		c.Eval(3)
	}
	if len(outs) != 1 || outs["{A:{Title:first} B:{Title:2nd}} [b.title]"] != 40 {
		c.Violation("result-depends-on-order|two-body-factories-in-one-execution", map[string]any{"schema": "{a: Struct{title: Required}, b: Struct{title: Required.Min(4)}}", "input": "a and b: zhttp.Request JSON bodies ({title: first} / {title: 2nd})", "distinct_results_over_40_runs": outs, "want": "{A:{Title:first} B:{Title:2nd}} [b.title] every time"})
		return false
	}
	if len(outs2) != 1 || outs2["host.name, hostname, user.name, username"] != 40 {
		c.Violation("result-depends-on-order|sibling-paths-spelling-the-same-text", map[string]any{"schema": "{username, hostname, user: Struct{name}, host: Struct{name}} all String().Min(9)", "distinct_key_sets_over_40_runs": outs2})
		return false
	}
	if len(outs3) != 1 {
		c.Violation("result-depends-on-order|raw-message-next-to-tagged-records", map[string]any{"schema": "{meta: Struct{title}, authors: Slice(Struct{name: Required})} into struct{Meta{Title `json:title`}; Authors []{Name `json:full_name`}}", "input": "meta: json.RawMessage, authors: [{name: Ann}]", "distinct_results_over_40_runs": outs3})
		return false
	}
	type brk struct {
		Tags  []string `zog:"tags[]"`
		UName string   `zog:"user[name]"`
		Email string
		City  string
	}
	type rolesT struct {
		Roles  []string
		Nested struct{ Roles []string }
	}
	outsA, outsB, outsC := map[string]int{}, map[string]int{}, map[string]int{}
	for i := 0; i < 40; i++ {
		var b brk
		m := z.Struct(z.Schema{"tags": z.Slice(z.String().Min(3)), "uName": z.String().Min(5), "email": z.String().Email(), "city": z.String().Min(5)}).
			Parse(map[string]any{"tags[]": []any{"ok!", "x"}, "user[name]": "u", "email": "e", "city": "c"}, &b)
		outsA[dKeys(m)]++
		var rt rolesT
		rq := httptest.NewRequest("GET", "/x?roles=&roles=admin&roles=dev", nil)
		m = z.Struct(z.Schema{"roles": z.Slice(z.String()), "nested": z.Struct(z.Schema{"roles": z.Slice(z.String())})}).Parse(zhttp.Request(rq), &rt)
		outsB[fmt.Sprintf("%q %q [%s]", rt.Roles, rt.Nested.Roles, dKeys(m))]++
		shared := &z.ZogIssue{Code: "record", Message: "record-level problem"} // a fresh object per run
		var two struct{ Owner, Editor string }
		fail := func(any, z.Ctx) bool { return true }
		_ = fail
		m = z.Struct(z.Schema{
			"owner":  z.String().Test(z.Test{Func: func(v any, ctx z.Ctx) { ctx.AddIssue(shared) }}),
			"editor": z.String().Test(z.Test{Func: func(v any, ctx z.Ctx) { ctx.AddIssue(shared) }}),
		}).Parse(map[string]any{"owner": "o", "editor": "e"}, &two)
		outsC[fmt.Sprintf("%s (%d under $root) path=%q", dKeys(m), len(m["$root"]), shared.Path)]++
		c.Eval(3)
	}
	if len(outsA) != 1 || outsA["city, email, tags[][1], user[name]"] != 40 {
		c.Violation("result-depends-on-order|keys-ending-in-a-bracket", map[string]any{"schema": "fields keyed tags[] and user[name] next to email and city, all failing", "distinct_key_sets_over_40_runs": outsA, "want": "city, email, tags[][1], user[name]"})
		return false
	}
	if len(outsB) != 1 {
		c.Violation("result-depends-on-order|one-parameter-read-by-two-nodes", map[string]any{"request": "GET /x?roles=&roles=admin&roles=dev", "schema": "{roles: Slice(String()), nested: Struct{roles: Slice(String())}}", "distinct_results_over_40_runs": outsB})
		return false
	}
	if len(outsC) != 1 {
		c.Violation("result-depends-on-order|one-hand-built-issue-reported-by-two-fields", map[string]any{"schema": "{owner, editor: String().Test(files the same path-less *ZogIssue)}", "distinct_results_over_40_runs": outsC})
		return false
	}
	if o2, _ := dValidateNilEmbedded(20); len(o2) != 2 {
		c.Violation("result-depends-on-order|Validate-with-a-nil-embedded-pointer", map[string]any{"schemas": "{Rev, By, title} and {Rev, DStamp: Ptr(Struct{Note: Required}), title} validating struct{ *DStamp(nil); Title }", "distinct_results_over_20_runs_each": o2})
		return false
	}
	c.Count("wide_rounds", 1)
	return true
}

func (c09) RunCase(c *core.Ctx) {
	if c.Case%97 == 23 && !w10(c, "C09") {
		return
	}
	if c.Case%100 == 7 && !c09PlaceholderText(c) {
		return
	}
	if c.Case%500 == 9 && !c09Wide(c) {
		return
	}
	if c.Case%5 == 4 && !c09Flat(c) {
		return
	}
	if c.Case%25 == 3 {
		// "identical on every run": the same call again, after the caller edited the result of the first one
		name, problem := dDefaultsIndependent(c.R)
		c.Eval(2)
		if problem != "" {
			c.Violation("result-depends-on-order|the-same-call-again", map[string]any{"schema": name, "observed": problem})
			return
		}
	}
	o := gen.DefaultOpts()
	o.MaxFields = 5
	o.CatchPct = 35
	o.ModChains = c.R.Intn(3) == 0
	o.Share = c.R.Intn(4) == 0
	n := gen.Schema(c.R, o)
	addProbes(n)
	src := n.Source()
	reps := tierN(c.Tier, 12, 40)
	for k := 0; k < 3; k++ {
		data := gen.ParseInput(c.R, n, gen.InOpts{ValidPct: 55, AbsentPct: 18, WrongPct: 12, AltRep: true, Decoys: true})
		val := gen.ValueTree(c.R, n, gen.InOpts{ValidPct: 55, AbsentPct: 25}, false)
		// third mode: the same data as a JSON document through zjson (a tagged provider); the document is re-encoded with
		// its keys in a random order for every run
		jsonDoc := func() (string, bool) {
			m, ok := data.(map[string]any)
			if !ok || n.Kind != spec.Struct || len(m) == 0 {
				return "", false
			}
			keys := make([]string, 0, len(m))
			for k := range m {
				keys = append(keys, k)
			}
			sort.Strings(keys)
			var sb strings.Builder
			sb.WriteString("{")
			for i, j := range c.R.Perm(len(keys)) {
				kb, _ := json.Marshal(keys[j])
				vb, err := json.Marshal(m[keys[j]])
				if err != nil {
					return "", false
				}
				if i > 0 {
					sb.WriteString(",")
				}
				sb.Write(kb)
				sb.WriteString(":")
				sb.Write(vb)
			}
			sb.WriteString("}")
			return sb.String(), true
		}
		modes := []ref.Mode{ref.Parse, ref.Validate}
		if _, ok := jsonDoc(); ok {
			modes = append(modes, ref.Mode(2))
		}
		for _, mode := range modes {
			results := map[string][]string{}
			orders := map[string]bool{}
			var first string
			var input any = data
			if mode == ref.Validate {
				input = val
			}
			leaves := 0
			n.Walk(func(x *spec.Node) {
				if x.Kind.IsPrimitive() {
					leaves++
				}
			})
			hadIssue := false
			anyKeyed := mode == ref.Parse && c.R.Intn(6) == 0
			for rep := 0; rep < reps; rep++ {
				if rep%3 == 1 {
					c09Ambient(c.R) // unrelated executions whose results are handed back, between the observed ones
				}
				rec := &orderRecorder{}
				b := spec.Build(n, rec.hooks(c.R))
				var out *run.Outcome
				switch mode {
				case ref.Parse:
					if anyKeyed {
						// the record as a map[any]any (what YAML-like decoders produce) whose keys collide in their text form:
						// whatever such an input means, it means the same on every run
						out = run.Parse(b, anyKeyedMap(c.R, permuteMaps(c.R, data)), nil)
						break
					}
					out = run.Parse(b, permuteMaps(c.R, data), nil)
				case ref.Validate:
					out = run.Validate(b, val)
				default:
					doc, _ := jsonDoc()
					out = run.Parse(b, zjson.Decode(strings.NewReader(doc)), nil)
				}
				c.Eval(1)
				if out.Panicked {
					c.Violation("panic|"+mode.String(), describeCase(n, mode, input, map[string]any{"panic": fmt.Sprint(out.Panic), "stack": trunc(out.Stack, 2500)}))
					return
				}
				if len(out.Issues) > 0 {
					hadIssue = true
				}
				cr := canonResult(out)
				if anyKeyed {
					// the harness cannot render a map whose keys collide in their text form deterministically: the issue's reference
					// to the offending value is left out of the comparison in these runs
					cr = obs.Multiset(out.Issues, func(ci obs.CI) string { return ci.Key + "|" + ci.Triple() + "|" + ci.Message + "|" + ci.Err })
					if len(out.Issues) == 0 {
						cr += "\ndest=" + obs.Render(out.Dest)
					}
				}
				ord := strings.Join(rec.seq, ",")
				orders[ord] = true
				if len(results) == 0 {
					first = cr
				}
				results[cr] = append(results[cr], ord)
			}
			c.Distinct(fmt.Sprintf("visit_orders_%dfields", len(n.Fields)), fmt.Sprint(len(orders)))
			c.Count("distinct_visit_orders_observed_total", len(orders))
			if len(results) > 1 {
				var alts []map[string]any
				for cr, ords := range results {
					alts = append(alts, map[string]any{"result": cr, "visit_orders": ords})
				}
				_ = first
				c.Violation("result-depends-on-order|"+mode.String(), describeCase(n, mode, input, map[string]any{"distinct_results": alts}))
				return
			}
			if len(orders) >= 2 && (hadIssue || leaves >= 2) {
				c.NonTrivial(fpf("%s|%s|%s", src, mode, obs.Render(obs.Norm(input))))
				if c.WantSample() {
					c.Sample(describeCase(n, mode, input, map[string]any{"runs": reps, "distinct_visit_orders_observed": len(orders), "single_result": trunc(first, 600)}))
				}
			}
		}
	}
}
