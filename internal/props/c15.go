package props

import (
	"errors"
	"encoding/json"
	"fmt"
	"io"
	"mime"
	"net/http"
	"net/http/httptest"
	"net/url"
	"reflect"
	"strings"

	z "github.com/Oudwins/zog"
	"github.com/Oudwins/zog/zhttp"

	"zogverif/internal/core"
	"zogverif/internal/gen"
	"zogverif/internal/obs"
	"zogverif/internal/ref"
	"zogverif/internal/rng"
	"zogverif/internal/run"
	"zogverif/internal/spec"
)

// C15: zhttp picks the documented source and reports undecodable requests as one issue.
type c15 struct{}

func init() { core.Register(c15{}) }

func (c15) ID() string { return "C15" }

// methods are case-sensitive tokens (RFC 9110): "get" and "Head" are not GET and HEAD
var c15Methods = []string{"GET", "HEAD", "POST", "PUT", "PATCH", "DELETE", "OPTIONS", "get", "Head"}

var c15ContentTypes = []string{"", "application/json", "application/json; charset=utf-8", "application/json;charset=UTF-8", "Application/JSON", "application/json ; charset=utf-8", " application/json",
	"application/x-www-form-urlencoded", "application/x-www-form-urlencoded; charset=utf-8", "APPLICATION/X-WWW-FORM-URLENCODED", "text/plain", "multipart/form-data; boundary=x", "application/jsonx", "application/x-json", "json",
	// parameters are ignored, whatever they look like: duplicated, valueless, badly quoted, empty
	"application/json; charset=utf-8; charset=utf-8", "application/json; charset=utf-8; Charset=latin1", "application/json; a=1; a=2", "application/json; charset", "application/json;", "application/json; q=\"unterminated", "application/x-www-form-urlencoded; charset=utf-8; CHARSET=latin1", "application/x-www-form-urlencoded;;",
	// media type names are ASCII: letters that Unicode case folding maps onto ASCII letters (long s, Kelvin sign) make another, unknown type
	"application/j\u017fon", "APPLICATION/J\u017fON; charset=utf-8", "application/x-www-form-urlen\u212aoded"}

const c15JSON = `{"src":"json","only_b":"json-only","list":["j1","j2"],"num":7,"nested":{"v":"jn"}}`
const c15Multipart = "--x\r\nContent-Disposition: form-data; name=\"src\"\r\n\r\nmultipart-body\r\n--x\r\nContent-Disposition: form-data; name=\"only_b\"\r\n\r\nmultipart-only\r\n--x--\r\n"
const c15Form = `src=form-body&only_b=form-only&list=f1&list=f2&arr[]=a1&fnum=8&v=fn`

func c15Bodies() []string {
	var out []string
	for i := 0; i <= len(c15JSON); i += 3 {
		out = append(out, c15JSON[:i])
	}
	out = append(out, c15JSON, `[1,2]`, `"str"`, `12`, `null`, `true`, `{}`, ` {} `, `{"src":null}`, `{"src":"json","list":"scalar","num":"9"}`, `{"list":[]}`, `{"nested":"x"}`, `{"nested":{}}`,
		// a well-formed object holding a number no float64 can hold: undecodable as a whole (one invalid_json, nothing runs)
		`{"src":"json-body","num":1e400}`, `{"src":"json-body","nested":{"v":"x","big":-1e999},"list":["a"]}`, `{"src":"json-body","num":9007199254740993}`, `{"src":"json-body","list":["a",1e999]}`, `{"src":"json-body","list":[null,{"deep":[true,-1e400]}]}`, `{"list":["a","b"],"src":"json-body","nested":{"v":"x"}}`,
		// white space around a JSON value is space, tab, line feed and carriage return
		// a byte order mark is not white space: encoding/json refuses a document that starts with one
		"\xef\xbb\xbf"+c15JSON, "\xef\xbb\xbf{}", "\ufeff "+c15JSON,
		c15JSON+"\r\n", "{}\r\n", "\r\n\t "+c15JSON+" \t\r\n\r", "{}\r",
		c15Form, c15Multipart, `src=%zz`, `src=ok&bad=%`, `src=a;only_b=b`, ``, `src=`, `list=one`, `arr[]=`, `arr[]=x&arr[]=y`, `src=+sp+&list=a%20b`, `&&=&`)
	return out
}

var c15Queries = []string{"", "only_q=query-only", "src=query&only_q=query-only&list=q1", "src=q1&src=q2&list=a&list=b", "arr[]=qa&qnum=3&v=qn", "src=%zz&only_q=x", "arr[]=qa&arr[]=qb&list[]=zz", "src=q&nested=stray&v=under-the-nested-struct"}

func c15Schema() *spec.Node {
	probe := func(n *spec.Node) *spec.Node {
		n.Tests = append(n.Tests, probeTest())
		return n
	}
	dflt := str()
	dflt.Mods = []spec.Mod{{Op: spec.MDefault, Val: "nested-default"}}
	nested := structOf("v", probe(str()), "dflt", dflt) // no required field here: destinations are compared on success only
	nested.Fields[0].Tags = map[string]string{}
	n := structOf("src", probe(req(str())), "only_b", probe(str()), "only_q", probe(str()), "list", probe(sliceOf(str())), "arr", probe(sliceOf(str())), "n", probe(prim(spec.Int)), "nested", nested)
	n.Fields[4].Tags = map[string]string{"form": "arr[]", "query": "arr[]", "json": "arr"}
	n.Fields[5].Tags = map[string]string{"json": "num", "form": "fnum", "query": "qnum"}
	n.ExtraFields = []spec.ExtraField{{GoName: "XUntouchedS", Type: tString()}}
	n.Number()
	return n
}

func tString() reflect.Type { return reflect.TypeOf("") }

func (c15) Info(t core.Tier) core.Info {
	nb := len(c15Bodies())
	return core.Info{
		Level: "exploration",
		Rule: fmt.Sprintf("EXHAUSTIVE dispatch table: %d methods x %d Content-Type values (absent, json, json with charset, upper/mixed case, whitespace before ';', form, form with parameters, text/plain, multipart, jsonx ...) x %d bodies (valid JSON object, every 3rd truncation of it, array / string / number / null / {} / nested, valid form, bad escapes, ';', empty) x %d query strings (none, disjoint, overlapping, repeated keys, k[], bad escapes) = %d requests, each with a distinct sentinel value per source so the source read is identified from the parsed values. "+
			"expected source from the statement; expected parameter presentation computed independently with net/url per net/http's rules (body then query for POST/PUT/PATCH, query only otherwise; repeated or [] names are lists, single ones strings, missing ones absent); JSON bodies decoded with encoding/json. "+
			"decode failures: exactly one issue, key $root, code invalid_json / invalid_form, recording tests silent, sentinel-prefilled destination intact. {} is compared with the empty record. half of the undecodable requests are repeated through a top-level Ptr(Struct) / Ptr(Struct).NotNil() schema (still exactly that one issue, pointer stays nil); a quarter of the requests have an unknown (-1) or stale (smaller than the body a middleware put in place) ContentLength; flat requests carry `key[]` parameters next to absent fields keyed `key`. thorough adds random requests. every table cell is non-trivial; distinct by cell.",
			len(c15Methods), len(c15ContentTypes), nb, len(c15Queries), len(c15Methods)*len(c15ContentTypes)*nb*len(c15Queries)),
		Assumptions: append([]string{"net/url.ParseQuery and encoding/json define what a body/query contains; net/http.Request.ParseForm defines 'the form'", "HTTP methods are case-sensitive (only upper-case methods are enumerated); JSON bodies with trailing data after a complete value are not judged"}, commonAssumptions...),
		MinDistinct: 1000,
		Exhaustive:  true,
	}
}

func c15TableCases() int { return len(c15Methods) * len(c15ContentTypes) * len(c15Queries) }

func (c15) NumCases(t core.Tier) int { return c15TableCases() + tierN(t, 2000, 800000) }

func mediaType(ct string) string {
	if i := strings.IndexByte(ct, ';'); i >= 0 {
		ct = ct[:i]
	}
	b := []byte(strings.TrimSpace(ct))
	for i := range b {
		if b[i] >= 'A' && b[i] <= 'Z' {
			b[i] += 'a' - 'A'
		}
	}
	return string(b)
}

// c15Expect computes the documented outcome. kind: "query", "json", "form".
func c15Expect(method, ct, body, query string) (kind string, vals url.Values, decoded map[string]any, decodeErr bool, skip bool) {
	kind = "query"
	if method != "GET" && method != "HEAD" {
		switch mediaType(ct) {
		case "application/json":
			kind = "json"
		case "application/x-www-form-urlencoded":
			kind = "form"
		}
	}
	qv, qerr := url.ParseQuery(query)
	switch kind {
	case "query":
		return kind, qv, nil, false, false
	case "json":
		m, err := decodeJSONDoc(body)
		if err != nil || m == nil {
			return kind, nil, nil, true, false
		}
		dec := json.NewDecoder(strings.NewReader(body))
		var skipFirst any
		if dec.Decode(&skipFirst) == nil && dec.More() {
			return kind, nil, nil, false, true // trailing data: not judged
		}
		return kind, nil, m, false, false
	default:
		vals = url.Values{}
		var berr error
		if method == "POST" || method == "PUT" || method == "PATCH" {
			var bv url.Values
			bv, berr = url.ParseQuery(body)
			for k, v := range bv {
				vals[k] = append(vals[k], v...)
			}
		}
		for k, v := range qv {
			vals[k] = append(vals[k], v...)
		}
		return kind, vals, nil, berr != nil || qerr != nil, false
	}
}

type c15probeRec struct{ calls int }

func c15Request(c *core.Ctx, n *spec.Node, method, ct, body, query string) bool {
	kind, vals, decoded, decodeErr, skip := c15Expect(method, ct, body, query)
	if skip {
		c.Count("skipped_open_corner", 1)
		return true
	}
	target := "/x"
	if query != "" {
		target += "?" + query
	}
	var bodyReader io.Reader = strings.NewReader(body)
	noBody := kind == "json" && body == "" && c.R.Intn(2) == 0
	if noBody {
		bodyReader = nil // a request built without any body: Body stays nil; still an undecodable JSON request
	}
	r, err := http.NewRequest(method, target, bodyReader)
	if err != nil {
		return true
	}
	if ct != "" {
		r.Header.Set("Content-Type", ct)
	}
	bodyNote := "as built by http.NewRequest"
	if noBody {
		bodyNote = "no body at all (Body == nil)"
	}
	switch c.R.Intn(8) {
	case 0:
		// chunked upload: the length of the body is not known in advance
		r.ContentLength = -1
		bodyNote = "ContentLength=-1 (chunked)"
	case 1:
		// a middleware replaced the body (e.g. decompressed it) and left the declared length of the original alone
		if len(body) > 4 {
			r.ContentLength = int64(len(body) / 3)
			bodyNote = fmt.Sprintf("body replaced by a middleware, ContentLength=%d is the length of the original", r.ContentLength)
		}
	}
	calls := 0
	b := spec.Build(n, &spec.Hooks{OnTest: func(*spec.Node, *spec.Test, any, z.Ctx) { calls++ }})
	prior := gen.Prefill(c.R, n, true)
	preParsed := false
	if kind == "form" {
		if _, _, err := mime.ParseMediaType(ct); err != nil && !decodeErr {
			// "the form as net/http defines it": net/http itself refuses to parse a form whose Content-Type parameters are malformed; not judged
			c.Count("skipped_open_corner", 1)
			return true
		}
	}
	if kind != "json" && !decodeErr && c.R.Intn(4) == 0 {
		// a middleware looked at the form before the handler ran (r.FormValue parses and caches r.Form)
		_ = r.FormValue("zz_unrelated")
		preParsed = true
	}
	o := run.Parse(b, zhttp.Request(r), prior)
	c.Eval(1)
	defer func() {
		// handlers hand the issues back (documented usage); later requests of this case run on the recycled objects
		if o != nil && !o.Panicked && o.RawMap != nil && c.R.Intn(2) == 0 {
			z.Issues.CollectMap(o.RawMap)
		}
	}()
	det := func(extra map[string]any) map[string]any {
		m := map[string]any{"method": method, "content_type": ct, "body": trunc(body, 200), "query": query, "documented_source": kind, "form_pre_parsed_by_middleware": preParsed, "request_body": bodyNote, "issues": issuesText(o), "destination": obs.Render(o.Dest), "destination_before": obs.Render(prior)}
		for k, v := range extra {
			m[k] = v
		}
		return m
	}
	if o.Panicked {
		c.Violation("panic|"+panicKind(o.Panic), det(map[string]any{"panic": trunc(fmt.Sprint(o.Panic), 300), "stack": trunc(o.Stack, 2000)}))
		return false
	}
	if decodeErr {
		code := "invalid_json"
		if kind == "form" {
			code = "invalid_form"
		}
		ok := len(o.Issues) == 1 && o.Issues[0].Code == code && o.Issues[0].Key == "$root" && o.Issues[0].Path == ""
		if !ok {
			c.Violation("undecodable-body-not-one-top-level-issue|"+code, det(map[string]any{"want": "exactly one issue under $root with code " + code}))
			return false
		}
		if calls != 0 {
			c.Violation("schema-ran-after-decode-failure|"+code, det(map[string]any{"recording_test_calls": calls}))
			return false
		}
		if d := obs.Diff(prior, o.Dest, "$"); d != "" {
			c.Violation("destination-touched-after-decode-failure|"+code, det(map[string]any{"difference": d}))
			return false
		}
		if c.R.Intn(2) == 0 {
			// the same undecodable request through a top-level pointer schema, optional or NotNil: still exactly that one issue
			pn := &spec.Node{Kind: spec.Ptr, Elem: c15Schema()}
			sch := "z.Ptr(<the same struct schema>)"
			if c.R.Bool() {
				pn.Mods = []spec.Mod{{Op: spec.MNotNil}}
				sch += ".NotNil()"
			}
			pn.Number()
			r2, _ := http.NewRequest(method, target, strings.NewReader(body))
			if ct != "" {
				r2.Header.Set("Content-Type", ct)
			}
			oP := run.Parse(spec.Build(pn, nil), zhttp.Request(r2), nil)
			c.Eval(1)
			dp, isPtr := oP.Dest.(obs.PtrV)
			if oP.Panicked || len(oP.Issues) != 1 || oP.Issues[0].Code != code || oP.Issues[0].Key != "$root" || !isPtr || !dp.Nil {
				c.Violation("undecodable-body-not-one-top-level-issue|"+code+"|top-level-pointer", det(map[string]any{"schema": sch, "want": "exactly one issue under $root with code " + code + ", destination pointer stays nil",
					"observed_issues": issuesText(oP), "observed_destination": obs.Render(oP.Dest), "panic": fmt.Sprint(oP.Panic)}))
				return false
			}
		}
		return true
	}
	var env *ref.Env
	var data any
	switch kind {
	case "json":
		env, data = &ref.Env{Mode: ref.Parse, SourceTag: "json"}, any(decoded)
		if len(decoded) == 0 {
			data = nil // {} decodes to a record in which every field is absent
		}
	case "form":
		env = &ref.Env{Mode: ref.Parse, SourceTag: "form", Flat: true, FlatLookup: urlLookup(vals)}
	default:
		env = &ref.Env{Mode: ref.Parse, SourceTag: "query", Flat: true, FlatLookup: urlLookup(vals)}
	}
	exp := ref.Eval(n, env, data, prior)
	if exp.Unknown != "" {
		c.Count("skipped_open_corner", 1)
		return true
	}
	// paths are C10's concern: compare code and type per field, normalised
	var want, got []string
	for _, x := range exp.Issues {
		want = append(want, canonPathC15(x.Path)+"|"+x.Code+"|"+x.Dtype)
	}
	for _, ci := range o.Issues {
		got = append(got, canonPathC15(ci.Path)+"|"+ci.Code+"|"+ci.Dtype)
	}
	sortStrings(want)
	sortStrings(got)
	if a, bb := obs.MultisetDiff(want, got); len(a) > 0 || len(bb) > 0 {
		c.Violation("wrong-source-or-presentation|issues|"+kind, det(map[string]any{"expected_issues": want, "reference_destination": obs.Render(exp.Out)}))
		return false
	}
	if len(want) == 0 {
		if d := obs.Diff(exp.Out, o.Dest, "$"); d != "" {
			c.Violation("wrong-source-or-presentation|values|"+kind, det(map[string]any{"reference_destination": obs.Render(exp.Out), "difference": d}))
			return false
		}
	}
	// the documented way to make the whole record optional: the same request through a top-level Ptr(Struct)
	if kind == "json" && len(decoded) > 0 {
		pn := &spec.Node{Kind: spec.Ptr, Elem: c15Schema()}
		pn.Number()
		r2, _ := http.NewRequest(method, target, strings.NewReader(body))
		r2.Header.Set("Content-Type", ct)
		oP := run.Parse(spec.Build(pn, nil), zhttp.Request(r2), nil)
		c.Eval(1)
		expP := ref.Eval(pn, env, data, nil)
		var wantP, gotP []string
		for _, x := range expP.Issues {
			wantP = append(wantP, canonPathC15(x.Path)+"|"+x.Code+"|"+x.Dtype)
		}
		for _, ci := range oP.Issues {
			gotP = append(gotP, canonPathC15(ci.Path)+"|"+ci.Code+"|"+ci.Dtype)
		}
		sortStrings(wantP)
		sortStrings(gotP)
		a, bb := obs.MultisetDiff(wantP, gotP)
		if oP.Panicked || len(a) > 0 || len(bb) > 0 || (len(wantP) == 0 && !obs.Equal(expP.Out, oP.Dest)) {
			c.Violation("top-level-pointer-to-struct|"+kind, det(map[string]any{"schema": "z.Ptr(<the same struct schema>)", "expected_issues": wantP, "observed_issues": issuesText(oP), "observed_destination": obs.Render(oP.Dest), "panic": fmt.Sprint(oP.Panic)}))
			return false
		}
	}
	return true
}

func canonPathC15(p string) string {
	for _, pair := range [][2]string{{"arr[]", "arr"}, {"num", "n"}, {"fnum", "n"}, {"qnum", "n"}} {
		if p == pair[0] {
			return pair[1]
		}
	}
	return p
}

// c15EmptyObject: the body {} is a record in which every field is absent - at every depth: the fields of nested structs get their
// defaults and report their required values, exactly as for a body that merely lacks them.
func c15EmptyObject(c *core.Ctx) bool {
	type addr struct {
		City    string `json:"city"`
		Country string `json:"country"`
		Zip     int    `json:"zip"`
	}
	type user struct {
		Name string `json:"name"`
		Addr addr   `json:"address"`
		Meta *addr  `json:"meta"`
	}
	mk := func() *z.StructSchema {
		a := func() *z.StructSchema {
			return z.Struct(z.Schema{"city": z.String().Required(), "country": z.String().Default("nowhere"), "zip": z.Int()})
		}
		return z.Struct(z.Schema{"name": z.String().Default("anon"), "addr": a(), "meta": z.Ptr(a())})
	}
	want := ""
	for i, body := range []string{`{"other":1}`, `{}`, ` {} `, `{"address":{}}`} {
		r := httptest.NewRequest("POST", "/", strings.NewReader(body))
		r.Header.Set("Content-Type", "application/json")
		var u user
		m := mk().Parse(zhttp.Request(r), &u)
		c.Eval(1)
		var codes []string
		for k, l := range m {
			if k != "$first" {
				for _, e := range l {
					codes = append(codes, e.Code) // the keys of {} are the known finding of C10: only the codes are compared here
				}
			}
		}
		got := fmt.Sprintf("%+v meta=%v issues=%v", u.Addr, u.Meta, codes) + " name=" + u.Name
		if i == 0 {
			want = got
			if u.Addr.Country != "nowhere" || u.Name != "anon" || len(codes) != 1 || u.Meta != nil {
				c.Violation("empty-object|baseline", map[string]any{"body": body, "observed": got})
				return false
			}
			continue
		}
		if got != want {
			c.Violation("empty-object-is-not-a-record-of-absent-fields", map[string]any{"schema": "{name: Default(anon), addr: Struct{city: Required, country: Default(nowhere), zip}, meta: Ptr(same struct)}", "body": body, "observed": got, "same_as_for_a_body_that_lacks_the_fields": want})
			return false
		}
	}
	return true
}

// c15Bodies2: the JSON source is the body the request carries when it is parsed - not the payload it was built with (requests made
// with http.NewRequest from a strings reader can replay that), and a body is read before it is closed (bodies of real server requests
// refuse reads after Close).
type c15StrictBody struct {
	r      *strings.Reader
	closed bool
}

func (b *c15StrictBody) Read(p []byte) (int, error) {
	if b.closed {
		return 0, errors.New("http: read on closed response body")
	}
	return b.r.Read(p)
}
func (b *c15StrictBody) Close() error { b.closed = true; return nil }

func c15Bodies2(c *core.Ctx) bool {
	type rec struct {
		Src string `json:"src"`
	}
	sch := func() *z.StructSchema { return z.Struct(z.Schema{"src": z.String().Required()}) }
	r1, _ := http.NewRequest("POST", "/x", strings.NewReader(`{"src":"original payload"}`))
	r1.Header.Set("Content-Type", "application/json")
	r1.Body = io.NopCloser(strings.NewReader(`{"src":`)) // a middleware replaced the body (here: truncated it)
	var d1 rec
	m1 := sch().Parse(zhttp.Request(r1), &d1)
	r2, _ := http.NewRequest("POST", "/x", strings.NewReader(`{"src":"original payload"}`))
	r2.Header.Set("Content-Type", "application/json")
	r2.Body = io.NopCloser(strings.NewReader(`{"src":"replaced"}`))
	var d2 rec
	m2 := sch().Parse(zhttp.Request(r2), &d2)
	r3, _ := http.NewRequest("POST", "/x", nil)
	r3.Header.Set("Content-Type", "application/json")
	r3.Body = &c15StrictBody{r: strings.NewReader(`{"src":"strict"}`)}
	var d3 rec
	m3 := sch().Parse(zhttp.Request(r3), &d3)
	c.Eval(3)
	if len(m1["$root"]) != 1 || m1["$root"][0].Code != "invalid_json" || d1.Src != "" || len(m2) != 0 || d2.Src != "replaced" || len(m3) != 0 || d3.Src != "strict" {
		c.Violation("wrong-source-or-presentation|json-body-of-the-request", map[string]any{"truncated replacement body": fmt.Sprintf("%v %+v", z.Issues.SanitizeMap(m1), d1), "valid replacement body": fmt.Sprintf("%v %+v", z.Issues.SanitizeMap(m2), d2), "body that refuses reads after Close": fmt.Sprintf("%v %+v", z.Issues.SanitizeMap(m3), d3), "want": "one invalid_json at $root and an untouched destination / {Src:replaced} / {Src:strict}"})
		return false
	}
	return true
}

func (c15) RunCase(c *core.Ctx) {
	if c.Case%400 == 5 && !c15EmptyObject(c) {
		return
	}
	if c.Case%400 == 6 && !c15Bodies2(c) {
		return
	}
	n := c15Schema()
	if c.Case >= c15TableCases() {
		c15Random(c, n)
		return
	}
	i := c.Case
	q := c15Queries[i%len(c15Queries)]
	i /= len(c15Queries)
	ct := c15ContentTypes[i%len(c15ContentTypes)]
	i /= len(c15ContentTypes)
	m := c15Methods[i]
	cells := 0
	for _, body := range c15Bodies() {
		if !c15Request(c, n, m, ct, body, q) {
			return
		}
		cells++
		c.NonTrivial(fpf("%s|%s|%s|%s", m, ct, body, q))
	}
	c.Count("table_cells", cells)
	kind, _, _, _, _ := c15Expect(m, ct, c15JSON, q)
	c.Distinct("documented_sources", kind)
	c.Distinct("methods", m)
	c.Distinct("media_types", mediaType(ct))
	// {} behaves exactly like the empty record
	if kind == "json" {
		r, _ := http.NewRequest(m, "/x?"+q, strings.NewReader(`{}`))
		r.Header.Set("Content-Type", ct)
		b := spec.Build(n, nil)
		o1 := run.Parse(b, zhttp.Request(r), nil)
		o2 := run.Parse(b, map[string]any{}, nil)
		c.Eval(2)
		a1, a2 := actualTriples(o1), actualTriples(o2)
		for i := range a1 {
			a1[i] = canonPathC15(strings.SplitN(a1[i], "|", 2)[0]) + "|" + strings.SplitN(a1[i], "|", 2)[1]
		}
		if x, y := obs.MultisetDiff(a1, a2); len(x) > 0 || len(y) > 0 || !obs.Equal(o1.Dest, o2.Dest) || o1.Panicked {
			c.Violation("empty-object-is-not-the-empty-record", map[string]any{"method": m, "content_type": ct, "issues_for_{}": issuesText(o1), "issues_for_empty_map": issuesText(o2), "panic": fmt.Sprint(o1.Panic)})
			return
		}
	}
	if c.WantSample() && c.Case%101 == 0 {
		c.Sample(map[string]any{"method": m, "content_type": ct, "query": q, "documented_source": kind, "bodies_tried": cells})
	}
}

func c15Random(c *core.Ctx, n *spec.Node) {
	r := c.R
	for k := 0; k < 20; k++ {
		m := c15Methods[r.Intn(len(c15Methods))]
		ct := c15ContentTypes[r.Intn(len(c15ContentTypes))]
		body := randomWire(r)
		q := randomQuery(r)
		if !c15Request(c, n, m, ct, body, q) {
			return
		}
		c.NonTrivial(fpf("rnd|%s|%s|%s|%s", m, ct, body, q))
	}
	c.Count("random_requests", 20)
}

func randomQuery(r *rng.Rand) string {
	keys := []string{"src", "only_q", "list", "arr[]", "qnum", "v", "other", "list[]"}
	var parts []string
	for i := 0; i < r.Intn(6); i++ {
		k := keys[r.Intn(len(keys))]
		v := []string{"q" + fmt.Sprint(r.Intn(9)), "", "a+b", "%41", "%zz", "7"}[r.Intn(6)]
		parts = append(parts, k+"="+v)
	}
	return strings.Join(parts, "&")
}

func randomWire(r *rng.Rand) string {
	if r.Bool() {
		keys := []string{"src", "only_b", "list", "arr[]", "fnum", "v"}
		var parts []string
		for i := 0; i < r.Intn(6); i++ {
			parts = append(parts, keys[r.Intn(len(keys))]+"="+[]string{"b" + fmt.Sprint(r.Intn(9)), "", "%", "x y", "9"}[r.Intn(5)])
		}
		return strings.Join(parts, "&")
	}
	m := map[string]any{}
	if r.Bool() {
		m["src"] = []any{"json", 5, nil, true, "", []any{"x"}}[r.Intn(6)]
	}
	if r.Bool() {
		m["list"] = []any{[]any{"a", "b"}, "scalar", []any{}, nil, []any{1, nil}}[r.Intn(5)]
	}
	if r.Bool() {
		m["num"] = []any{1, "2", 2.5, "x", nil}[r.Intn(5)]
	}
	if r.Bool() {
		m["nested"] = []any{map[string]any{"v": "n"}, map[string]any{}, "x", nil}[r.Intn(4)]
	}
	b, _ := json.Marshal(m)
	s := string(b)
	if r.Intn(5) == 0 {
		s = s[:r.Intn(len(s)+1)]
	}
	return s
}
