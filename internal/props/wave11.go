package props

import (
	"errors"
	"fmt"
	"net/http"
	"reflect"
	"strings"
	"time"

	z "github.com/Oudwins/zog"
	"github.com/Oudwins/zog/zhttp"
)

// Directed scenarios added after the eleventh wave of seeded changes (same conventions as wave10.go; they are appended to the
// lists of wave10.go, so w10(c, id) runs them too).

type w11Base struct {
	Name string `zog:""`
}
type w11User struct {
	w11Base
	Nick string `zog:""`
	Age  int
}
type w11Wrap struct {
	U w11User `zog:"u"`
}

type w11Item struct {
	Name string `json:"n"`
}
type w11Owner struct{ X string }
type w11Dest struct {
	Owner w11Owner
	Items []w11Item
}
type w11OwnerInput struct{ X string }

func w11LocalA() (any, string) {
	type rec struct {
		Name string
		Age  int
	}
	return rec{Name: "bob", Age: 41}, "{Name:bob Age:41}"
}
func w11LocalB() (any, string) {
	type rec struct {
		Age  int
		Zip  string
		Name string
	}
	return rec{Age: 7, Zip: "z", Name: "eve"}, "{Name:eve Age:7}"
}

func init() {
	add := func(id string, s ...w10Scenario) { w10Scenarios[id] = append(w10Scenarios[id], s...) }

	add("C01",
		// the struct-level tests of a nested struct are declared constraints, also when the nested value is all zero
		func() (string, map[string]any) {
			type inner struct {
				A string
				N int
			}
			type outer struct {
				In   inner
				List []inner
				P    *inner
			}
			mk := func() *z.StructSchema {
				in := func() *z.StructSchema {
					return z.Struct(z.Schema{"a": z.String(), "n": z.Int()}).TestFunc(func(v any, ctx z.Ctx) bool { return v.(*inner).A != "" }, z.IssueCode("inner_needs_a"))
				}
				return z.Struct(z.Schema{"in": in(), "list": z.Slice(in()), "p": z.Ptr(in())})
			}
			for _, v := range []outer{{}, {List: []inner{{}}}, {P: &inner{}}, {In: inner{N: 1}}} {
				vv := v
				m := mk().Validate(&vv)
				violated := v.In.A == "" || (len(v.List) > 0 && v.List[0].A == "") || (v.P != nil && v.P.A == "")
				if violated && len(m) == 0 {
					return "success-but-constraint-violated|struct-level-test-of-a-nested-zero-struct|Validate", map[string]any{"schema": "{in: Struct{a, n}.TestFunc(A != \"\"), list: Slice(same), p: Ptr(same)}", "value": fmt.Sprintf("%+v", v), "issues": "none"}
				}
			}
			return "", nil
		})

	add("C02",
		// every ASCII symbol is a special character (0x21-0x2F, 0x3A-0x40, 0x5B-0x60, 0x7B-0x7E), one at a time
		func() (string, map[string]any) {
			for r := rune(0x21); r <= 0x7E; r++ {
				special := (r >= 0x21 && r <= 0x2F) || (r >= 0x3A && r <= 0x40) || (r >= 0x5B && r <= 0x60) || (r >= 0x7B && r <= 0x7E)
				in := "ab" + string(r) + "cd"
				var s string
				l := z.String().ContainsSpecial().Parse(in, &s)
				ln := z.String().Not().ContainsSpecial().Parse(in, &s)
				if (len(l) == 0) != special || (len(ln) == 0) == special {
					return "missing-or-spurious-issue|contains-special-one-symbol", map[string]any{"schema": "String().ContainsSpecial() / String().Not().ContainsSpecial()", "input": in, "is_special": special, "issues": w10List(l) + " / " + w10List(ln)}
				}
			}
			return "", nil
		},
		// text that is not a number is un-coercible: exactly one coerce issue, the node's tests do not run on some other number
		func() (string, map[string]any) {
			for _, in := range []string{"1,000", "7,", ",5", "2,50", "1.000,5", "12a", "1 000", "٣", "0x", "1e", "--1", "+-1", "1.2.3"} {
				var f float64
				l := z.Float64().GT(1000000).Parse(in, &f)
				var f32 float32
				l32 := z.Float32().LT(-5).Parse(in, &f32)
				var n int
				ln := z.Int().GT(1000000).Parse(in, &n)
				if len(l) != 1 || l[0].Code != "coerce" || len(l32) != 1 || l32[0].Code != "coerce" || len(ln) != 1 || ln[0].Code != "coerce" {
					return "missing-or-wrong-issue|text-that-is-not-a-number", map[string]any{"schema": "Float64().GT(1000000) / Float32().LT(-5) / Int().GT(1000000)", "input": in, "issues": w10List(l) + " / " + w10List(l32) + " / " + w10List(ln), "want": "one coerce issue each"}
				}
			}
			return "", nil
		},
		// a body net/http's ParseForm does not read (multipart) is not "the form": the request is read from its query parameters
		func() (string, map[string]any) {
			type user struct {
				Name string `query:"name" form:"fullname"`
			}
			body := "--XX\r\nContent-Disposition: form-data; name=\"file\"; filename=\"a.txt\"\r\n\r\nhello\r\n--XX--\r\n"
			for _, q := range []string{"abcd", "ab"} {
				req, _ := http.NewRequest("POST", "/upload?name="+q, strings.NewReader(body))
				req.Header.Set("Content-Type", "multipart/form-data; boundary=XX")
				var u user
				m := z.Struct(z.Schema{"name": z.String().Required().Min(3)}).Parse(zhttp.Request(req), &u)
				want := ""
				if q == "ab" {
					want = "name"
				}
				if w10Keys(m) != want || (want == "" && u.Name != q) {
					return "missing-or-spurious-issue|multipart-request", map[string]any{"request": "POST /upload?name=" + q + " multipart/form-data", "destination": "struct{Name string `query:\"name\" form:\"fullname\"`}", "issue_keys": w10Keys(m), "want": want, "value": u.Name}
				}
			}
			return "", nil
		})

	add("C05",
		// a Preprocess wrapper's own failure is not a failure of the catching node it wraps
		func() (string, map[string]any) {
			type doc struct{ A int }
			d := doc{A: -1}
			called := 0
			sch := z.Struct(z.Schema{"a": z.Preprocess(func(s string, ctx z.Ctx) (int, error) { called++; return len(s), nil }, z.Int().Catch(7))})
			m := sch.Parse(map[string]any{"a": []string{"1", "2"}}, &d)
			d2 := doc{A: -1}
			m2 := sch.Parse(map[string]any{"a": struct{ X int }{3}}, &d2)
			if len(m["a"]) != 1 || d.A != -1 || len(m2["a"]) != 1 || d2.A != -1 || called != 0 {
				return "catch-reaches-beyond-its-node|preprocess-type-mismatch", map[string]any{"schema": "{a: Preprocess(func(string) int, Int().Catch(7))}", "input": `{a: []string{"1","2"}} / {a: struct{X int}{3}}`, "issue_keys": w10Keys(m) + " / " + w10Keys(m2), "destination": fmt.Sprint(d.A, " / ", d2.A), "function_calls": called, "want": "one issue at a, destination untouched (-1), function not called"}
			}
			return "", nil
		})

	add("C07",
		// which key a field is read by depends on this call's schema only, not on what an earlier schema called the field
		func() (string, map[string]any) {
			type rec struct {
				Name string `db:"full_name"`
				Nick string `db:"nick_name" json:"nick"`
			}
			for round := 0; round < 3; round++ {
				keys := []string{"name", "Name"}
				if round%2 == 1 {
					keys = []string{"Name", "name"}
				}
				for _, k := range keys {
					var d rec
					m := z.Struct(z.Schema{k: z.String().Required(), "nick": z.String().Required()}).Parse(map[string]any{k: "v-" + k, "nick": "n"}, &d)
					if len(m) != 0 || d.Name != "v-"+k || d.Nick != "n" {
						return "result-depends-on-history|key-of-a-field-resolved-by-an-earlier-schema", map[string]any{"destination": "struct{Name string `db:\"full_name\"`; Nick string `db:\"nick_name\" json:\"nick\"`}", "history": "the same field addressed by schemas keyed name and Name", "call": fmt.Sprintf("{%s: String().Required(), nick: ...}.Parse({%s: v-%s, nick: n})", k, k, k), "issue_keys": w10Keys(m), "value": fmt.Sprintf("%+v", d)}
					}
				}
			}
			return "", nil
		},
		// struct values as input: two types with the same name and different layouts
		func() (string, map[string]any) {
			type out struct {
				Name string
				Age  int
			}
			for round := 0; round < 4; round++ {
				for i, mk := range []func() (any, string){w11LocalA, w11LocalB} {
					if round%2 == 1 {
						mk = []func() (any, string){w11LocalB, w11LocalA}[i]
					}
					in, want := mk()
					var d out
					m := z.Struct(z.Schema{"Name": z.String().Required(), "Age": z.Int().Required()}).Parse(in, &d)
					if len(m) != 0 || fmt.Sprintf("%+v", d) != want {
						return "result-depends-on-history|struct-input-of-a-same-named-type", map[string]any{"history": "a struct value of another function-local type with the same name (rec) and another field layout was parsed before", "input": fmt.Sprintf("%+v", in), "issue_keys": w10Keys(m), "destination": fmt.Sprintf("%+v", d), "want": want}
					}
				}
			}
			return "", nil
		})

	add("C09",
		// a Go struct as the value of one field, raw records under a sibling list
		func() (string, map[string]any) {
			seen := map[string]int{}
			for i := 0; i < 300; i++ {
				shape := z.Schema{}
				owner := z.Struct(z.Schema{"X": z.String().Required()})
				items := z.Slice(z.Struct(z.Schema{"name": z.String().Required()}))
				if i%2 == 0 {
					shape["owner"], shape["items"] = owner, items
				} else {
					shape["items"], shape["owner"] = items, owner
				}
				var d w11Dest
				m := z.Struct(shape).Parse(map[string]any{"owner": w11OwnerInput{X: "1"}, "items": []any{map[string]any{"name": "bob"}}}, &d)
				seen[w10Keys(m)+fmt.Sprintf(" -> %+v", d)]++
			}
			if _, ok := seen[" -> {Owner:{X:1} Items:[{Name:bob}]}"]; len(seen) != 1 || !ok {
				return "result-depends-on-field-order|go-struct-value-next-to-raw-records", map[string]any{"schema": "{owner: Struct{X}, items: Slice(Struct{name})}", "input": "{owner: OwnerInput{X: 1} (a Go struct), items: [{name: bob}]}; item type struct{Name string `json:\"n\"`}", "distinct_outcomes_over_300_runs": fmt.Sprint(seen)}
			}
			return "", nil
		},
		// a map handed to a String() leaf prints with sorted keys (%v), whatever order the runtime iterates it in
		func() (string, map[string]any) {
			seen := map[string]int{}
			for i := 0; i < 200; i++ {
				in := map[string]any{}
				ks := []string{"b", "a", "d", "c", "e", "k", "j", "i", "h", "g", "f"}
				for j := range ks {
					in[ks[(j+i)%len(ks)]] = j
				}
				for j, k := range ks {
					in[k] = j
				}
				var s string
				z.String().Parse(in, &s)
				seen[s]++
			}
			if len(seen) != 1 {
				return "result-depends-on-map-order|map-input-to-a-string-leaf", map[string]any{"schema": "String()", "input": "a map[string]any with eleven keys", "distinct_destinations_over_200_runs": len(seen)}
			}
			return "", nil
		})

	add("C10",
		// the sanitized forms carry the messages and nothing else
		func() (string, map[string]any) {
			quiet := z.WithIssueFormatter(func(e *z.ZogIssue, ctx z.Ctx) {})
			var n int
			l := z.Int().Parse("not a number", &n, quiet)
			var d struct{ A string }
			m := z.Struct(z.Schema{"a": z.String().PostTransform(func(any, z.Ctx) error { return errors.New("secret detail") })}).Parse(map[string]any{"a": "x"}, &d, quiet)
			sl := z.Issues.SanitizeList(l)
			sm := z.Issues.SanitizeMap(m)
			if len(l) != 1 || len(sl) != 1 || sl[0] != l[0].Message || len(m["a"]) != 1 || len(sm["a"]) != 1 || sm["a"][0] != m["a"][0].Message || strings.Contains(fmt.Sprint(sl, sm), "secret") || strings.Contains(fmt.Sprint(sl), "strconv") {
				return "sanitized-form-is-not-the-messages|issue-without-a-message", map[string]any{"call": "Int().Parse(text) / {a: String().PostTransform(returns an error)} under WithIssueFormatter(sets no message)", "messages": fmt.Sprintf("%q / %q", l[0].Message, m["a"][0].Message), "sanitized": fmt.Sprintf("%q / %q", sl, sm)}
			}
			return "", nil
		},
		// Validate resolves the key of a promoted field like Parse does, also when its zog tag is present and empty
		func() (string, map[string]any) {
			mk := func() *z.StructSchema {
				return z.Struct(z.Schema{"U": z.Struct(z.Schema{"name": z.String().Required(), "age": z.Int().Required(), "nick": z.String().Required()})})
			}
			var w w11Wrap
			mv := mk().Validate(&w)
			var w2 w11Wrap
			mp := mk().Parse(map[string]any{"u": map[string]any{"x": 1}}, &w2)
			ok := w10Keys(mv) == w10Keys(mp)
			for k, l := range mv {
				for _, i := range l {
					if k != "$first" && i.Path != k {
						ok = false
					}
				}
			}
			if !ok {
				return "issue-paths|promoted-field-with-an-empty-zog-tag|Validate", map[string]any{"destination": "struct{U struct{Base{Name `zog:\"\"`}; Nick `zog:\"\"`; Age} `zog:\"u\"`}", "validate_keys": w10Keys(mv), "parse_keys": w10Keys(mp)}
			}
			return "", nil
		})

	add("C12",
		// a list of another type is a type mismatch for a Preprocess function over a typed list: the function is not called
		func() (string, map[string]any) {
			calls := 0
			inner := 0
			var d struct{ Tags []string }
			sch := z.Struct(z.Schema{"tags": z.Preprocess(func(s []string, ctx z.Ctx) ([]string, error) { calls++; return s, nil },
				z.Slice(z.String().TestFunc(func(any, z.Ctx) bool { inner++; return true })))})
			m := sch.Parse(map[string]any{"tags": []any{"a", "b"}}, &d)
			m2 := sch.Parse(map[string]any{"tags": []int{1}}, &d)
			if calls != 0 || inner != 0 || len(m["tags"]) != 1 || len(m2["tags"]) != 1 {
				return "preprocess-argument|list-of-another-type", map[string]any{"schema": "{tags: Preprocess(func([]string) []string, Slice(String().TestFunc(counts)))}", "input": `{tags: []any{"a","b"}} / {tags: []int{1}}`, "function_calls": calls, "wrapped_schema_callbacks": inner, "issue_keys": w10Keys(m) + " / " + w10Keys(m2), "want": "no calls, one issue at tags"}
			}
			return "", nil
		},
		// ctx.Get returns the values passed to this call and nothing else - not the parameters of a test that ran before
		func() (string, map[string]any) {
			var got []string
			probe := func(where string, ctx z.Ctx) {
				for _, k := range []string{"min", "max", "len", "eq", "gt", "contained", "hint", "after"} {
					if v := ctx.Get(k); v != nil {
						got = append(got, fmt.Sprintf("%s: ctx.Get(%s) = %v", where, k, v))
					}
				}
				if ctx.Get("tenant") != "acme" {
					got = append(got, where+": tenant missing")
				}
			}
			type doc struct {
				Name string
				N    int
				L    []string
				T    time.Time
			}
			sch := func() *z.StructSchema {
				return z.Struct(z.Schema{
					"name": z.String().Min(2).Max(10, z.Params(map[string]any{"max": 10, "hint": "h"})).TestFunc(func(v any, ctx z.Ctx) bool { probe("name.test", ctx); return true }).PostTransform(func(p any, ctx z.Ctx) error { probe("name.post", ctx); return nil }),
					"n":    z.Int().GT(1).EQ(5).PostTransform(func(p any, ctx z.Ctx) error { probe("n.post", ctx); return nil }),
					"l":    z.Slice(z.String().Len(1)).Min(1).Contains("a").PostTransform(func(p any, ctx z.Ctx) error { probe("l.post", ctx); return nil }),
					"t":    z.Time().After(time.Unix(0, 0)).PostTransform(func(p any, ctx z.Ctx) error { probe("t.post", ctx); return nil }),
				}).TestFunc(func(v any, ctx z.Ctx) bool { probe("struct.test", ctx); return true })
			}
			var d doc
			sch().Parse(map[string]any{"name": "abc", "n": 5, "l": []any{"a"}, "t": time.Unix(100, 0)}, &d, z.WithCtxValue("tenant", "acme"))
			v := doc{Name: "abc", N: 5, L: []string{"a"}, T: time.Unix(100, 0)}
			sch().Validate(&v, z.WithCtxValue("tenant", "acme"))
			if len(got) != 0 {
				return "callback-context-values|key-that-was-not-passed", map[string]any{"schema": "{name: String().Min(2).Max(10, Params{max, hint}).TestFunc.PostTransform, n: Int().GT(1).EQ(5).PostTransform, l: Slice(String().Len(1)).Min(1).Contains(a).PostTransform, t: Time().After.PostTransform}.TestFunc", "option": "WithCtxValue(tenant, acme)", "observed": strings.Join(got, "; ")}
			}
			return "", nil
		})

	add("C17",
		// WithCoercer replaces the coercion of its own schema only: not of the list nested in it, not of that list used elsewhere
		func() (string, map[string]any) {
			calls := 0
			row := z.Slice(z.Int())
			grid := z.Slice(row, z.WithCoercer(func(v any) (any, error) { calls++; return v, nil }))
			var g [][]int
			m := grid.Parse([]any{[]any{1, 2}, []any{3}}, &g)
			var r []int
			m2 := row.Parse(5, &r)
			if len(m) != 0 || calls != 1 || len(m2) != 0 || fmt.Sprint(g, r) != "[[1 2] [3]] [5]" {
				return "option-leaks-to-another-schema|coercer-of-a-list-of-lists", map[string]any{"schema": "row := Slice(Int()); grid := Slice(row, WithCoercer(counting identity))", "calls_of_the_custom_coercer_for_one_grid": calls, "grid": fmt.Sprint(g), "row_alone_given_a_scalar": fmt.Sprint(r), "issue_keys": w10Keys(m) + " / " + w10Keys(m2), "want": "1 call; [[1 2] [3]]; [5]"}
			}
			return "", nil
		},
		// the time layout options are coercer options: through Ptr they configure the pointed-to schema, the last one wins
		func() (string, map[string]any) {
			const layout = "02/01/2006"
			want := time.Date(2024, time.March, 9, 0, 0, 0, 0, time.UTC)
			viaPtr := z.Ptr(z.Time())
			z.Time.Format(layout)(viaPtr)
			var p *time.Time
			m := viaPtr.Parse("09/03/2024", &p)
			viaPtr2 := z.Ptr(z.Time(z.WithCoercer(func(any) (any, error) { return time.Unix(0, 0), nil })))
			z.Time.FormatFunc(func(s string) (time.Time, error) { return time.Parse(layout, s) })(viaPtr2)
			var p2 *time.Time
			m2 := viaPtr2.Parse("09/03/2024", &p2)
			if len(m) != 0 || p == nil || !p.Equal(want) || len(m2) != 0 || p2 == nil || !p2.Equal(want) {
				return "option-does-not-reach-the-pointed-to-schema|time-layout", map[string]any{"schema": "p := Ptr(Time()); Time.Format(02/01/2006)(p) / Ptr(Time(WithCoercer(..))) then Time.FormatFunc(..)", "input": "09/03/2024", "issue_keys": w10Keys(m) + " / " + w10Keys(m2), "values": fmt.Sprint(p, " / ", p2)}
			}
			return "", nil
		},
		// Message(m) makes the message exactly m
		func() (string, map[string]any) {
			var s string
			for _, msg := range []string{"write {{min}} letters", "{{value}} is short, need {{min}}", "{{max}}{{min}}{{len}}", "{{hint}} {{ min }}"} {
				l := z.String().Min(5, z.Message(msg), z.Params(map[string]any{"min": 5, "hint": "h"})).Parse("abc", &s)
				l2 := z.String().Required(z.Message(msg)).Parse(nil, &s)
				if len(l) != 1 || l[0].Message != msg || len(l2) != 1 || l2[0].Message != msg {
					return "option-does-not-mean-what-it-says|message-with-braces", map[string]any{"schema": fmt.Sprintf("String().Min(5, Message(%q)) / Required(Message(..))", msg), "messages": w10List(l) + " / " + w10List(l2)}
				}
			}
			return "", nil
		})

	add("C19",
		// Parse never modifies its input: the request's own form values stay as they were sent
		func() (string, map[string]any) {
			type doc struct {
				Tag []string `form:"tag"`
				One string   `form:"one"`
				Arr []string `form:"arr"`
			}
			mk := func() *http.Request {
				r, _ := http.NewRequest("POST", "/x?tag=+q+", strings.NewReader("tag=+a&tag=b+&tag=c&one=+padded+&arr[]=+x+&arr[]=y"))
				r.Header.Set("Content-Type", "application/x-www-form-urlencoded")
				return r
			}
			ref := mk()
			ref.ParseForm()
			r := mk()
			var d doc
			z.Struct(z.Schema{"tag": z.Slice(z.String()), "one": z.String(), "arr": z.Slice(z.String())}).Parse(zhttp.Request(r), &d)
			if !reflect.DeepEqual(r.Form, ref.Form) || !reflect.DeepEqual(r.PostForm, ref.PostForm) {
				return "input-modified|form-values-of-the-request", map[string]any{"request": "POST form tag=+a&tag=b+&tag=c&one=+padded+&arr[]=+x+&arr[]=y", "form_after_parse": fmt.Sprintf("%q", r.Form), "form_as_net_http_parses_it": fmt.Sprintf("%q", ref.Form)}
			}
			return "", nil
		})
}
