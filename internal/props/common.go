// Package props holds one monitor per property (C01..C20).
package props

import (
	"fmt"
	"sort"
	"strings"

	z "github.com/Oudwins/zog"
	"github.com/Oudwins/zog/parsers/zjson"

	"zogverif/internal/core"
	"zogverif/internal/obs"
	"zogverif/internal/ref"
	"zogverif/internal/rng"
	"zogverif/internal/run"
	"zogverif/internal/spec"
)

func tierN(t core.Tier, quick, thorough int) int {
	if t == core.Thorough {
		return thorough
	}
	return quick
}

var commonAssumptions = []string{
	"the Go toolchain, reflect, math/big, encoding/json, net/url used by the oracles",
	"the reference semantics in /verif/internal/ref is a faithful reading of the property statements (DESIGN.md §3.3)",
	"verdict covers only the executions produced by this run (fixed case list derived from VERIF_SEED)",
}

// permutedOrder returns a FieldOrder hook that inserts struct fields in a random order.
func permutedOrder(r *rng.Rand) func(n *spec.Node) []int {
	return func(n *spec.Node) []int { return r.Perm(len(n.Fields)) }
}

func expectedTriples(res *ref.Result) []string {
	out := make([]string, len(res.Issues))
	for i, x := range res.Issues {
		out[i] = x.Triple()
	}
	sort.Strings(out)
	return out
}

func actualTriples(o *run.Outcome) []string {
	out := make([]string, len(o.Issues))
	for i, c := range o.Issues {
		out[i] = c.Triple()
	}
	sort.Strings(out)
	return out
}

func issuesText(o *run.Outcome) []string {
	out := make([]string, len(o.Issues))
	for i, c := range o.Issues {
		out[i] = c.String()
	}
	sort.Strings(out)
	return out
}

func describeCase(n *spec.Node, mode ref.Mode, input any, extra map[string]any) map[string]any {
	m := map[string]any{
		"schema": n.Source(),
		"mode":   mode.String(),
		"input":  obs.Render(obs.Norm(input)),
	}
	for k, v := range extra {
		m[k] = v
	}
	return m
}

func trunc(s string, n int) string {
	if len(s) <= n {
		return s
	}
	return s[:n] + "…"
}

func joinS(s []string) string { return strings.Join(s, " ; ") }

func fpf(format string, a ...any) string { return fmt.Sprintf(format, a...) }

// ambientSchema / ambientHistory: a few earlier calls through the tagged front ends (JSON), some of whose results are
// handed back to the pools. Properties quantify over calls made in a process that has done other work before; running
// such history in front of a case makes leaks from one execution into the next observable to that case's oracle.
type ambientDest struct {
	A string `json:"aj"`
	B int    `json:"bj"`
}

var ambientSchema = z.Struct(z.Schema{"a": z.String().Min(3).Required(), "b": z.Int().GT(5).Catch(7)})

func ambientHistory(r *rng.Rand) {
	k := r.Intn(3)
	for i := 0; i < k; i++ {
		var d ambientDest
		body := []string{`{"aj":"x","bj":1}`, `{"aj":"long enough","bj":9}`, `{}`, `{"aj":`, `{"zz":1}`}[r.Intn(5)]
		var m z.ZogIssueMap
		if r.Bool() {
			m = ambientSchema.Parse(zjson.Decode(strings.NewReader(body)), &d, z.WithCtxValue("ambient", "leak"))
		} else {
			m = ambientSchema.Parse(map[string]any{"a": "x", "b": "nope"}, &d)
		}
		switch r.Intn(3) {
		case 0:
			z.Issues.CollectMap(m)
		case 1:
			_ = z.Issues.SanitizeMapAndCollect(m)
		}
	}
}
