// Package props holds one monitor per property (C01..C20).
package props

import (
	"fmt"
	"reflect"
	"sort"
	"strings"

	z "github.com/Oudwins/zog"
	"github.com/Oudwins/zog/parsers/zjson"

	"zogverif/internal/core"
	"zogverif/internal/gen"
	"zogverif/internal/obs"
	"zogverif/internal/ref"
	"zogverif/internal/rng"
	"zogverif/internal/run"
	"zogverif/internal/spec"
)

func tierN(t core.Tier, quick, thorough int) int {
	if t == core.Thorough {
		return thorough
	}
	return quick
}

var commonAssumptions = []string{
	"the Go toolchain, reflect, math/big, encoding/json, net/url used by the oracles",
	"the reference semantics in /verif/internal/ref is a faithful reading of the property statements (DESIGN.md §3.3)",
	"verdict covers only the executions produced by this run (fixed case list derived from VERIF_SEED)",
}

// permutedOrder returns a FieldOrder hook that inserts struct fields in a random order.
func permutedOrder(r *rng.Rand) func(n *spec.Node) []int {
	return func(n *spec.Node) []int { return r.Perm(len(n.Fields)) }
}

func expectedTriples(res *ref.Result) []string {
	out := make([]string, len(res.Issues))
	for i, x := range res.Issues {
		out[i] = x.Triple()
	}
	sort.Strings(out)
	return out
}

func actualTriples(o *run.Outcome) []string {
	out := make([]string, len(o.Issues))
	for i, c := range o.Issues {
		out[i] = c.Triple()
	}
	sort.Strings(out)
	return out
}

func issuesText(o *run.Outcome) []string {
	out := make([]string, len(o.Issues))
	for i, c := range o.Issues {
		out[i] = c.String()
	}
	sort.Strings(out)
	return out
}

func describeCase(n *spec.Node, mode ref.Mode, input any, extra map[string]any) map[string]any {
	m := map[string]any{
		"schema": n.Source(),
		"mode":   mode.String(),
		"input":  obs.Render(obs.Norm(input)),
	}
	for k, v := range extra {
		m[k] = v
	}
	return m
}

func trunc(s string, n int) string {
	if len(s) <= n {
		return s
	}
	return s[:n] + "…"
}

func joinS(s []string) string { return strings.Join(s, " ; ") }

func fpf(format string, a ...any) string { return fmt.Sprintf(format, a...) }

// ambientSchema / ambientHistory: a few earlier calls through the tagged front ends (JSON), some of whose results are
// handed back to the pools. Properties quantify over calls made in a process that has done other work before; running
// such history in front of a case makes leaks from one execution into the next observable to that case's oracle.
type ambientDest struct {
	A string `json:"aj"`
	B int    `json:"bj"`
}

var ambientSchema = z.Struct(z.Schema{"a": z.String().Min(3).Required(), "b": z.Int().GT(5).Catch(7)})

func ambientHistory(r *rng.Rand) {
	k := r.Intn(3)
	for i := 0; i < k; i++ {
		var d ambientDest
		body := []string{`{"aj":"x","bj":1}`, `{"aj":"long enough","bj":9}`, `{}`, `{"aj":`, `{"zz":1}`}[r.Intn(5)]
		var m z.ZogIssueMap
		if r.Bool() {
			m = ambientSchema.Parse(zjson.Decode(strings.NewReader(body)), &d, z.WithCtxValue("ambient", "leak"))
		} else {
			m = ambientSchema.Parse(map[string]any{"a": "x", "b": "nope"}, &d)
		}
		switch r.Intn(3) {
		case 0:
			z.Issues.CollectMap(m)
		case 1:
			_ = z.Issues.SanitizeMapAndCollect(m)
		}
	}
}

// warmAlt uses the schema object once with a second, equally valid destination type (same fields in reverse order)
// before the observed call. A schema must not remember anything about the destination types it was used with.
func warmAlt(r *rng.Rand, b *spec.Built) {
	n := b.Node
	if n.Kind == spec.Pre || n.Kind == spec.Custom || !n.HasStruct() {
		return
	}
	defer func() { _ = recover() }()
	data := gen.ParseInput(r, n, gen.InOpts{ValidPct: 100})
	run.ParseInto(b, data, reflect.New(n.AltGoType()))
	if r.Bool() {
		val := gen.ValueTree(r, n, gen.InOpts{ValidPct: 100}, true)
		p := reflect.New(n.AltGoType())
		p.Elem().Set(obs.Make(n.AltGoType(), val))
		run.ValidatePtr(b, p)
	}
}

// Two distinct Go types that print the same (reflect.Type.String() == "props.Payload"): function-local types with one name.
func payloadTypeA() reflect.Type {
	type Payload struct {
		Name string `json:"first_name"`
		Age  int
		Note string
	}
	return reflect.TypeOf(Payload{})
}

func payloadTypeB() reflect.Type {
	type Payload struct {
		Note string
		Age  int    `json:"years"`
		Name string `json:"name"`
	}
	return reflect.TypeOf(Payload{})
}

// sameNamedTypesCheck: one schema object used with two destination types that share their printed name but differ in
// layout and tags must behave, for each type, like a fresh schema object. Returns a description of the first divergence.
func sameNamedTypesCheck(r *rng.Rand) (string, map[string]any) {
	mk := func() *z.StructSchema {
		return z.Struct(z.Schema{"name": z.String().Required().Min(2), "age": z.Int().GT(0), "note": z.String()})
	}
	shared := mk()
	types := []reflect.Type{payloadTypeA(), payloadTypeB()}
	if r.Bool() {
		types[0], types[1] = types[1], types[0]
	}
	docs := map[reflect.Type][]string{
		payloadTypeA(): {`{"first_name":"Grace","Age":41,"Note":"n"}`, `{"first_name":"G"}`, `{"name":"wrong key","years":3}`},
		payloadTypeB(): {`{"name":"Ada","years":36,"Note":"n"}`, `{"name":"A","years":0}`, `{"first_name":"wrong key","Age":3}`},
	}
	render := func(s *z.StructSchema, t reflect.Type, doc string, viaJSON bool) string {
		dp := reflect.New(t)
		var m z.ZogIssueMap
		func() {
			defer func() {
				if rec := recover(); rec != nil {
					m = z.ZogIssueMap{"PANIC": {&z.ZogIssue{Message: fmt.Sprint(rec)}}}
				}
			}()
			if viaJSON {
				m = s.Parse(zjson.Decode(strings.NewReader(doc)), dp.Interface())
			} else {
				m = s.Parse(map[string]any{"name": "Map Name", "age": 5, "note": "from map"}, dp.Interface())
			}
		}()
		all, _ := obs.CanonMap(m)
		return obs.Multiset(all, func(ci obs.CI) string { return ci.Path + "|" + ci.Code + "|" + ci.Message }) + " dest=" + obs.Render(obs.NormValue(dp.Elem()))
	}
	for round := 0; round < 2; round++ {
		for _, t := range types {
			for _, doc := range docs[t] {
				for _, viaJSON := range []bool{true, false} {
					got := render(shared, t, doc, viaJSON)
					want := render(mk(), t, doc, viaJSON)
					if got != want {
						return "schema-remembers-an-earlier-destination-type", map[string]any{"schema": `z.Struct{"name": String().Required().Min(2), "age": Int().GT(0), "note": String()}`,
							"destination_types": "two function-local types both printed as props.Payload, with different field order and json tags", "document": doc, "through_json": viaJSON,
							"shared_schema_object": got, "fresh_schema_object": want}
					}
				}
			}
		}
	}
	return "", nil
}
