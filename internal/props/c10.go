package props

import (
	"os"
	"errors"
	"fmt"
	"regexp"
	"sort"
	"strings"

	z "github.com/Oudwins/zog"
	"github.com/Oudwins/zog/parsers/zjson"
	"github.com/Oudwins/zog/zenv"

	"zogverif/internal/core"
	"zogverif/internal/gen"
	"zogverif/internal/obs"
	"zogverif/internal/ref"
	"zogverif/internal/run"
	"zogverif/internal/spec"
)

// C10: the issue map is well-formed and addresses every issue by its path.
type c10 struct{}

func init() { core.Register(c10{}) }

func (c10) ID() string { return "C10" }

func (c10) Info(t core.Tier) core.Info {
	return core.Info{
		Level: "exploration",
		Rule: "each case = one generated record schema (nestings of structs, slices, pointers to depth 3; per field one of the tag configurations none / zog / json+form+query+env / zog+json+form / query only / zog+env; IssuePath options on some tests) x 4 failure-biased records x every front end that can express it (Go map, zjson, zhttp JSON, form, query, env) + Validate; plus random schemas of every kind through Go maps. " +
			"oracle: (1) structural invariants of every returned map: every issue exactly once under the key equal to its Path ($root for the empty path), $first holds exactly one issue which is element 0 of the list under its own path, no empty lists, nil iff no issue; " +
			"(2) the multiset of (path, code, type) == reference with paths built from the documented key priority (source tag, else zog tag, else schema key; Validate: zog tag, else schema key), '.'-joined, [i] for slice positions, IssuePath override; (3) SanitizeMap / SanitizeList / SanitizeMapAndCollect return the same keys and order carrying only the messages; (4) half of the random-schema cases are biased towards issues that do not come from a test (Preprocess refusals, coercion, required) next to tests carrying IssuePath; a fifth of the random-schema runs use an execution-wide formatter that rewrites paths (structure only is judged); in half of those cases the maps are kept and looked at again after the next executions (a returned map must stay what it was). " +
			"non-trivial: map with >= 2 keys besides $first, or a nested / tagged / overridden path; distinct by (schema, record, front end).",
		Assumptions: commonAssumptions,
		MinDistinct: 50,
	}
}

func (c10) NumCases(t core.Tier) int { return tierN(t, 15000, 400000) }

var pathGrammar = regexp.MustCompile(`^[^.\[\]]+(\[[0-9]+\])*(\.[^.\[\]]+(\[[0-9]+\])*)*$|^(\[[0-9]+\])+(\.[^.\[\]]+(\[[0-9]+\])*)*$`)

// mapInvariants checks the structure of a ZogIssueMap. firstPaths: paths that may legitimately hold the first issue (any issue path).
func mapInvariants(m z.ZogIssueMap) []string {
	var bad []string
	if m == nil {
		return nil
	}
	if len(m) == 0 {
		return []string{"map is non-nil but empty"}
	}
	seen := map[*z.ZogIssue]string{}
	total := 0
	for k, l := range m {
		if len(l) == 0 {
			bad = append(bad, fmt.Sprintf("empty list under key %q", k))
		}
		if k == "$first" {
			continue
		}
		for _, is := range l {
			if is == nil {
				bad = append(bad, fmt.Sprintf("nil issue under %q", k))
				continue
			}
			total++
			want := is.Path
			if want == "" {
				want = "$root"
			}
			if k != want {
				bad = append(bad, fmt.Sprintf("issue with Path %q stored under key %q", is.Path, k))
			}
			if prev, dup := seen[is]; dup {
				bad = append(bad, fmt.Sprintf("the same issue object appears twice (keys %q and %q)", prev, k))
			}
			seen[is] = k
		}
	}
	f, ok := m["$first"]
	switch {
	case !ok:
		bad = append(bad, "no $first key although there are issues")
	case len(f) != 1:
		bad = append(bad, fmt.Sprintf("$first holds %d issues", len(f)))
	default:
		fi := f[0]
		key := fi.Path
		if key == "" {
			key = "$root"
		}
		l := m[key]
		if len(l) == 0 || l[0] != fi {
			bad = append(bad, fmt.Sprintf("$first (path %q code %q) is not element 0 of the list under its own path", fi.Path, fi.Code))
		}
	}
	if total == 0 {
		bad = append(bad, "map has keys but no issue besides $first")
	}
	return bad
}

// mapFingerprint renders keys, order and identity-relevant fields of every issue of the map (including $first).
func mapFingerprint(m z.ZogIssueMap) string {
	keys := make([]string, 0, len(m))
	for k := range m {
		keys = append(keys, k)
	}
	sort.Strings(keys)
	var sb strings.Builder
	for _, k := range keys {
		sb.WriteString(k + "=>")
		for _, is := range m[k] {
			if is == nil {
				sb.WriteString("<nil>;")
				continue
			}
			fmt.Fprintf(&sb, "%s|%s|%s|%s;", is.Path, is.Code, is.Dtype, is.Message)
		}
		sb.WriteString(" ")
	}
	return sb.String()
}

// c10KeepMaps: the caller keeps the maps it is given (they are looked at again after later executions), so the monitor
// must not hand their issues back to the library with SanitizeMapAndCollect.
var c10KeepMaps bool

func sanitizeChecks(m z.ZogIssueMap) []string {
	var bad []string
	if m == nil {
		return nil
	}
	// expected: same keys, same order, only messages
	want := map[string][]string{}
	for k, l := range m {
		for _, is := range l {
			want[k] = append(want[k], is.Message)
		}
	}
	cmp := func(name string, got map[string][]string) {
		if len(got) != len(want) {
			bad = append(bad, fmt.Sprintf("%s: %d keys, issue map has %d", name, len(got), len(want)))
			return
		}
		for k, w := range want {
			g, ok := got[k]
			if !ok {
				bad = append(bad, fmt.Sprintf("%s: key %q missing", name, k))
				continue
			}
			if strings.Join(g, "\x00") != strings.Join(w, "\x00") {
				bad = append(bad, fmt.Sprintf("%s: messages under %q are %q, issues carry %q", name, k, g, w))
			}
		}
	}
	cmp("SanitizeMap", z.Issues.SanitizeMap(m))
	for k, l := range m {
		g := z.Issues.SanitizeList(l)
		if strings.Join(g, "\x00") != strings.Join(want[k], "\x00") {
			bad = append(bad, fmt.Sprintf("SanitizeList(%q): %q vs %q", k, g, want[k]))
		}
	}
	if !c10KeepMaps {
		cmp("SanitizeMapAndCollect", z.Issues.SanitizeMapAndCollect(m))
	}
	return bad
}

func c10Check(c *core.Ctx, n *spec.Node, o *run.Outcome, exp *ref.Result, alt *ref.Result, what string, detail func(map[string]any) map[string]any) bool {
	if o.Panicked {
		c.Violation("panic|"+what, detail(map[string]any{"panic": fmt.Sprint(o.Panic), "stack": trunc(o.Stack, 2000)}))
		return false
	}
	if o.IsMap {
		if bad := mapInvariants(o.RawMap); len(bad) > 0 {
			c.Violation("malformed-issue-map|"+what, detail(map[string]any{"broken_invariants": bad, "issues": issuesText(o)}))
			return false
		}
	}
	plain := true
	n.Walk(func(x *spec.Node) {
		for _, f := range x.Fields {
			for _, t := range f.Tags {
				if strings.ContainsAny(t, ".[] ") {
					plain = false
				}
			}
		}
	})
	for _, ci := range o.Issues {
		if plain && ci.Path != "" && !pathGrammar.MatchString(ci.Path) && !strings.HasPrefix(ci.Path, "custom.path") {
			c.Violation("path-grammar|"+what, detail(map[string]any{"path": ci.Path}))
			return false
		}
	}
	if exp != nil && exp.Unknown == "" {
		var want, got []string
		for _, x := range exp.Issues {
			want = append(want, x.Path+"|"+x.Code+"|"+x.Dtype)
		}
		for _, ci := range o.Issues {
			got = append(got, ci.Path+"|"+ci.Code+"|"+ci.Dtype)
		}
		sort.Strings(want)
		sort.Strings(got)
		if a, b := obs.MultisetDiff(want, got); len(a) > 0 || len(b) > 0 {
			sig := "issue-paths|" + what
			if alt != nil && alt.Unknown == "" {
				// narrow class: the top-level JSON object {} is handed over as a nil provider, which cannot carry the json tag
				var w2 []string
				for _, x := range alt.Issues {
					w2 = append(w2, x.Path+"|"+x.Code+"|"+x.Dtype)
				}
				sort.Strings(w2)
				if a2, b2 := obs.MultisetDiff(w2, got); len(a2) == 0 && len(b2) == 0 {
					sig = "issue-paths|top-level-empty-json-object|json-tag-ignored-zog-tag-or-schema-key-used"
				}
			}
			c.Violation(sig, detail(map[string]any{"expected(path|code|type)": want, "observed(path|code|type)": got, "issues": issuesText(o)}))
			return false
		}
	}
	if o.IsMap {
		if bad := sanitizeChecks(o.RawMap); len(bad) > 0 {
			c.Violation("sanitize|"+what, detail(map[string]any{"problems": bad}))
			return false
		}
	}
	return true
}

// c10NonTestPaths: an error returned by a PostTransform / Preprocess function - plain, wrapping another error, or wrapping a ZogIssue
// that carries a path of its own (e.g. the first issue of another schema run inside the transform) - is an issue of the node it
// came from: it sits under that node's path (a ZogIssue returned directly keeps its own path instead).
func c10NonTestPaths(c *core.Ctx) bool {
	inner := &z.ZogIssue{Code: "inner_code", Path: "", Message: "inner"}
	kind := c.R.Intn(3)
	ret := func(any) error {
		switch kind {
		case 0:
			return errors.New("refused")
		case 1:
			return fmt.Errorf("lookup: %w", inner)
		}
		return errors.Join(errors.New("first"), inner)
	}
	posts := []spec.Post{{Name: fmt.Sprintf("returns-error(kind %d)", kind), Fn: ret}}
	leaf := func() *spec.Node { return &spec.Node{Kind: spec.String, Witness: "value"} }
	var root *spec.Node
	var want string
	switch c.R.Intn(6) {
	case 0:
		in := structOf("x", leaf())
		in.Posts = posts
		root, want = structOf("a", leaf(), "in", in), "in"
	case 1:
		sl := sliceOf(leaf())
		sl.Posts = posts
		root, want = structOf("a", leaf(), "l", sl), "l"
	case 2:
		l := leaf()
		l.Posts = posts
		root, want = structOf("contact", structOf("email", l)), "contact.email"
	case 3:
		in := structOf("x", leaf())
		in.Posts = posts
		root, want = structOf("l", sliceOf(in)), "l[0]"
	case 4:
		pre := &spec.Node{Kind: spec.Pre, Elem: leaf(), PreName: "refuses", PreFn: func(d any) (any, error) { return nil, ret(d) }}
		root, want = structOf("a", leaf(), "p", pre), "p"
	default:
		l := leaf()
		l.Posts = posts
		root, want = structOf("backups", sliceOf(l)), "backups[0]"
	}
	root.Number()
	v := gen.ValueTree(c.R, root, gen.InOpts{ValidPct: 100}, true)
	data := gen.ToParseMap(root, v)
	for _, mode := range []ref.Mode{ref.Parse, ref.Validate} {
		var o *run.Outcome
		if mode == ref.Parse {
			o = run.Parse(spec.Build(root, nil), data, nil)
		} else {
			o = run.Validate(spec.Build(root, nil), v)
		}
		c.Eval(1)
		bad := mapInvariants(o.RawMap)
		if o.Panicked || len(o.Issues) != 1 || o.Issues[0].Path != want || o.Issues[0].Key != want || o.Issues[0].Ptr == inner || len(bad) > 0 {
			c.Violation("issue-paths|non-test-error|"+mode.String(), map[string]any{"schema": root.Source(), "value": obs.Render(v), "the_transform_returns": []string{"a plain error", "an error wrapping a ZogIssue (%w)", "errors.Join of an error and a ZogIssue"}[kind],
				"want": "exactly one new issue under key and path " + want, "issues": issuesText(o), "broken_invariants": bad, "panic": fmt.Sprint(o.Panic)})
			return false
		}
	}
	c.Count("non_test_error_paths", 2)
	return true
}

// c10Directed: (a) a schema key that Go resolves to a field promoted from an embedded struct is keyed by THAT field's tags - when two
// embedded structs promote the same name at different depths Go picks the shallowest, whatever the declaration order; (b) a test that
// carries both IssuePath and a MessageFunc that edits the issue's path is reported under the IssuePath.
type C10Audit struct {
	ID   string `zog:"audit_id" json:"audit_json"`
	Note string `zog:"audit_note"`
}
type C10Base struct {
	C10Audit
	Kind string `zog:"base_kind"`
}
type C10Meta struct {
	ID string `zog:"meta_id" json:"meta_json"`
}
type c10Doc struct {
	C10Base
	C10Meta
	Title string
}

func c10Directed(c *core.Ctx) bool {
	keysOf := func(m z.ZogIssueMap) string {
		var ks []string
		for k, l := range m {
			if k == "$first" {
				continue
			}
			for _, e := range l {
				if e.Path != k {
					ks = append(ks, fmt.Sprintf("(issue with path %q under key %q)", e.Path, k))
				}
			}
			ks = append(ks, k)
		}
		sort.Strings(ks)
		return strings.Join(ks, ", ")
	}
	mk := func() *z.StructSchema {
		return z.Struct(z.Schema{"ID": z.String().Required(), "note": z.String().Required(), "kind": z.String().Required(), "title": z.String().Required()})
	}
	for _, mode := range []string{"Parse(map)", "Parse(zjson)", "Validate"} {
		var d c10Doc
		var m z.ZogIssueMap
		want := "audit_note, base_kind, meta_id, title"
		switch mode {
		case "Parse(map)":
			m = mk().Parse(map[string]any{}, &d)
		case "Parse(zjson)":
			m = mk().Parse(zjson.Decode(strings.NewReader(`{"other":1}`)), &d)
			want = "audit_note, base_kind, meta_json, title"
		default:
			m = mk().Validate(&d)
		}
		c.Eval(1)
		if got := keysOf(m); got != want {
			c.Violation("issue-paths|promoted-field", map[string]any{"destination": "struct{ C10Base{ C10Audit{ID `zog:audit_id json:audit_json`; Note `zog:audit_note`}; Kind `zog:base_kind` }; C10Meta{ID `zog:meta_id json:meta_json`}; Title }  (d.ID is d.C10Meta.ID: the shallowest)", "schema": "{ID, note, kind, title: String().Required()}", "mode": mode, "keys": got, "want": want})
			return false
		}
		// and the value goes where Go says d.ID is
		var d2 c10Doc
		if mode == "Parse(map)" {
			mk().Parse(map[string]any{"meta_id": "m", "audit_id": "a", "audit_note": "n", "base_kind": "k", "title": "t"}, &d2)
			if d2.C10Meta.ID != "m" || d2.C10Audit.ID != "" || d2.Note != "n" || d2.Kind != "k" {
				c.Violation("issue-paths|promoted-field-value", map[string]any{"destination_after_parse": fmt.Sprintf("%+v", d2), "want": "C10Meta.ID = m (read from key meta_id), C10Audit.ID untouched"})
				return false
			}
		}
	}
	for _, mode := range []string{"Parse", "Validate"} {
		rewrite := z.MessageFunc(func(e *z.ZogIssue, ctx z.Ctx) { e.Path = "form." + e.Path; e.Message = "too short" })
		st := z.Struct(z.Schema{"name": z.String().Min(5, z.IssuePath("fullname"), rewrite), "nick": z.String().Min(5, rewrite, z.IssuePath("alias"))})
		type rec struct{ Name, Nick string }
		d := rec{Name: "ab", Nick: "cd"}
		var m z.ZogIssueMap
		if mode == "Parse" {
			m = st.Parse(map[string]any{"name": "ab", "nick": "cd"}, &d)
		} else {
			m = st.Validate(&d)
		}
		c.Eval(1)
		if got := keysOf(m); got != "alias, fullname" {
			c.Violation("issue-paths|IssuePath-next-to-a-MessageFunc-that-edits-the-path", map[string]any{"schema": "{name: String().Min(5, IssuePath(fullname), MessageFunc(e.Path = form.+e.Path)), nick: String().Min(5, MessageFunc(same), IssuePath(alias))}", "mode": mode, "keys": got, "want": "alias, fullname"})
			return false
		}
	}
	// Go struct records that reach a struct schema inside a JSON execution (items of a slice Default while the list is absent from the
	// document): their issues are keyed by the source tag like everything else in that execution
	type lineItem struct {
		Name string `json:"full_name" zog:"zname"`
		Qty  int    `json:"quantity"`
	}
	type orderDoc struct {
		Customer string     `json:"customer_name"`
		Items    []lineItem `json:"line_items"`
	}
	osch := z.Struct(z.Schema{"customer": z.String().Required(), "items": z.Slice(z.Struct(z.Schema{"name": z.String().Required(), "qty": z.Int().Required()})).Default([]lineItem{{}})})
	var od orderDoc
	m := osch.Parse(zjson.Decode(strings.NewReader(`{"other":1}`)), &od)
	c.Eval(1)
	if got := keysOf(m); got != "customer_name, line_items[0].full_name, line_items[0].quantity" {
		c.Violation("issue-paths|struct-record-inside-a-json-execution", map[string]any{"schema": "{customer: Required, items: Slice(Struct{name: Required, qty: Required}).Default([]lineItem{{}})}; lineItem{Name `json:full_name zog:zname`; Qty `json:quantity`}", "document": `{"other":1}`, "keys": got, "want": "customer_name, line_items[0].full_name, line_items[0].quantity"})
		return false
	}
	// an IssuePath is taken literally, also when it looks like a repeated form parameter
	var tags []string
	m = z.Slice(z.String().Min(3, z.IssuePath("tags[]"))).Parse([]any{"a", "long enough", "b"}, &tags)
	tv := []string{"a", "long enough", "b"}
	m2 := z.Slice(z.String().Min(3, z.IssuePath("tags[]"))).Validate(&tv)
	c.Eval(2)
	if keysOf(m) != "tags[]" || len(m["tags[]"]) != 2 || keysOf(m2) != "tags[]" || len(m2["tags[]"]) != 2 {
		c.Violation("issue-paths|IssuePath-with-brackets", map[string]any{"schema": "Slice(String().Min(3, IssuePath(\"tags[]\")))", "input": "[a, long enough, b]", "keys_parse": keysOf(m), "keys_validate": keysOf(m2), "want": "both failing items under the one key tags[]"})
		return false
	}
	// IssuePath("$root") files a nested node's issue under the root key, like every other IssuePath names its key
	type accountT struct {
		Account struct{ Pass, Confirm string }
	}
	var at accountT
	m = z.Struct(z.Schema{"account": z.Struct(z.Schema{"pass": z.String(), "confirm": z.String().Min(8, z.IssuePath("$root"))})}).Parse(map[string]any{"account": map[string]any{"pass": "x", "confirm": "y"}}, &at)
	c.Eval(1)
	if keysOf(m) != "$root" && keysOf(m) != "(issue with path \"$root\" under key \"$root\"), $root" {
		if len(m["$root"]) != 1 || len(m) != 2 {
			c.Violation("issue-paths|IssuePath-root", map[string]any{"schema": "{account: Struct{pass, confirm: String().Min(8, IssuePath(\"$root\"))}}", "keys": keysOf(m), "want": "$root"})
			return false
		}
	}
	// a map[string]string record produced inside a JSON execution (by a Preprocess function) is keyed by the json tags like the rest of
	// that execution; environment variables are keyed by the env tag whatever other variables happen to be set
	type shipTo struct {
		Zip  string `json:"zip_code" zog:"zip"`
		City string `json:"city_name"`
	}
	type parcel struct {
		ShipTo shipTo `json:"ship_to"`
	}
	var pc parcel
	m = z.Struct(z.Schema{"shipTo": z.Preprocess(func(d any, ctx z.Ctx) (map[string]string, error) { return map[string]string{"city_name": "x"}, nil }, z.Struct(z.Schema{"zip": z.String().Required(), "city": z.String().Min(3)}))}).
		Parse(zjson.Decode(strings.NewReader(`{"ship_to":"12 Main St|x"}`)), &pc)
	c.Eval(1)
	if got := keysOf(m); got != "ship_to.city_name, ship_to.zip_code" {
		c.Violation("issue-paths|typed-map-record-inside-a-json-execution", map[string]any{"schema": "{shipTo: Preprocess(fn returning map[string]string{city_name: x}, Struct{zip: Required, city: Min(3)})}; fields tagged `json:zip_code zog:zip`, `json:city_name`", "keys": got, "want": "ship_to.city_name, ship_to.zip_code"})
		return false
	}
	type envCfg struct {
		Name string `env:"ZZC10_NAME" zog:"ZZC10_ALT_NAME"`
		DB   struct {
			Port int `env:"ZZC10_PORT" zog:"ZZC10_ALT_PORT"`
		} `env:"ZZC10_DB" zog:"ZZC10_ALT_DB"`
	}
	os.Setenv("ZZC10_ALT_NAME", "set under the other name")
	os.Setenv("ZZC10_ALT_PORT", "80")
	os.Setenv("ZZC10_ALT_DB", "x")
	var ec envCfg
	m = z.Struct(z.Schema{"name": z.String().Required(), "dB": z.Struct(z.Schema{"port": z.Int().Required()})}).Parse(zenv.NewDataProvider(), &ec)
	os.Unsetenv("ZZC10_ALT_NAME")
	os.Unsetenv("ZZC10_ALT_PORT")
	os.Unsetenv("ZZC10_ALT_DB")
	c.Eval(1)
	if got := keysOf(m); got != "ZZC10_DB.ZZC10_PORT, ZZC10_NAME" || ec.Name != "" {
		c.Violation("issue-paths|environment-keys", map[string]any{"destination_type": "Name `env:ZZC10_NAME zog:ZZC10_ALT_NAME`; DB{Port `env:ZZC10_PORT zog:ZZC10_ALT_PORT`} `env:ZZC10_DB zog:ZZC10_ALT_DB`", "environment": "only the ZZC10_ALT_* variables are set", "keys": got, "name": ec.Name, "want": "ZZC10_DB.ZZC10_PORT, ZZC10_NAME; nothing read"})
		return false
	}
	// SanitizeMap / SanitizeList mirror the issue map: same keys, same number of entries in the same order, whatever the messages are
	silent := z.WithIssueFormatter(func(e *z.ZogIssue, ctx z.Ctx) {
		if e.Code == "min" {
			e.SetMessage("too short")
		}
	})
	var em string
	type acc struct{ Email, Name string }
	var ac acc
	m = z.Struct(z.Schema{"email": z.String().Min(5).Email().Contains("@"), "name": z.String().Required()}).Parse(map[string]any{"email": "ab"}, &ac, silent)
	san := z.Issues.SanitizeMap(m)
	li := z.String().Email().Min(5).HasPrefix("x").Parse("ab", &em, silent)
	sl := z.Issues.SanitizeList(li)
	c.Eval(2)
	bad := len(san) != len(m) || len(sl) != len(li)
	for k, l := range m {
		if len(san[k]) != len(l) {
			bad = true
			continue
		}
		for i := range l {
			if san[k][i] != l[i].Message {
				bad = true
			}
		}
	}
	for i := range sl {
		if i < len(li) && sl[i] != li[i].Message {
			bad = true
		}
	}
	if bad {
		c.Violation("sanitize-differs-from-issue-map|empty-messages", map[string]any{"formatter": "an execution formatter that only words the code min and leaves the other messages empty", "issue_map_keys_and_lengths": fmt.Sprint(lens(m)), "sanitized": fmt.Sprint(san), "issue_list_messages": msgs(li), "sanitized_list": sl})
		return false
	}
	c.Count("directed_path_scenarios", 10)
	return true
}

func lens(m z.ZogIssueMap) map[string]int {
	o := map[string]int{}
	for k, l := range m {
		o[k] = len(l)
	}
	return o
}

func msgs(l z.ZogIssueList) []string {
	var o []string
	for _, e := range l {
		o = append(o, e.Message)
	}
	return o
}

func (c10) RunCase(c *core.Ctx) {
	if c.Case%97 == 23 && !w10(c, "C10") {
		return
	}
	if c.Case%20 == 6 && !c10NonTestPaths(c) {
		return
	}
	if c.Case%40 == 9 && !c10Directed(c) {
		return
	}
	if c.Case%3 == 2 {
		c10Random(c)
		return
	}
	flat := c.R.Intn(10) < 6
	fo := gen.FrontOpts{Flat: flat, EnvOnly: flat && c.R.Bool(), MaxDepth: 3, MaxFields: 4, KeepIssuePath: true}
	n := gen.RecordSchema(c.R, fo)
	fronts := []string{"map", "zjson", "zhttp-json"}
	if flat {
		fronts = append(fronts, "form", "query")
		if fo.EnvOnly {
			fronts = append(fronts, "env")
		}
	}
	if c.R.Intn(4) == 0 {
		// the whole record behind a top-level pointer
		n = &spec.Node{Kind: spec.Ptr, Elem: n}
		n.Number()
	}
	src := n.Source()
	for k := 0; k < 4; k++ {
		rec := gen.GenRecord(c.R, n, 45, fo)
		if m, ok := rec.(map[string]any); ok && n.Kind == spec.Ptr && len(m) == 0 {
			continue // open corner: {} against a top-level Ptr(Struct)
		}
		for _, f := range fronts {
			b := spec.Build(n, &spec.Hooks{FieldOrder: permutedOrder(c.R)})
			o, env, data := frontExec(b, n, rec, f, nil, c.R.Bool()) // half of the flat renderings carry stray look-alike parameters
			c.Eval(1)
			exp := ref.Eval(n, env, data, nil)
			det := func(extra map[string]any) map[string]any {
				m := map[string]any{"schema": src, "record": obs.Render(rec), "front_end": f, "json_document": gen.RecToJSON(n, rec)}
				if frontIsFlat(f) {
					m["flat_rendering"] = gen.RecToFlat(n, rec, frontTag(f)).Encode()
				}
				for kk, v := range extra {
					m[kk] = v
				}
				return m
			}
			var alt *ref.Result
			if m, ok := rec.(map[string]any); ok && len(m) == 0 && (f == "zjson" || f == "zhttp-json") {
				alt = ref.Eval(n, &ref.Env{Mode: ref.Parse}, nil, nil) // what the keys would be without the json tag
			}
			if !c10Check(c, n, o, exp, alt, f, det) {
				continue // keep exploring the other front ends and records of this case
			}
			c.Distinct("front_ends", f)
			if len(o.RawMap) > 2 {
				c.NonTrivial(fpf("%s|%s|%s", src, obs.Render(rec), f))
				if c.WantSample() {
					keys := []string{}
					for kk := range o.RawMap {
						keys = append(keys, kk)
					}
					sort.Strings(keys)
					c.Sample(map[string]any{"schema": src, "front_end": f, "record": obs.Render(rec), "issue_map_keys": keys})
				}
			}
		}
	}
}

// c10LongSlice: positions far beyond the first few (two and three digit indices) at several depths.
func c10LongSlice(c *core.Ctx) bool {
	ln := []int{11, 101, 130, 1001}[c.R.Intn(4)]
	elem := &spec.Node{Kind: spec.String, Tests: []spec.Test{{Op: spec.TMin, N: 2}}}
	inner := sliceOf(elem)
	root := structOf("codes", inner, "grid", sliceOf(sliceOf(&spec.Node{Kind: spec.Int, Tests: []spec.Test{{Op: spec.TGT, Arg: 0}}})))
	root.Number()
	codes := make([]any, ln)
	for i := range codes {
		codes[i] = "ok"
		if i%10 == 0 || i == ln-1 || i == 99 || i == 100 {
			codes[i] = "x"
		}
	}
	grid := make([]any, 12)
	for i := range grid {
		row := make([]any, 103)
		for j := range row {
			row[j] = 1
			if j == 100 || j == 9 || j == 10 {
				row[j] = -1
			}
		}
		grid[i] = row
	}
	data := map[string]any{"codes": codes, "grid": grid}
	for _, mode := range []ref.Mode{ref.Parse, ref.Validate} {
		b := spec.Build(root, nil)
		var o *run.Outcome
		var exp *ref.Result
		if mode == ref.Parse {
			o = run.Parse(b, data, nil)
			exp = ref.Eval(root, &ref.Env{Mode: mode}, data, nil)
		} else {
			val := map[string]any{"Codes": codes, "Grid": grid}
			o = run.Validate(b, val)
			exp = ref.Eval(root, &ref.Env{Mode: mode}, nil, val)
		}
		c.Eval(1)
		det := func(extra map[string]any) map[string]any {
			extra["schema"] = root.Source()
			extra["slice_length"] = ln
			extra["mode"] = mode.String()
			return extra
		}
		if !c10Check(c, root, o, exp, nil, "long-slice-"+mode.String(), det) {
			return false
		}
	}
	c.NonTrivial(fpf("long|%d", ln))
	return true
}

// c10KeySpelling: two schemas over the SAME Go struct type that spell the key of an untagged field differently
// ("email" / "Email" both name the field Email): each must report under its own spelling, in either order of use.
func c10KeySpelling(c *core.Ctx) bool {
	mk := func(key string) *spec.Node {
		n := structOf(key, &spec.Node{Kind: spec.String, Mods: []spec.Mod{{Op: spec.MRequired}}, Tests: []spec.Test{{Op: spec.TMin, N: 5}}}, "age", &spec.Node{Kind: spec.Int, Tests: []spec.Test{{Op: spec.TGT, Arg: 3}}})
		n.Fields[0].GoName = "Email"
		n.Number()
		return n
	}
	keys := []string{"email", "Email"}
	if c.R.Bool() {
		keys[0], keys[1] = keys[1], keys[0]
	}
	for round := 0; round < 2; round++ {
		for _, key := range keys {
			n := mk(key)
			b := spec.Build(n, nil)
			for _, mode := range []ref.Mode{ref.Validate, ref.Parse} {
				var o *run.Outcome
				var exp *ref.Result
				if mode == ref.Validate {
					val := map[string]any{"Email": "ab", "Age": 1}
					o = run.Validate(b, val)
					exp = ref.Eval(n, &ref.Env{Mode: mode}, nil, val)
				} else {
					data := map[string]any{key: "ab", "age": 1}
					o = run.Parse(b, data, nil)
					exp = ref.Eval(n, &ref.Env{Mode: mode}, data, nil)
				}
				c.Eval(1)
				det := func(extra map[string]any) map[string]any {
					extra["schema"] = n.Source()
					extra["mode"] = mode.String()
					extra["order_of_use"] = keys
					return extra
				}
				if !c10Check(c, n, o, exp, nil, "key-spelling-"+mode.String(), det) {
					return false
				}
			}
		}
	}
	c.NonTrivial(fpf("spelling|%v", keys))
	return true
}

// c10Random: random schemas of every kind through Go maps and Validate (structure + exact paths).
func c10Random(c *core.Ctx) {
	if c.Case%30 == 2 {
		if !c10LongSlice(c) || !c10KeySpelling(c) {
			return
		}
	}
	n := c02Schema(c.R)
	wrong := 20
	if c.Case%2 == 0 {
		// issues that do not come from a test (Preprocess refusals, coercion, required) next to tests that redirect theirs with IssuePath
		o := gen.DefaultOpts()
		o.Pre, o.PreWeight, o.TestOptsPct, o.IssuePathPct, o.FailingTests = true, 14, 85, 70, 5
		n = gen.Schema(c.R, o)
		wrong = 35
	}
	src := n.Source()
	c10KeepMaps = c.Case%4 < 2
	defer func() { c10KeepMaps = false }()
	var prevMap z.ZogIssueMap
	var prevPrint string
	for k := 0; k < 6; k++ {
		data := gen.ParseInput(c.R, n, gen.InOpts{ValidPct: 40, AbsentPct: 20, WrongPct: wrong, AltRep: true})
		val := gen.ValueTree(c.R, n, gen.InOpts{ValidPct: 40, AbsentPct: 30}, false)
		for _, mode := range []ref.Mode{ref.Parse, ref.Validate} {
			if n.Kind == spec.Pre && mode == ref.Validate {
				continue
			}
			b := spec.Build(n, &spec.Hooks{FieldOrder: permutedOrder(c.R)})
			var o *run.Outcome
			var exp *ref.Result
			var input any
			var opts []z.ExecOption
			rewriting := c.R.Intn(5) == 0
			if rewriting {
				// an execution-wide formatter may rewrite the path (it runs for issues that have no message yet): the map is then
				// keyed by the rewritten paths. Only the structure of the map is judged in these runs.
				opts = append(opts, z.WithIssueFormatter(func(e *z.ZogIssue, _ z.Ctx) {
					if e.Path == "" {
						e.Path = "body"
					} else if e.Path[0] == '[' {
						e.Path = "body" + e.Path
					} else {
						e.Path = "body." + e.Path
					}
					e.Message = "rewritten"
				}))
			}
			if mode == ref.Parse {
				if n.Kind == spec.Struct && c.R.Intn(8) == 0 {
					// the record is a Go struct that has none of the fields the schema asks for: every field is absent, and the issues
					// sit under the documented keys (zog tag, else schema key) - never under names taken from the destination
					data = []any{struct{ Unrelated int }{7}, &struct{ Zzz, Other string }{"a", "b"}, struct{}{}}[c.R.Intn(3)]
					if c.R.Bool() {
						// ... or a value of the destination's own type: its fields are found under a key only where the key IS the Go field name
						func() {
							defer func() { _ = recover() }()
							data = obs.Make(n.GoType(), val).Interface()
						}()
					}
				}
				o = run.Parse(b, data, nil, opts...)
				exp = ref.Eval(n, &ref.Env{Mode: mode}, data, nil)
				input = data
			} else {
				o = run.Validate(b, val, opts...)
				exp = ref.Eval(n, &ref.Env{Mode: mode}, nil, val)
				input = val
			}
			c.Eval(1)
			det := func(extra map[string]any) map[string]any { return describeCase(n, mode, input, extra) }
			what := mode.String()
			if rewriting {
				exp, what = nil, what+"|path-rewriting-formatter"
				c.Count("runs_with_path_rewriting_formatter", 1)
			}
			if !c10Check(c, n, o, exp, nil, what, det) {
				return
			}
			// a map handed to the caller stays what it was, whatever later executions do
			if prevMap != nil {
				if now := mapFingerprint(prevMap); now != prevPrint {
					c.Violation("issue-map-changed-by-a-later-execution|"+what, det(map[string]any{"earlier_map_when_returned": prevPrint, "earlier_map_now": now, "broken_invariants_now": mapInvariants(prevMap)}))
					return
				}
				c.Count("earlier_maps_rechecked", 1)
			}
			prevMap, prevPrint = nil, ""
			if c10KeepMaps && o.IsMap && o.RawMap != nil {
				prevMap, prevPrint = o.RawMap, mapFingerprint(o.RawMap)
			}
			if len(o.RawMap) > 2 {
				c.NonTrivial(fpf("%s|%s|%s", src, mode, obs.Render(obs.Norm(input))))
			}
		}
	}
}
