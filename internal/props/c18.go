package props

import (
	"fmt"
	z "github.com/Oudwins/zog"
	"github.com/Oudwins/zog/zhttp"
	"math"
	"math/big"
	"net/http"
	"reflect"
	"strconv"
	"strings"

	"github.com/Oudwins/zog/parsers/zjson"

	"zogverif/internal/core"
	"zogverif/internal/obs"
	"zogverif/internal/ref"
	"zogverif/internal/rng"
	"zogverif/internal/run"
	"zogverif/internal/spec"
)

// C18: numeric coercion never silently changes a number. Exhaustive boundary grid + random values, math/big reference.
type c18 struct{}

func init() { core.Register(c18{}) }

func (c18) ID() string { return "C18" }

var c18Dests = []spec.Kind{spec.Int, spec.Int32, spec.Int64, spec.Float32, spec.Float64}

var c18Grid = buildC18Grid()

func (c18) Info(t core.Tier) core.Info {
	return core.Info{
		Level: "exploration",
		Rule: fmt.Sprintf("EXHAUSTIVE boundary grid of %d numeric inputs (int, int32, int64, float32, float64, decimal strings, exponent strings; values at type min/max and +-1/+-2, +-2^24, +-2^31, +-2^53, +-2^63, +-2^64, 1e19, 3e9, 1e300, max float32/64 and neighbours, subnormals, +-0, NaN, +-Inf, x.5 and x.999 next to every integer bound) "+
			"x 5 destinations (Int, Int32, Int64, Float32, Float64) x {direct Parse, inside a struct, through a JSON document (zjson) where the input is a JSON number} x {no test, attached bound tests so that a wrapped value would slip past them}; then random values beyond the grid. "+
			"oracle: exact big-number value of the input -> out of range / NaN / Inf into an integer => exactly one coerce issue, otherwise destination == truncated (integers) or correctly rounded (floats) value and only the issues of the attached tests. "+
			"non-trivial: input within 2 units / 2 ulp of a bound of the destination type, beyond it, or non-finite; distinct by (input, destination).", len(c18Grid)),
		Assumptions: append([]string{"64-bit int", "rounding an in-range value to the nearest representable float is the 'same number' at the destination's precision (wrap, saturation, Inf are not)"}, commonAssumptions...),
		MinDistinct: 500,
		Exhaustive:  true,
	}
}

func (c18) NumCases(t core.Tier) int { return len(c18Grid) + tierN(t, 30000, 2000000) }

func buildC18Grid() []any {
	var out []any
	seen := map[string]bool{}
	add := func(v any) {
		k := fmt.Sprintf("%T:%v", v, v)
		if f, ok := v.(float64); ok {
			k = fmt.Sprintf("f64:%x", math.Float64bits(f))
		}
		if f, ok := v.(float32); ok {
			k = fmt.Sprintf("f32:%x", math.Float32bits(f))
		}
		if !seen[k] {
			seen[k] = true
			out = append(out, v)
		}
	}
	pow2 := func(e uint) *big.Int { return new(big.Int).Lsh(big.NewInt(1), e) }
	var bounds []*big.Int
	for _, e := range []uint{7, 8, 15, 16, 24, 31, 32, 53, 62, 63, 64} {
		bounds = append(bounds, pow2(e), new(big.Int).Neg(pow2(e)))
	}
	ten19, _ := new(big.Int).SetString("10000000000000000000", 10)
	bounds = append(bounds, big.NewInt(0), big.NewInt(3000000000), big.NewInt(-3000000000), ten19, new(big.Int).Neg(ten19), big.NewInt(100), big.NewInt(-100))
	for _, b := range bounds {
		for d := int64(-2); d <= 2; d++ {
			v := new(big.Int).Add(b, big.NewInt(d))
			add(v.String())
			if v.Sign() >= 0 {
				add("+" + v.String())
			}
			if v.IsInt64() {
				i := v.Int64()
				add(int(i))
				add(i)
				if i >= math.MinInt32 && i <= math.MaxInt32 {
					add(int32(i))
				}
			}
			f, _ := new(big.Float).SetInt(v).Float64()
			for _, ff := range []float64{f, math.Nextafter(f, math.Inf(1)), math.Nextafter(f, math.Inf(-1)), f + 0.5, f - 0.5, f + 0.999, f - 0.999} {
				add(ff)
				add(strconv.FormatFloat(ff, 'f', -1, 64))
				add(strconv.FormatFloat(ff, 'e', -1, 64))
			}
			f32 := float32(f)
			add(f32)
			add(math.Nextafter32(f32, float32(math.Inf(1))))
			add(math.Nextafter32(f32, float32(math.Inf(-1))))
		}
	}
	for _, f := range []float64{math.MaxFloat32, -math.MaxFloat32, math.Nextafter(math.MaxFloat32, math.Inf(1)), math.MaxFloat32 * 1.0000001, 3.4028235677973366e38, 3.4028236e38, 1e39, -1e39,
		1e300, -1e300, math.MaxFloat64, -math.MaxFloat64, math.SmallestNonzeroFloat64, math.SmallestNonzeroFloat32, -math.SmallestNonzeroFloat32, 1e-46, 1e-320,
		math.NaN(), math.Inf(1), math.Inf(-1), math.Copysign(0, -1), 0.1, 0.5, -0.5, 0.999, -0.999, 1.5, 2.5, 6.29, 1e19, 3e9, 9.223372036854775e18, 9.223372036854776e18} {
		add(f)
		if !math.IsNaN(f) && !math.IsInf(f, 0) {
			add(strconv.FormatFloat(f, 'e', -1, 64))
			add(strconv.FormatFloat(f, 'f', -1, 64))
		}
		add(float32(f))
	}
	// fractions extremely close to an integer must still truncate toward zero
	for _, b := range []float64{0, 1, 3, -29, 100, 434, 8388607, -8388608, 2147483647, -2147483648} {
		for _, eps := range []float64{1e-6, 1e-9, 1e-10, 1e-12, 5e-16} {
			for _, f := range []float64{b + eps, b - eps, math.Nextafter(b, math.Inf(1)), math.Nextafter(b, math.Inf(-1))} {
				add(f)
				add(strconv.FormatFloat(f, 'f', -1, 64))
			}
		}
	}
	for _, s := range []string{"010", "0100", "-012", "014", "0777", "08", "0_1", "0o17", "0b101", "0x1F", "1_000", "+0x10",
		"1e19", "3e9", "1e300", "-1e300", "1e400", "-1e400", "1e-400", "3.4028235e38", "3.4028236e38", "3.5e38", "1e39", "9.223372036854775807e18", "9223372036854775807.5",
		"9223372036854775808.0", "2147483647.9", "2147483648.0", "-2147483648.5", "-2147483649", "00012", "-0", "+0", "0.0", "-0.0", "1.", ".5", "1e0", "1E2", "12e-1", "  12", "12 ", "1,5", "1_000", "0x10", "0b11", "١٢",
		// exponent notation: whatever the coercer makes of it, not a wrapped number
		"-9.3e18", "-10e18", "-1844674407370955161e1", "9.3e18", "10e18", "2.5e3", "1e+16", "-1e+19", "92233720368547758070e-1", "-92233720368547758090e-1"} {
		add(s)
	}
	add(true)
	add(false)
	return out
}

func c18Node(k spec.Kind, withTests bool) *spec.Node {
	n := &spec.Node{Kind: k}
	if withTests {
		switch k {
		case spec.Int:
			n.Tests = []spec.Test{{Op: spec.TLT, Arg: int(1000)}, {Op: spec.TGT, Arg: int(-1000)}}
		case spec.Int32:
			n.Tests = []spec.Test{{Op: spec.TLT, Arg: int32(1000)}, {Op: spec.TGT, Arg: int32(-1000)}}
		case spec.Int64:
			n.Tests = []spec.Test{{Op: spec.TLT, Arg: int64(1000)}, {Op: spec.TGT, Arg: int64(-1000)}}
		case spec.Float32:
			n.Tests = []spec.Test{{Op: spec.TLT, Arg: float32(1000)}, {Op: spec.TGT, Arg: float32(-1000)}}
		case spec.Float64:
			n.Tests = []spec.Test{{Op: spec.TLT, Arg: float64(1000)}, {Op: spec.TGT, Arg: float64(-1000)}}
		}
	}
	n.Number()
	return n
}

func nearBound(k spec.Kind, data any) bool {
	c := ref.CoerceNumber(k, data)
	if c.Unknown {
		return false
	}
	if !c.OK {
		return true // rejected: beyond range, non-finite or not a number
	}
	var f float64
	rv := reflect.ValueOf(c.V)
	if rv.CanInt() {
		f = float64(rv.Int())
	} else {
		f = rv.Float()
	}
	if math.IsNaN(f) || math.IsInf(f, 0) {
		return true
	}
	a := math.Abs(f)
	for _, b := range []float64{1 << 24, 1 << 31, 1 << 53, 1 << 63, math.MaxFloat32, math.MaxFloat64} {
		if math.Abs(a-b) <= math.Max(2, b*1e-6) {
			return true
		}
	}
	return false
}

func c18Check(c *core.Ctx, data any, where string) bool {
	for _, k := range c18Dests {
		for _, withTests := range []bool{false, true} {
			leaf := c18Node(k, withTests)
			var root *spec.Node
			var input any
			switch where {
			case "direct":
				root, input = leaf, data
			case "struct", "json":
				root = &spec.Node{Kind: spec.Struct, Fields: []spec.Field{{Key: "v", GoName: "V", Node: leaf}}}
				root.Number()
				input = map[string]any{"v": data}
			}
			env := &ref.Env{Mode: ref.Parse}
			if where == "json" {
				env.SourceTag = "json"
			}
			exp := ref.Eval(root, env, input, nil)
			if exp.Unknown != "" {
				c.Count("skipped_open_corner", 1)
				continue
			}
			b := spec.Build(root, nil)
			var o *run.Outcome
			if where == "json" {
				txt := jsonNumberText(data)
				o = run.Parse(b, zjson.Decode(strings.NewReader(`{"v": `+txt+`}`)), nil)
			} else {
				o = run.Parse(b, input, nil)
			}
			c.Eval(1)
			det := func(extra map[string]any) map[string]any {
				extra["destination_type"] = k.String()
				extra["front"] = where
				return describeCase(root, ref.Parse, input, extra)
			}
			if o.Panicked {
				c.Violation("panic|"+k.String(), det(map[string]any{"panic": fmt.Sprint(o.Panic), "stack": trunc(o.Stack, 2000)}))
				return false
			}
			want, got := expectedTriples(exp), actualTriples(o)
			if a, bb := obs.MultisetDiff(want, got); len(a) > 0 || len(bb) > 0 {
				cls := "number-silently-changed-or-wrongly-rejected"
				c.Violation(cls+"|"+k.String(), det(map[string]any{"expected_issues": want, "observed_issues": issuesText(o), "observed_destination": obs.Render(o.Dest), "reference_value": obs.Render(exp.Out)}))
				return false
			}
			if len(want) == 0 {
				if d := obs.Diff(exp.Out, o.Dest, "$"); d != "" {
					if k == spec.Float32 && altFloat32OK(data, o.Dest, where) {
						// direct rounding to float32 instead of rounding through float64: both are correctly rounded results
					} else {
						c.Violation("destination-is-not-the-number|"+k.String(), det(map[string]any{"expected_destination": obs.Render(exp.Out), "observed_destination": obs.Render(o.Dest), "difference": d}))
						return false
					}
				}
			}
			if nearBound(k, data) {
				c.NonTrivial(fpf("%s|%s|%s", obs.Render(obs.Norm(data)), k, where))
			}
		}
	}
	return true
}

// c18JSONLiterals: integer literals of a JSON document that float64 cannot hold exactly, into integer destinations. The
// statement allows two outcomes: the same number, or a coerce issue.
var c18Literals = []string{"9007199254740993", "-9007199254740993", "9007199254740995", "1152921504606846977", "4611686018427400249", "-4611686018427400249",
	"9223372036854775807", "-9223372036854775807", "9223372036854775295", "9007199254740992", "9007199254740994", "36028797018963969", "123456789012345678",
	// literals that are the shortest decimal form of ANOTHER float64 (they end in zeros): still not that float64
	"1152921504606847000", "20000000000000010", "9000000000000001000", "-1152921504606847000", "4611686018427388000",
	// beyond the int64 range on either side
	"9223372036854775808", "9223372036854776832", "-9223372036854775808", "-9223372036854775809", "-9223372036854776000", "-9223372036854776832", "-9223372036854776833", "18446744073709551615", "-18446744073709551616"}

func c18JSONLiterals(c *core.Ctx) bool {
	for _, lit := range c18Literals {
		exact, _ := new(big.Int).SetString(lit, 10)
		for _, k := range []spec.Kind{spec.Int, spec.Int64} {
			root := &spec.Node{Kind: spec.Struct, Fields: []spec.Field{{Key: "v", GoName: "V", Node: &spec.Node{Kind: k}}}}
			root.Number()
			o := run.Parse(spec.Build(root, nil), zjson.Decode(strings.NewReader(`{"v": `+lit+`}`)), nil)
			c.Eval(1)
			det := map[string]any{"json_document": `{"v": ` + lit + `}`, "destination_type": k.String(), "issues": issuesText(o), "observed_destination": obs.Render(o.Dest)}
			if o.Panicked {
				det["panic"] = fmt.Sprint(o.Panic)
				c.Violation("panic|"+k.String(), det)
				return false
			}
			if len(o.Issues) > 0 {
				if len(o.Issues) != 1 || o.Issues[0].Code != "coerce" {
					c.Violation("number-silently-changed-or-wrongly-rejected|"+k.String(), det)
					return false
				}
				continue // a coerce issue is one of the two allowed outcomes
			}
			m, _ := o.Dest.(map[string]any)
			got := new(big.Int).SetInt64(reflect.ValueOf(m["V"]).Int())
			if got.Cmp(exact) == 0 {
				c.NonTrivial("jsonlit|" + lit + "|" + k.String())
				continue
			}
			f, _ := new(big.Float).SetInt(exact).Float64()
			viaFloat, acc := new(big.Float).SetFloat64(f).Int(nil)
			sig := "number-silently-changed|json-integer-literal"
			if !exact.IsInt64() && exact.Sign() < 0 && got.IsInt64() && got.Int64() == math.MinInt64 {
				// narrow class: a literal just below the int64 range whose nearest float64 is exactly -2^63, which is in range
				sig = "number-silently-changed|json-integer-literal-just-below-MinInt64-stored-as-MinInt64"
			} else if acc == big.Exact && viaFloat.Cmp(got) == 0 {
				// narrow class: exactly the value the literal has after the JSON decoder stored it in a float64
				sig = "number-silently-changed|json-integer-literal-beyond-2^53-rounded-by-the-json-decoder"
			}
			det["sent"], det["stored"] = lit, got.String()
			c.Violation(sig, det)
		}
	}
	c.Count("json_integer_literals", len(c18Literals)*2)
	// literals beyond the float64 range into float destinations: no float holds them, so an issue (of the field or of the whole
	// document) is the only acceptable outcome - never an infinity or a saturated value
	for _, lit := range []string{"1e999", "-1e400", "1.8e308", "-1.8e308", "123456789e301"} {
		for _, k := range []spec.Kind{spec.Float64, spec.Float32} {
			root := &spec.Node{Kind: spec.Struct, Fields: []spec.Field{{Key: "v", GoName: "V", Node: &spec.Node{Kind: k}}, {Key: "l", GoName: "L", Node: &spec.Node{Kind: spec.Slice, Elem: &spec.Node{Kind: k}}}}}
			root.Number()
			for _, doc := range []string{`{"v": ` + lit + `}`, `{"l": ["x", ` + lit + `]}`, `{"l": [1, ` + lit + `]}`} {
				o := run.Parse(spec.Build(root, nil), zjson.Decode(strings.NewReader(doc)), nil)
				c.Eval(1)
				if o.Panicked || len(o.Issues) == 0 {
					c.Violation("number-silently-changed|json-literal-beyond-float64|"+k.String(), map[string]any{"json_document": doc, "destination_type": k.String(), "observed_destination": obs.Render(o.Dest), "panic": fmt.Sprint(o.Panic)})
					return false
				}
			}
		}
	}
	// unsigned Go integers given directly: the same number, or a coerce issue
	for _, in := range []any{uint64(math.MaxUint64), uint64(1 << 63), uint64(1<<63 + 5), uint(math.MaxUint), uint64(7), uint32(math.MaxUint32), uint8(200), int8(-128), int16(-300), uint16(65535), []uint64{1 << 63}, []any{uint64(math.MaxUint64)}} {
		for _, k := range []spec.Kind{spec.Int, spec.Int32, spec.Int64} {
			var root *spec.Node
			if rv := reflect.ValueOf(in); rv.Kind() == reflect.Slice {
				root = &spec.Node{Kind: spec.Slice, Elem: &spec.Node{Kind: k}}
			} else {
				root = &spec.Node{Kind: k}
			}
			root.Number()
			o := run.Parse(spec.Build(root, nil), in, nil)
			c.Eval(1)
			if o.Panicked {
				c.Violation("panic|"+k.String(), map[string]any{"input": fmt.Sprintf("%T(%v)", in, in), "panic": fmt.Sprint(o.Panic)})
				return false
			}
			if len(o.Issues) > 0 {
				continue
			}
			var gotV reflect.Value
			if sl, ok := o.Dest.([]any); ok {
				if len(sl) != 1 {
					continue
				}
				gotV = reflect.ValueOf(sl[0])
			} else {
				gotV = reflect.ValueOf(o.Dest)
			}
			inV := reflect.ValueOf(in)
			if inV.Kind() == reflect.Slice {
				inV = inV.Index(0)
				if inV.Kind() == reflect.Interface {
					inV = inV.Elem()
				}
			}
			want := new(big.Int)
			if inV.CanUint() {
				want.SetUint64(inV.Uint())
			} else {
				want.SetInt64(inV.Int())
			}
			if got := big.NewInt(gotV.Int()); got.Cmp(want) != 0 {
				c.Violation("number-silently-changed|unsigned-or-sized-input|"+k.String(), map[string]any{"input": fmt.Sprintf("%T(%v)", in, in), "stored": got.String(), "destination_type": k.String()})
				return false
			}
		}
	}
	return true
}

// c18TypedMaps: records given as maps whose elements are sized numbers (map[string]uint64, int64, uint32, float32 ...). Whether such a
// map is an acceptable record is not the question here (a coerce issue is fine): if the call succeeds the number must be the one sent.
func c18TypedMaps(c *core.Ctx) bool {
	type cell struct {
		data  any
		exact *big.Float
	}
	bf := func(s string) *big.Float { f, _, _ := big.ParseFloat(s, 10, 200, big.ToNearestEven); return f }
	cells := []cell{
		{map[string]uint64{"v": 1 << 63}, bf("9223372036854775808")}, {map[string]uint64{"v": math.MaxUint64}, bf("18446744073709551615")}, {map[string]uint64{"v": 7}, bf("7")},
		{map[string]uint{"v": math.MaxUint}, bf("18446744073709551615")}, {map[string]uint32{"v": math.MaxUint32}, bf("4294967295")}, {map[string]uint32{"v": 3000000000}, bf("3000000000")},
		{map[string]int64{"v": math.MaxInt64}, bf("9223372036854775807")}, {map[string]int64{"v": math.MinInt64}, bf("-9223372036854775808")}, {map[string]int64{"v": 3000000000}, bf("3000000000")},
		{map[string]int32{"v": math.MinInt32}, bf("-2147483648")}, {map[string]int8{"v": -128}, bf("-128")}, {map[string]uint8{"v": 255}, bf("255")}, {map[string]uint16{"v": 65535}, bf("65535")},
		{map[string]float32{"v": 16777217}, bf("16777216")}, {map[string]float32{"v": math.MaxFloat32}, new(big.Float).SetFloat64(math.MaxFloat32)},
	}
	for _, cl := range cells {
		for _, k := range c18Dests {
			for _, nest := range []bool{false, true} {
				leaf := &spec.Node{Kind: k}
				root := &spec.Node{Kind: spec.Struct, Fields: []spec.Field{{Key: "v", GoName: "V", Node: leaf}}}
				var input any = cl.data
				if nest {
					root = &spec.Node{Kind: spec.Struct, Fields: []spec.Field{{Key: "in", GoName: "In", Node: root}}}
					input = map[string]any{"in": cl.data}
				}
				root.Number()
				o := run.Parse(spec.Build(root, nil), input, nil)
				c.Eval(1)
				det := map[string]any{"input": fmt.Sprintf("%T%v", input, input), "destination_type": k.String(), "issues": issuesText(o), "observed_destination": obs.Render(o.Dest)}
				if o.Panicked {
					det["panic"] = fmt.Sprint(o.Panic)
					c.Violation("panic|"+k.String(), det)
					return false
				}
				if len(o.Issues) > 0 {
					continue // rejected: nothing was silently changed
				}
				m, _ := o.Dest.(map[string]any)
				if nest {
					m, _ = m["In"].(map[string]any)
				}
				rv := reflect.ValueOf(m["V"])
				var got *big.Float
				switch rv.Kind() {
				case reflect.Int, reflect.Int32, reflect.Int64:
					got = new(big.Float).SetPrec(200).SetInt64(rv.Int())
				case reflect.Float32, reflect.Float64:
					got = new(big.Float).SetPrec(200).SetFloat64(rv.Float())
				default:
					continue
				}
				want := cl.exact
				if k == spec.Float32 {
					f32, _ := want.Float32()
					want = new(big.Float).SetPrec(200).SetFloat64(float64(f32))
				} else if k == spec.Float64 {
					f64, _ := want.Float64()
					want = new(big.Float).SetPrec(200).SetFloat64(f64)
				}
				if got.Cmp(want) != 0 {
					det["sent"], det["stored"] = cl.exact.Text('f', 0), got.Text('f', 0)
					c.Violation("number-silently-changed|typed-map-element|"+k.String(), det)
					return false
				}
				c.NonTrivial(fpf("typedmap|%T|%s|%v", cl.data, k, nest))
			}
		}
	}
	c.Count("typed_map_cells", len(cells)*len(c18Dests)*2)
	return true
}

func altFloat32OK(data any, dest any, where string) bool {
	s, ok := data.(string)
	if !ok {
		return false
	}
	f, err := strconv.ParseFloat(s, 32)
	if err != nil {
		return false
	}
	var got any = dest
	if m, ok := dest.(map[string]any); ok {
		got = m["V"]
	}
	g, ok := got.(float32)
	return ok && math.Float32bits(g) == math.Float32bits(float32(f))
}

// jsonNumberText: a JSON number literal for the float64 (callers only use finite values).
func jsonNumberText(data any) string {
	return strconv.FormatFloat(data.(float64), 'g', -1, 64)
}

func randomNumber(r *rng.Rand) any {
	switch r.Intn(9) {
	case 0:
		return int(r.Uint64())
	case 1:
		return int64(r.Uint64())
	case 2:
		return int32(r.Uint64())
	case 3:
		return r.Bits64()
	case 4:
		return math.Float32frombits(uint32(r.Uint64()))
	case 5:
		// decimal integer string of up to 25 digits
		n := r.Range(1, 25)
		var sb strings.Builder
		if r.Bool() {
			sb.WriteByte('-')
		}
		for i := 0; i < n; i++ {
			sb.WriteByte(byte('0' + r.Intn(10)))
		}
		return sb.String()
	case 6:
		f := r.Bits64()
		if math.IsNaN(f) || math.IsInf(f, 0) {
			f = 1.5
		}
		return strconv.FormatFloat(f, 'e', -1, 64)
	case 7:
		// around int32 / int64 bounds
		b := []float64{1 << 31, -(1 << 31), 1 << 63, -(1 << 63), 1 << 53}[r.Intn(5)]
		return b + float64(r.Range(-4096, 4096))
	default:
		f := (r.Float64() - 0.5) * math.Pow(10, float64(r.Range(0, 45)))
		return strconv.FormatFloat(f, 'f', r.Intn(4), 64)
	}
}

// c18BigInputs: arbitrary-precision integers (what NUMERIC columns and exact decoders hand out) into the integer schemas: the same
// number or a coerce issue - never its low 64 bits.
func c18BigInputs(c *core.Ctx) bool {
	mk := func(s string) *big.Int { b, _ := new(big.Int).SetString(s, 10); return b }
	for _, b := range []*big.Int{mk("9223372036854775808"), mk("18446744073709551615"), mk("-9223372036854775815"), mk("18446744073709551616"), mk("5"), mk("-2147483649"), mk("4294967301"), nil} {
		for _, kind := range []string{"Int", "Int64", "Int32"} {
			var got int64
			var l z.ZogIssueList
			func() {
				defer func() {
					if r := recover(); r != nil {
						l = z.ZogIssueList{&z.ZogIssue{Code: "PANIC"}}
					}
				}()
				switch kind {
				case "Int":
					var d int
					l = z.Int().Parse(b, &d)
					got = int64(d)
				case "Int64":
					var d int64
					l = z.Int64().Parse(b, &d)
					got = d
				default:
					var d int32
					l = z.Int32().Parse(b, &d)
					got = int64(d)
				}
			}()
			c.Eval(1)
			if len(l) == 0 && (b == nil || !b.IsInt64() || b.Int64() != got) {
				c.Violation("number-silently-changed|big-integer-input", map[string]any{"schema": kind + "()", "input": fmt.Sprintf("*big.Int %v", b), "destination": got, "issues": 0})
				return false
			}
			if len(l) == 1 && l[0].Code == "PANIC" {
				c.Violation("panic|big-integer-input", map[string]any{"schema": kind + "()", "input": fmt.Sprintf("*big.Int %v", b)})
				return false
			}
		}
	}
	// the text NaN (or null, undefined) in a form or a query string is text that is not a number - with or without a Default
	type qn struct {
		N int     `query:"n" form:"n"`
		F float64 `query:"f" form:"f"`
	}
	for _, txt := range []string{"NaN", "null", "undefined", "nan", "Infinity"} {
		for _, front := range []string{"query", "form"} {
			var r *http.Request
			if front == "query" {
				r, _ = http.NewRequest("GET", "/x?n="+txt, nil)
			} else {
				r, _ = http.NewRequest("POST", "/x", strings.NewReader("n="+txt))
				r.Header.Set("Content-Type", "application/x-www-form-urlencoded")
			}
			d := qn{N: -1}
			m := z.Struct(z.Schema{"n": z.Int().Default(1).GTE(1), "f": z.Float64()}).Parse(zhttp.Request(r), &d)
			c.Eval(1)
			if len(m["n"]) != 1 || m["n"][0].Code != "coerce" || d.N != -1 {
				c.Violation("number-silently-changed|text-that-is-not-a-number", map[string]any{"request": front + " n=" + txt, "schema": "{n: Int().Default(1).GTE(1)}", "destination": d.N, "issues": fmt.Sprint(z.Issues.SanitizeMap(m)), "want": "one coerce issue at n, destination untouched"})
				return false
			}
		}
	}
	return true
}

func (c18) RunCase(c *core.Ctx) {
	if c.Case == 12 && !w10(c, "C18") {
		return
	}
	if c.Case == 11 && !c18BigInputs(c) {
		return
	}
	if c.Case == 0 && !c18JSONLiterals(c) {
		return
	}
	if c.Case == 1 && !c18TypedMaps(c) {
		return
	}
	var data any
	if c.Case < len(c18Grid) {
		data = c18Grid[c.Case]
		c.Count("grid_cells", len(c18Dests)*2)
	} else {
		data = randomNumber(c.R)
		c.Count("random_values", 1)
	}
	if !c18Check(c, data, "direct") || !c18Check(c, data, "struct") {
		return
	}
	if f, ok := data.(float64); ok && !math.IsNaN(f) && !math.IsInf(f, 0) {
		if !c18Check(c, data, "json") {
			return
		}
	}
	c.Distinct("input_representations", fmt.Sprintf("%T", data))
	if c.WantSample() && c.Case%211 == 0 {
		var row []string
		for _, k := range c18Dests {
			cc := ref.CoerceNumber(k, data)
			switch {
			case cc.Unknown:
				row = append(row, k.String()+": not judged")
			case cc.OK:
				row = append(row, fmt.Sprintf("%s: %s", k, obs.Render(cc.V)))
			default:
				row = append(row, k.String()+": coerce issue")
			}
		}
		c.Sample(map[string]any{"input": obs.Render(obs.Norm(data)), "reference_outcome_per_destination": row})
	}
}
