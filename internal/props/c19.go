package props

import (
	"encoding/json"
	"fmt"
	z "github.com/Oudwins/zog"
	"reflect"
	"strings"

	"zogverif/internal/core"
	"zogverif/internal/gen"
	"zogverif/internal/obs"
	"zogverif/internal/ref"
	"zogverif/internal/rng"
	"zogverif/internal/run"
	"zogverif/internal/spec"
)

// C19: executions never modify the schema or the input.
type c19 struct{}

func init() { core.Register(c19{}) }

func (c19) ID() string { return "C19" }

func (c19) Info(t core.Tier) core.Info {
	return core.Info{
		Level: "exploration",
		Rule: "each case = one schema object (slice-valued and nested-slice-valued defaults, catch values, OneOf / Contains lists, pointer and struct destinations, destination-mutating post-transforms on strings, slices and structs) used 2-6 times in a row with Parse and Validate on a small set of inputs (generic []any / map inputs and typed inputs of exactly the destination's type such as []string, [][]string). " +
			"around every call deep snapshot hashes (incl. unexported fields, slice len and cap) are taken of the input, of the schema graph and of every value the harness handed to the builders; after every call the harness overwrites every mutable part of the destination in place and re-hashes the schema; " +
			"the same (input, mode) repeated later in the history must give the same canonical result; in Validate a value may only change at nodes with Default, Catch or PostTransform. " +
			"non-trivial: schema with a slice default or a destination-mutating post-transform, used >= 2 times; distinct by (schema, history).",
		Assumptions: commonAssumptions,
		MinDistinct: 50,
	}
}

func (c19) NumCases(t core.Tier) int { return tierN(t, 30000, 3000000) }

// scribble overwrites every mutable part of a destination in place (elements of slices, pointees, fields).
func scribble(v reflect.Value, depth int) {
	if depth > 10 || !v.IsValid() {
		return
	}
	switch v.Kind() {
	case reflect.Ptr:
		if !v.IsNil() {
			scribble(v.Elem(), depth+1)
		}
	case reflect.Struct:
		if v.Type().String() == "time.Time" {
			return
		}
		for i := 0; i < v.NumField(); i++ {
			if v.Field(i).CanSet() {
				scribble(v.Field(i), depth+1)
			}
		}
	case reflect.Slice:
		for i := 0; i < v.Len(); i++ {
			scribble(v.Index(i), depth+1)
		}
		// also write into the spare capacity
		if v.CanSet() && v.Cap() > v.Len() {
			full := v.Slice(0, v.Cap())
			for i := v.Len(); i < v.Cap(); i++ {
				scribble(full.Index(i), depth+1)
			}
		}
	case reflect.String:
		if v.CanSet() {
			v.SetString("SCRIBBLED")
		}
	case reflect.Int, reflect.Int32, reflect.Int64:
		if v.CanSet() {
			v.SetInt(-31337)
		}
	case reflect.Float32, reflect.Float64:
		if v.CanSet() {
			v.SetFloat(-31337.5)
		}
	case reflect.Bool:
		if v.CanSet() {
			v.SetBool(!v.Bool())
		}
	}
}

// mutatingPost returns a post-transform that changes the destination it is given, in place.
func mutatingPost(n *spec.Node) func(ptr any) error {
	return func(ptr any) error {
		rv := reflect.ValueOf(ptr)
		if rv.Kind() != reflect.Ptr || rv.IsNil() {
			return nil
		}
		e := rv.Elem()
		switch e.Kind() {
		case reflect.String:
			e.SetString(strings.ToUpper(e.String()) + "!")
		case reflect.Slice:
			mutateSliceInPlace(e)
		case reflect.Struct:
			for i := 0; i < e.NumField(); i++ {
				f := e.Field(i)
				if f.Kind() == reflect.String && f.CanSet() && !strings.HasPrefix(e.Type().Field(i).Name, "XUntouched") {
					f.SetString(f.String() + "+st")
					break
				}
			}
		case reflect.Int, reflect.Int64, reflect.Int32:
			e.SetInt(e.Int() + 1)
		}
		return nil
	}
}

func mutateSliceInPlace(e reflect.Value) {
	if e.CanSet() && e.Len() < e.Cap() {
		// append within the capacity the slice already has
		switch e.Type().Elem().Kind() {
		case reflect.String:
			e.Set(reflect.Append(e, reflect.ValueOf("appended").Convert(e.Type().Elem())))
		case reflect.Int, reflect.Int64, reflect.Int32:
			e.Set(reflect.Append(e, reflect.ValueOf(777).Convert(e.Type().Elem())))
		}
	}
	for i := 0; i < e.Len(); i++ {
		x := e.Index(i)
		switch x.Kind() {
		case reflect.String:
			x.SetString(strings.ToUpper(x.String()) + "!")
		case reflect.Int, reflect.Int64, reflect.Int32:
			x.SetInt(x.Int() + 100)
		case reflect.Slice:
			mutateSliceInPlace(x)
		}
	}
}

func c19Schema(r *rng.Rand) (*spec.Node, bool) {
	o := gen.DefaultOpts()
	o.DefaultPct = 40
	o.CatchPct = 20
	o.Posts = false
	o.Customs = r.Intn(3) == 0
	o.MaxDepth = 3
	switch r.Intn(8) {
	case 0, 1:
		o.TopKinds = []spec.Kind{spec.Slice}
	case 2:
		o.TopKinds = []spec.Kind{spec.Ptr}
	}
	n := gen.Schema(r, o)
	special := false
	// nested slice defaults: Slice(Slice(String)).Default([][]string{...})
	seen := map[*spec.Node]bool{}
	n.Walk(func(x *spec.Node) {
		if seen[x] {
			return
		}
		seen[x] = true
		if x.Kind == spec.Slice && x.Elem.Kind == spec.Slice && x.Elem.Elem.Kind == spec.String && r.Intn(2) == 0 {
			def := [][]string{{"d1", "d2"}, {"d3"}}
			if r.Bool() {
				// rows that are empty but own a buffer (buf[:0], make([]T, 0, n)), and a row with spare capacity
				def = [][]string{make([]string, 0, 4), append(make([]string, 0, 3), "d3"), {}}
			}
			x.Mods = append(x.Mods, spec.Mod{Op: spec.MDefault, Val: def})
			special = true
		} else if x.Kind == spec.Slice && x.Elem.Kind == spec.String && !x.Eff().HasDefault && r.Intn(6) == 0 {
			x.Mods = append(x.Mods, spec.Mod{Op: spec.MDefault, Val: [][]string{make([]string, 0, 4), append(make([]string, 0, 4), "dd")}[r.Intn(2)]})
			special = true
		}
		if x.Kind == spec.Slice && !x.Eff().HasDefault && r.Intn(3) == 0 {
			// defaults that hold more than strings and numbers: structs (with their own slices), pointers, reference-typed custom values
			deep := false
			switch x.Elem.Kind {
			case spec.Struct:
				// (pointers are left to c19PointerDefault: as Parse *input* a pointer leaf is rendered with %v, i.e. by address)
				deep = true
				x.Elem.Walk(func(e *spec.Node) {
					if e.Kind == spec.Ptr {
						deep = false
					}
				})
			case spec.Custom:
				deep = x.Elem.CustomT.Name == "[]int"
			}
			if deep {
				tree := gen.ValueTree(r, x, gen.InOpts{ValidPct: 100}, true)
				if sl, ok := tree.([]any); ok && len(sl) > 0 {
					x.Mods = append(x.Mods, spec.Mod{Op: spec.MDefault, Val: obs.Make(x.GoType(), tree).Interface()})
					special = true
				}
			}
		}
		if x.Kind == spec.Slice && x.Eff().HasDefault {
			special = true
		}
		if r.Intn(4) == 0 {
			switch x.Kind {
			case spec.String, spec.Slice, spec.Struct, spec.Int:
				x.Posts = append(x.Posts, spec.Post{Name: "mutate-in-place", Fn: mutatingPost(x)})
				special = true
			}
		}
	})
	// whether an element's post-transform ran before a sibling failed depends on the visit order (tolerated); a slice-level
	// Contains would then see different element values from run to run: keep mutating transforms away from such elements
	seen2 := map[*spec.Node]bool{}
	n.Walk(func(x *spec.Node) {
		if seen2[x] || x.Kind != spec.Slice {
			return
		}
		seen2[x] = true
		for _, t := range x.Tests {
			if t.Op == spec.TContains {
				x.Elem.Walk(func(e *spec.Node) { e.Posts = nil })
				x.Posts = nil
			}
		}
	})
	// a custom schema hands a reference-typed input (a []int) to the destination as it is; a transform of an enclosing slice
	// that writes to its elements would then write into the input through the destination it was given: keep those apart
	seen3 := map[*spec.Node]bool{}
	n.Walk(func(x *spec.Node) {
		if seen3[x] || x.Kind != spec.Slice {
			return
		}
		seen3[x] = true
		hasCustom := false
		x.Elem.Walk(func(e *spec.Node) {
			if e.Kind == spec.Custom {
				hasCustom = true
			}
		})
		if hasCustom {
			x.Posts = nil
		}
	})
	n.Number()
	return n, special
}

// c19PointerDefault: a slice default whose elements are pointers, used by Validate (a pointer leaf is not meaningful Parse
// input): every validated value gets its own pointees.
func c19PointerDefault(c *core.Ctx) bool {
	x, y := 1, 2
	def := []*int{&x, &y}
	sch := z.Slice(z.Ptr(z.Int())).Default(def)
	for round := 0; round < 3; round++ {
		var d []*int
		issues := sch.Validate(&d)
		c.Eval(1)
		if issues != nil || len(d) != 2 || d[0] == nil || d[1] == nil || *d[0] != 1 || *d[1] != 2 {
			c.Violation("schema-behaves-differently-on-later-use|Validate", map[string]any{"schema": "z.Slice(z.Ptr(z.Int())).Default([]*int{&1, &2})", "round": round, "value": fmt.Sprint(obs.Render(obs.Norm(d))), "issues": fmt.Sprint(issues)})
			return false
		}
		*d[0], *d[1] = 70+round, 80+round // the caller owns what it validated
		if x != 1 || y != 2 || d[0] == def[0] {
			c.Violation("builder-value-modified|by-writing-to-the-destination-afterwards", map[string]any{"schema": "z.Slice(z.Ptr(z.Int())).Default([]*int{&1, &2})", "default_now": fmt.Sprintf("[%d %d]", x, y)})
			return false
		}
	}
	c.Count("pointer_default_rounds", 3)
	return true
}

// builderValues collects the values the harness handed to builders.
func builderValues(n *spec.Node) []any {
	var out []any
	seen := map[*spec.Node]bool{}
	n.Walk(func(x *spec.Node) {
		if seen[x] {
			return
		}
		seen[x] = true
		for _, m := range x.Mods {
			if m.Val != nil {
				out = append(out, m.Val)
			}
			if m.Opts.Params != nil {
				out = append(out, m.Opts.Params)
			}
		}
		for _, t := range x.Tests {
			if t.Arg != nil {
				out = append(out, t.Arg)
			}
			if t.Opts.Params != nil {
				out = append(out, t.Opts.Params)
			}
		}
	})
	return out
}

func snapAll(vs []any) []uint64 {
	out := make([]uint64, len(vs))
	for i, v := range vs {
		out[i] = obs.Snapshot(v)
	}
	return out
}

// typedInput converts generic slice data into a slice of exactly the destination's type where that is possible.
func typedInput(n *spec.Node, data any) any {
	if n.Kind != spec.Slice {
		return data
	}
	s, ok := data.([]any)
	if !ok {
		return data
	}
	t := n.GoType()
	out := reflect.MakeSlice(t, 0, len(s)+2) // spare capacity on purpose
	for _, e := range s {
		var ev reflect.Value
		if n.Elem.Kind == spec.Slice {
			te := typedInput(n.Elem, e)
			ev = reflect.ValueOf(te)
		} else {
			ev = reflect.ValueOf(e)
		}
		if !ev.IsValid() || ev.Type() != t.Elem() {
			return data
		}
		out = reflect.Append(out, ev)
	}
	return out.Interface()
}

// unchangedWhereNoWriter checks that Validate changed the value only at nodes with Default, Catch or PostTransform.
func unchangedWhereNoWriter(n *spec.Node, before, after any, path string) string {
	eff := n.Eff()
	if eff.HasDefault || eff.HasCatch || len(n.Posts) > 0 {
		return ""
	}
	switch n.Kind {
	case spec.Struct:
		bm, _ := before.(map[string]any)
		am, _ := after.(map[string]any)
		for i := range n.Fields {
			f := &n.Fields[i]
			if d := unchangedWhereNoWriter(f.Node, bm[f.GoName], am[f.GoName], path+"."+f.GoName); d != "" {
				return d
			}
		}
		for _, x := range n.ExtraFields {
			if !obs.Equal(bm[x.GoName], am[x.GoName]) {
				return path + "." + x.GoName + " (a field the schema does not name) changed"
			}
		}
		return ""
	case spec.Slice:
		bs, _ := before.([]any)
		as, _ := after.([]any)
		if len(bs) != len(as) {
			return fmt.Sprintf("%s: length %d -> %d", path, len(bs), len(as))
		}
		for i := range bs {
			if d := unchangedWhereNoWriter(n.Elem, bs[i], as[i], fmt.Sprintf("%s[%d]", path, i)); d != "" {
				return d
			}
		}
		return ""
	case spec.Ptr:
		bp, _ := before.(obs.PtrV)
		ap, _ := after.(obs.PtrV)
		if bp.Nil != ap.Nil {
			return path + ": pointer nil-ness changed"
		}
		if bp.Nil {
			return ""
		}
		return unchangedWhereNoWriter(n.Elem, bp.V, ap.V, path+"*")
	}
	if !obs.Equal(before, after) {
		return fmt.Sprintf("%s: %s -> %s", path, obs.Render(before), obs.Render(after))
	}
	return ""
}

func (c19) RunCase(c *core.Ctx) {
	if c.Case%97 == 23 && !w10(c, "C19") {
		return
	}
	if c.Case%200 == 17 && !c19PointerDefault(c) {
		return
	}
	if c.Case%100 == 33 {
		// defaults holding reference-typed values that custom schemas hand over as they are, below structs, slices and Preprocess
		name, problem := dDefaultsIndependent(c.R)
		c.Eval(2)
		if problem != "" {
			c.Violation("builder-value-modified|by-writing-to-the-destination-afterwards", map[string]any{"schema": name, "observed": problem})
			return
		}
		c.Distinct("directed_default_schemas", name)
	}
	if c.Case%100 == 35 {
		c.Eval(9)
		if problem := dFormatterSetParams(); problem != "" {
			c.Violation("later-use-differs|after-an-execution-whose-formatter-set-params", map[string]any{"observed": problem})
			return
		}
	}
	if c.Case%100 == 36 {
		c.Eval(8)
		if outs, changed := dValidateNilEmbedded(4); changed {
			c.Violation("validated-value-modified|without-default-catch-or-transform", map[string]any{"schema": "{Rev: Int(), By: String(), title: String()} (no Default, Catch or PostTransform) validating struct{ *DStamp(nil); Title }", "observed": "the nil embedded pointer of the validated value was replaced by a pointer to a zero struct", "outcomes": outs})
			return
		}
	}
	if c.Case%100 == 34 {
		c.Eval(3)
		if problem := dStructInputs(); problem != "" {
			c.Violation("input-modified|struct-record-with-nil-embedded-pointer", map[string]any{"schema": "Struct{Title: String().Required(), Author: String().Default(nobody), Rev: Int(), Tags: Slice(String())}; record type struct{ *DAudit{Author, Rev}; Title; Tags }", "observed": problem})
			return
		}
	}
	n, special := c19Schema(c.R)
	src := n.Source()
	b := spec.Build(n, nil) // ONE schema object for the whole history
	vals := builderValues(n)
	// a small input set, so that repetitions occur
	type inp struct {
		data any
		val  any
	}
	var inputs []inp
	for i := 0; i < 3; i++ {
		d := gen.ParseInput(c.R, n, gen.InOpts{ValidPct: 55, AbsentPct: 30, WrongPct: 5})
		if c.R.Bool() {
			d = typedInput(n, d)
		}
		if c.R.Intn(6) == 0 {
			// a map the caller decoded itself with json.Decoder.UseNumber(): json.Number values inside nested containers (whatever they
			// mean to the schema, they stay what they are in the caller's data)
			d = gen.InjectHostile(c.R, d, []any{map[string]any{"k": json.Number("2"), "l": []any{json.Number("3"), "x"}}, []any{json.Number("1"), json.Number("9007199254740993")}}[c.R.Intn(2)])
		}
		inputs = append(inputs, inp{data: d, val: gen.ValueTree(c.R, n, gen.InOpts{ValidPct: 55, AbsentPct: 35}, false)})
	}
	// sometimes a pointer schema is fed a pointer of exactly the destination's pointer type (the optional fields of one struct
	// parsed into another): what such an input *means* is not specified (results are not compared for these inputs), but Parse
	// must not write through it
	ptrInputs := map[int]bool{}
	if c.R.Intn(8) == 0 {
		for i := range inputs {
			if d, ok := pointerLeaves(n, inputs[i].data); ok {
				inputs[i].data = d
				ptrInputs[i] = true
			}
		}
	}
	firstResult := map[string]string{}
	uses := c.R.Range(2, 6)
	var history []string
	for u := 0; u < uses; u++ {
		inIdx := c.R.Intn(len(inputs))
		in := inputs[inIdx]
		mode := ref.Parse
		if c.R.Bool() && n.Kind != spec.Pre {
			mode = ref.Validate
		}
		var input any = in.data
		if mode == ref.Validate {
			input = in.val
		}
		history = append(history, fmt.Sprintf("%s(%s)", mode, trunc(obs.Render(obs.Norm(input)), 120)))
		schemaBefore := obs.Snapshot(b.Schema)
		valsBefore := snapAll(vals)
		inputBefore := obs.Snapshot(in.data)
		var out *run.Outcome
		aliased, spare := false, false
		if mode == ref.Parse && c.R.Intn(3) == 0 {
			// the caller's destination already holds slices that share their arrays with the input ("start from the current
			// values", Parse(tags, &tags)) or with the schema's defaults (cfg.Tags = defaultTags): Parse must not write through them
			dp := run.NewDest(n, nil)
			var nd any
			nd, aliased = aliasDest(c.R, n, in.data, dp.Elem())
			if aliased {
				in.data, input = nd, nd
				inputBefore = obs.Snapshot(in.data)
				c.Count("parses_into_destination_sharing_memory_with_input_or_default", 1)
			}
			out = run.ParseInto(b, in.data, dp)
		} else if mode == ref.Parse {
			out = run.Parse(b, in.data, nil)
		} else {
			vp := run.NewDest(n, in.val)
			if c.R.Bool() {
				spareCapacity(vp.Elem(), 0) // empty slices that still own a buffer (s = s[:0], make([]T, 0, n))
				spare = true
			}
			out = run.ValidatePtr(b, vp)
		}
		c.Eval(1)
		det := func(extra map[string]any) map[string]any {
			extra["history"] = history
			extra["use_number"] = u + 1
			return describeCase(n, mode, input, extra)
		}
		if out.Panicked {
			c.Violation("panic|"+panicKind(out.Panic), det(map[string]any{"panic": trunc(fmt.Sprint(out.Panic), 300), "stack": trunc(out.Stack, 2000)}))
			return
		}
		if mode == ref.Parse && obs.Snapshot(in.data) != inputBefore {
			c.Violation("parse-modified-its-input", det(map[string]any{"input_after": obs.Render(obs.Norm(in.data))}))
			return
		}
		check := func(stage string) bool {
			if obs.Snapshot(b.Schema) != schemaBefore {
				c.Violation("schema-modified|"+stage, det(map[string]any{"what": "deep snapshot of the schema object graph changed"}))
				return false
			}
			for i, h := range snapAll(vals) {
				if h != valsBefore[i] {
					c.Violation("builder-value-modified|"+stage, det(map[string]any{"value_now": obs.Render(obs.Norm(vals[i]))}))
					return false
				}
			}
			return true
		}
		if !check("by-the-execution") {
			return
		}
		res := canonResult(out)
		if len(out.Issues) > 0 {
			// whether a post-transform ran before another node failed depends on the visit order (tolerated): the values carried by issues are left out
			res = obs.Multiset(out.Issues, func(ci obs.CI) string { return ci.Key + "|" + ci.Triple() + "|" + ci.Message + "|" + ci.Params })
		}
		key := fmt.Sprintf("%s|%s|%x|%v", mode, obs.Render(obs.Norm(input)), obs.Snapshot(input), spare) // (an appending transform sees whether an empty slice owns a buffer)
		if mode == ref.Parse && ptrInputs[inIdx] {
			c.Count("parses_of_inputs_with_pointer_leaves", 1)
		} else if prev, ok := firstResult[key]; ok && prev != res {
			c.Violation("schema-behaves-differently-on-later-use|"+mode.String(), det(map[string]any{"first_result": prev, "this_result": res}))
			return
		}
		firstResult[key] = res
		if mode == ref.Validate {
			if d := unchangedWhereNoWriter(n, in.val, out.Dest, "$"); d != "" {
				c.Violation("validate-changed-value-without-default-catch-posttransform", det(map[string]any{"change": d, "value_after": obs.Render(out.Dest)}))
				return
			}
		}
		// handing the result back with the Collect helpers is part of the documented usage: it must not reach the schema either
		if c.R.Intn(3) == 0 {
			if out.IsMap {
				if c.R.Bool() {
					z.Issues.CollectMap(out.RawMap)
				} else {
					_ = z.Issues.SanitizeMapAndCollect(out.RawMap)
				}
			} else {
				if c.R.Bool() {
					z.Issues.CollectList(out.RawList)
				} else {
					_ = z.Issues.SanitizeListAndCollect(out.RawList)
				}
			}
			c.Count("results_handed_to_collect", 1)
			if !check("by-collecting-the-result") {
				return
			}
		}
		if aliased {
			continue // an untouched (absent) position legitimately still holds the caller's shared slice: nothing to overwrite here
		}
		// the destination never shares mutable memory with the schema: overwrite it and look at the schema again
		scribble(out.DestVal.Elem(), 0)
		if !check("by-writing-to-the-destination-afterwards") {
			return
		}
		if mode == ref.Parse && obs.Snapshot(in.data) != inputBefore {
			// aliasing of input and destination: recorded as evidence only (the harness, not Parse, wrote)
			c.Count("destination_aliases_input", 1)
			// restore is impossible in general: regenerate this input for later uses
			for i := range inputs {
				if obs.Snapshot(inputs[i].data) == obs.Snapshot(in.data) {
					inputs[i].data = gen.ParseInput(c.R, n, gen.InOpts{ValidPct: 55, AbsentPct: 30, WrongPct: 5})
				}
			}
			firstResult = map[string]string{}
		}
	}
	c.Count("uses", uses)
	if special && uses >= 2 {
		c.NonTrivial(fpf("%s|%s", src, strings.Join(history, ";")))
		if c.WantSample() {
			c.Sample(map[string]any{"schema": src, "history": history})
		}
	}
}

// pointerLeaves replaces, at Ptr(primitive) positions of the input whose value already has the pointee's Go type, the value by a
// pointer to it. ok=false: no such position.
func pointerLeaves(n *spec.Node, data any) (any, bool) {
	switch n.Kind {
	case spec.Struct:
		m, ok := data.(map[string]any)
		if !ok {
			return data, false
		}
		out := map[string]any{}
		for k, v := range m {
			out[k] = v
		}
		any1 := false
		for i := range n.Fields {
			f := &n.Fields[i]
			key := f.DataKey("")
			if v, has := m[key]; has {
				if nv, ok := pointerLeaves(f.Node, v); ok {
					out[key], any1 = nv, true
				}
			}
		}
		return out, any1
	case spec.Ptr:
		if n.Elem.Kind.IsPrimitive() && data != nil && reflect.TypeOf(data) == n.Elem.GoType() {
			p := reflect.New(n.Elem.GoType())
			p.Elem().Set(reflect.ValueOf(data))
			return p.Interface(), true
		}
	}
	return data, false
}

// aliasDest pre-populates slice positions of the destination with slices that share their backing array with the input (the
// input is converted to a slice of exactly the destination's type for that) or, where the input is absent, with the schema's
// Default slice. It returns the input to use and whether any position was shared.
func aliasDest(r *rng.Rand, n *spec.Node, data any, dest reflect.Value) (any, bool) {
	switch n.Kind {
	case spec.Struct:
		m, ok := data.(map[string]any)
		if !ok || dest.Kind() != reflect.Struct {
			return data, false
		}
		out := map[string]any{}
		for k, v := range m {
			out[k] = v
		}
		shared := false
		for i := range n.Fields {
			f := &n.Fields[i]
			sf, ok := dest.Type().FieldByName(f.GoName)
			if !ok {
				continue
			}
			fd := obs.FieldAlloc(dest, sf.Index)
			key := f.DataKey("")
			nd, a := aliasDest(r, f.Node, m[key], fd)
			if a {
				shared = true
				if _, had := m[key]; had {
					out[key] = nd
				}
			}
		}
		return out, shared
	case spec.Slice:
		if dest.Kind() != reflect.Slice {
			return data, false
		}
		if data == nil {
			if e := n.Eff(); e.HasDefault {
				dv := reflect.ValueOf(e.Default)
				if dv.IsValid() && dv.Type() == dest.Type() && dv.Len() > 0 {
					dest.Set(dv)
					return data, true
				}
			}
			return data, false
		}
		typed := reflect.ValueOf(typedInput(n, data))
		if !typed.IsValid() || typed.Type() != dest.Type() || typed.Len() == 0 {
			return data, false
		}
		switch r.Intn(3) {
		case 0:
			dest.Set(typed) // the very same slice
		case 1:
			dest.Set(typed.Slice(0, 0)) // emptied, still the same array
		default:
			dest.Set(typed.Slice(0, typed.Len()-1+r.Intn(2)))
		}
		return typed.Interface(), true
	}
	return data, false
}

// spareCapacity replaces every empty slice by an empty slice with capacity 4.
func spareCapacity(v reflect.Value, depth int) {
	if depth > 10 || !v.IsValid() {
		return
	}
	switch v.Kind() {
	case reflect.Ptr:
		if !v.IsNil() {
			spareCapacity(v.Elem(), depth+1)
		}
	case reflect.Struct:
		if v.Type().String() == "time.Time" {
			return
		}
		for i := 0; i < v.NumField(); i++ {
			spareCapacity(v.Field(i), depth+1)
		}
	case reflect.Slice:
		if v.Len() == 0 && v.CanSet() {
			v.Set(reflect.MakeSlice(v.Type(), 0, 4))
			return
		}
		for i := 0; i < v.Len(); i++ {
			spareCapacity(v.Index(i), depth+1)
		}
	}
}
