package props

import (
	"fmt"
	"net/http"
	"reflect"
	"sort"
	"strings"

	z "github.com/Oudwins/zog"
	"github.com/Oudwins/zog/conf"
	"github.com/Oudwins/zog/i18n"
	"github.com/Oudwins/zog/i18n/en"
	"github.com/Oudwins/zog/i18n/es"
	"github.com/Oudwins/zog/parsers/zjson"
	"github.com/Oudwins/zog/zconst"
	"github.com/Oudwins/zog/zhttp"

	"zogverif/internal/core"
	"zogverif/internal/gen"
	"zogverif/internal/obs"
	"zogverif/internal/ref"
	"zogverif/internal/run"
	"zogverif/internal/spec"
)

// C11: every issue is fully described and its message is chosen most-specific-first.
type c11 struct{}

func init() { core.Register(c11{}) }

func (c11) ID() string { return "C11" }

type c11cell struct {
	name   string
	node   func() *spec.Node
	parse  any // failing Parse input (nil = use Validate only)
	val    any // failing value tree for Validate (nil = skip Validate)
	code   string
	dtype  string
	params map[string]any // expected params (nil = none)
	value  any            // expected offending value (nil = not judged)
	front  string         // "", "invalid_json", "invalid_form", "invalid_json_ptr"
}

var c11Cells = buildC11Cells()

func single(k spec.Kind, elem *spec.Node, t spec.Test) *spec.Node {
	n := &spec.Node{Kind: k, Elem: elem, Tests: []spec.Test{t}}
	n.Number()
	return n
}

func buildC11Cells() []c11cell {
	var out []c11cell
	// every built-in test with a failing subject, derived from the C20 catalogue
	seen := map[string]bool{}
	perClass := map[string]int{}
	for _, cfg := range c20Configs {
		cfg := cfg
		key := testClass(cfg) + "|" + cfg.test.Op.String()
		if cfg.test.Op == spec.TMin || cfg.test.Op == spec.TMax || cfg.test.Op == spec.TLen {
			key += fmt.Sprint(cfg.test.N)
		}
		// up to 8 cells per (kind, test, Not) with distinct parameters (nil, NaN, empty, zero ... print differently) - each needs a failing, present subject
		pkey := testClass(cfg) + "|" + fmt.Sprintf("%d|%s", cfg.test.N, obs.Render(obs.Norm(cfg.test.Arg)))
		if seen[pkey] || perClass[testClass(cfg)] >= 8 {
			continue
		}
		var subj any
		found := false
		for _, s := range cfg.subjects(core.Quick) {
			t := cfg.test
			holds, known := ref.TestHolds(&t, s)
			if !known {
				continue
			}
			if cfg.test.Not {
				holds = !holds
			}
			tree := obs.Norm(s)
			if !holds && !ref.IsZeroValidate(tree) && !ref.IsAbsentParse(s) {
				if sl, ok := tree.([]any); ok && len(sl) == 0 {
					continue
				}
				if f, ok := s.(float64); ok && f != f {
					continue
				}
				if f, ok := s.(float32); ok && f != f {
					continue
				}
				subj, found = s, true
				break
			}
		}
		if !found {
			continue
		}
		seen[pkey] = true
		perClass[testClass(cfg)]++
		t := cfg.test
		cell := c11cell{name: cfg.name, node: func() *spec.Node { return single(cfg.kind, cfg.elem, cfg.test) }, parse: subj, val: obs.Norm(subj), code: t.EffCode(), value: obs.Norm(subj)}
		cell.dtype = cell.node().DType()
		switch t.Op {
		case spec.TMin:
			cell.params = map[string]any{"min": t.N}
		case spec.TMax:
			cell.params = map[string]any{"max": t.N}
		case spec.TLen:
			cell.params = map[string]any{"len": t.N}
		case spec.THasPrefix:
			cell.params = map[string]any{"prefix": t.Arg}
		case spec.THasSuffix:
			cell.params = map[string]any{"suffix": t.Arg}
		case spec.TContains:
			cell.params = map[string]any{"contained": t.Arg}
		case spec.TOneOf:
			cell.params = map[string]any{"one_of_options": t.Arg}
		case spec.TMatch:
			cell.params = map[string]any{"match": t.Re.String()}
		case spec.TEQ:
			cell.params = map[string]any{"eq": t.Arg}
		case spec.TTrue:
			cell.params = map[string]any{"eq": true}
		case spec.TFalse:
			cell.params = map[string]any{"eq": false}
		case spec.TLT:
			cell.params = map[string]any{"lt": t.Arg}
		case spec.TLTE:
			cell.params = map[string]any{"lte": t.Arg}
		case spec.TGT:
			cell.params = map[string]any{"gt": t.Arg}
		case spec.TGTE:
			cell.params = map[string]any{"gte": t.Arg}
		case spec.TAfter:
			cell.params = map[string]any{"after": t.Arg}
		case spec.TBefore:
			cell.params = map[string]any{"before": t.Arg}
		}
		out = append(out, cell)
	}
	// required / coerce for every primitive kind and slices; not_nil through each pointee type
	for _, k := range []spec.Kind{spec.String, spec.Int, spec.Int32, spec.Int64, spec.Float32, spec.Float64, spec.Bool, spec.Time, spec.Slice} {
		k := k
		mk := func() *spec.Node {
			n := &spec.Node{Kind: k, Mods: []spec.Mod{{Op: spec.MRequired}}}
			if k == spec.Slice {
				n.Elem = &spec.Node{Kind: spec.String}
			}
			n.Number()
			return n
		}
		out = append(out, c11cell{name: k.String() + ".Required (absent)", node: mk, parse: missingKey{}, val: obs.NormValue(reflect.Zero(mk().GoType())), code: "required", dtype: mk().DType()})
		// a blank string is an absent value for every kind: the issue refers to that input
		out = append(out, c11cell{name: k.String() + ".Required (blank input)", node: mk, parse: " \t ", code: "required", dtype: mk().DType(), value: " \t "})
		if k != spec.String && k != spec.Slice {
			out = append(out, c11cell{name: k.String() + " coerce", node: mk, parse: "definitely not coercible", code: "coerce", dtype: mk().DType(), value: "definitely not coercible"})
		}
		pk := func() *spec.Node {
			n := &spec.Node{Kind: spec.Ptr, Elem: mk(), Mods: []spec.Mod{{Op: spec.MNotNil}}}
			n.Number()
			return n
		}
		out = append(out, c11cell{name: "Ptr(" + k.String() + ").NotNil (nil)", node: pk, parse: missingKey{}, val: obs.PtrV{Nil: true}, code: "not_nil", dtype: mk().DType()})
	}
	// custom schemas: the user's function failed and no message was given / the input is not a T
	cust := func() *spec.Node {
		n := customOf(0)
		n.Tests[0].PredName, n.Tests[0].Pred = "false", func(any) bool { return false }
		n.Number()
		return n
	}
	out = append(out, c11cell{name: "Custom[int] function fails (no message given)", node: cust, parse: 5, val: 5, code: "", dtype: "custom", value: 5})
	out = append(out, c11cell{name: "Custom[int] coerce (input is not an int)", node: cust, parse: "not an int", code: "coerce", dtype: "custom", value: "not an int"})
	st := func() *spec.Node {
		n := structOf("a", str())
		n.Number()
		return n
	}
	out = append(out, c11cell{name: "Struct coerce (not a record)", node: st, parse: "not a record", code: "coerce", dtype: "struct", value: "not a record"})
	out = append(out, c11cell{name: "Ptr(Struct).NotNil (nil)", node: func() *spec.Node {
		n := &spec.Node{Kind: spec.Ptr, Elem: st(), Mods: []spec.Mod{{Op: spec.MNotNil}}}
		n.Number()
		return n
	}, parse: missingKey{}, val: obs.PtrV{Nil: true}, code: "not_nil", dtype: "struct"})
	out = append(out, c11cell{name: "zjson invalid_json", node: st, front: "invalid_json", code: "invalid_json", dtype: "struct"})
	out = append(out, c11cell{name: "zjson invalid_json null body", node: st, front: "invalid_json_null", code: "invalid_json", dtype: "struct"})
	out = append(out, c11cell{name: "zhttp invalid_json", node: st, front: "zhttp_invalid_json", code: "invalid_json", dtype: "struct"})
	out = append(out, c11cell{name: "zhttp invalid_form", node: st, front: "invalid_form", code: "invalid_form", dtype: "struct"})
	out = append(out, c11cell{name: "Ptr(Struct) invalid_json", node: func() *spec.Node { n := &spec.Node{Kind: spec.Ptr, Elem: st()}; n.Number(); return n }, front: "invalid_json", code: "invalid_json", dtype: "struct"})
	return out
}

var c11Langs = []string{"default", "i18n:en", "i18n:es", "i18n:unknown", "i18n:none"}

func (c11) Info(t core.Tier) core.Info {
	return core.Info{
		Level: "exploration",
		Rule: fmt.Sprintf("(a) EXHAUSTIVE catalogue: %d cells (every built-in test of every schema type incl. Not() forms, required for every type, not_nil through each pointee type, coerce for every type, invalid_json (syntax error, null body, zhttp, behind Ptr), invalid_form) x %d language settings (shipped default; i18n installed with default 'es' and the execution asking for en / es / an unknown language / none - run as alternating sequences inside one process) x {Parse, Validate} x {top level, struct field}: "+
			"code, type, params (key and deep-equal value), value (equal to / pointing at the offending value), message non-empty, free of {{placeholders}} and equal to the language map's template with the parameters substituted. "+
			"(b) precedence: random schemas x the 2^3 presence matrix of {test-level Message/MessageFunc, WithIssueFormatter, replaced global formatter}, each stamping a distinct marker; expected marker = most specific present (test-level only for issues of that test). "+
			"every catalogue cell is non-trivial; a precedence case is non-trivial when >= 2 levels are present and >= 1 issue is produced; distinct by (cell, language, mode, placement) / (schema, input, levels).", len(c11Cells), len(c11Langs)),
		Assumptions: append([]string{"the shipped language maps (i18n/en, i18n/es) are the catalogue of templates; substitution is re-implemented by the harness"}, commonAssumptions...),
		MinDistinct: 300,
		Exhaustive:  true,
	}
}

func (c11) NumCases(t core.Tier) int { return len(c11Cells) + tierN(t, 12000, 400000) }

func expectedMessage(m zconst.LangMap, dtype, code string, params map[string]any, value any) (string, bool) {
	tpl, ok := m[dtype][code]
	if !ok {
		tpl, ok = m[dtype]["fallback"]
		if !ok {
			return "", false
		}
	}
	for k, v := range params {
		tpl = strings.ReplaceAll(tpl, "{{"+k+"}}", fmt.Sprintf("%v", v))
	}
	if strings.Contains(tpl, "{{value}}") {
		return "", false
	}
	return tpl, true
}

func derefAll(v any) any {
	rv := reflect.ValueOf(v)
	for rv.IsValid() && rv.Kind() == reflect.Ptr && !rv.IsNil() {
		rv = rv.Elem()
	}
	if !rv.IsValid() {
		return nil
	}
	return obs.NormValue(rv)
}

// c11OwnLangMap: a language map supplied by the application (documented use) may mention a parameter more than once and may put
// {{value}} next to a parameter: every occurrence is resolved.
func c11OwnLangMap(c *core.Ctx) bool {
	own := zconst.LangMap{}
	for t, codes := range en.Map {
		own[t] = map[zconst.ZogIssueCode]string{}
		for code, msg := range codes {
			own[t][code] = msg + " :: " + msg
		}
	}
	// texts of codes that have no parameters of their own may still mention the value
	own[zconst.TypeString][zconst.IssueCodeEmail] = "'{{value}}' is not an e-mail address ({{value}})"
	own[zconst.TypeNumber][zconst.IssueCodeCoerce] = "'{{value}}' is not a number"
	own[zconst.TypeString][zconst.IssueCodeRequired] = "required, got '{{value}}'"
	fmtr := z.WithIssueFormatter(conf.NewDefaultFormatter(own))
	var s string
	var n int
	var l []string
	type probe struct {
		name string
		run  func() z.ZogIssueList
		want string
	}
	tw := func(m string) string { return m + " :: " + m }
	probes := []probe{
		{"String.Min(5)", func() z.ZogIssueList { return z.String().Min(5).Parse("ab", &s, fmtr) }, tw("string must contain at least 5 character(s)")},
		{"Int.GT(3)", func() z.ZogIssueList { return z.Int().GT(3).Parse(1, &n, fmtr) }, tw("number must be greater than 3")},
		{"String.HasPrefix(ab)", func() z.ZogIssueList { return z.String().HasPrefix("ab").Parse("xy", &s, fmtr) }, tw("string must start with ab")},
		{"Int.OneOf", func() z.ZogIssueList { return z.Int().OneOf([]int{1, 2}).Parse(5, &n, fmtr) }, tw("number must be one of [1 2]")},
		{"String.Email", func() z.ZogIssueList { return z.String().Email().Parse("nope", &s, fmtr) }, "'nope' is not an e-mail address (nope)"},
		{"Int coerce", func() z.ZogIssueList { return z.Int().Parse("abc", &n, fmtr) }, "'abc' is not a number"},
		{"String.Required", func() z.ZogIssueList { return z.String().Required().Parse("  ", &s, fmtr) }, "required, got '  '"},
		{"Slice.Len(2)", func() z.ZogIssueList {
			m := z.Slice(z.String()).Len(2).Parse([]any{"a"}, &l, fmtr)
			return m["$root"]
		}, tw("slice must contain exactly 2 items")},
	}
	for _, p := range probes {
		is := p.run()
		c.Eval(1)
		if len(is) != 1 || is[0].Message != p.want || strings.Contains(is[0].Message, "{{") {
			got := fmt.Sprintf("%d issues", len(is))
			if len(is) == 1 {
				got = is[0].Message
			}
			c.Violation("issue-not-fully-described|own-language-map", map[string]any{"test": p.name, "language_map": "every shipped English text twice, joined by ' :: '", "message": got, "want": p.want})
			return false
		}
	}
	c.Count("own_language_map_probes", len(probes))
	return true
}

// c11Directed: (a) a MessageFunc / execution formatter that lets the default formatter write its text first and then sets its own:
// the message is the one it set last; (b) the parameters an issue carries describe what the test enforces: after the caller reused
// the slice it built a OneOf from, a value the issue lists among the options is not a value the test rejected.
func c11Directed(c *core.Ctx) bool {
	decorate := func(e *z.ZogIssue, ctx z.Ctx) {
		conf.DefaultIssueFormatter(e, ctx)
		e.SetMessage("[field] " + e.Message)
	}
	var s string
	l1 := z.String().Min(5, z.MessageFunc(decorate)).Parse("ab", &s)
	l2 := z.String().Min(5).Parse("ab", &s, z.WithIssueFormatter(decorate))
	c.Eval(2)
	for i, l := range []z.ZogIssueList{l1, l2} {
		if len(l) != 1 || !strings.HasPrefix(l[0].Message, "[field] string must") {
			c.Violation("message-source|formatter-that-decorates-the-default-text", map[string]any{"where": []string{"MessageFunc", "WithIssueFormatter"}[i], "formatter": "calls conf.DefaultIssueFormatter(e, ctx), then e.SetMessage(\"[field] \" + e.Message)", "messages": fmt.Sprint(z.Issues.SanitizeList(l))})
			return false
		}
	}
	for _, kind := range []string{"string", "int"} {
		var rejected, listed string
		if kind == "string" {
			opts := []string{"small", "large"}
			sch := z.String().OneOf(opts)
			opts[0], opts[1] = "tiny", "huge" // the caller's scratch slice goes on to its next use
			for _, v := range []string{"small", "large", "tiny", "huge", "other"} {
				if l := sch.Parse(v, &s); len(l) == 1 {
					rejected += v + " "
					listed = fmt.Sprint(l[0].Params["one_of_options"])
					if strings.Contains(" "+strings.Trim(listed, "[]")+" ", " "+v+" ") {
						c.Violation("params-do-not-describe-the-test|OneOf", map[string]any{"schema": "opts := []string{small, large}; sch := String().OneOf(opts); opts[0], opts[1] = tiny, huge", "rejected_value": v, "options_the_issue_lists": listed, "message": l[0].Message})
						return false
					}
				}
			}
		} else {
			opts := []int{1, 2}
			sch := z.Int().OneOf(opts)
			opts[0], opts[1] = 7, 8
			var n int
			for _, v := range []int{1, 2, 7, 8, 9} {
				if l := sch.Parse(v, &n); len(l) == 1 {
					listed = fmt.Sprint(l[0].Params["one_of_options"])
					if strings.Contains(" "+strings.Trim(listed, "[]")+" ", fmt.Sprintf(" %d ", v)) {
						c.Violation("params-do-not-describe-the-test|OneOf", map[string]any{"schema": "opts := []int{1, 2}; sch := Int().OneOf(opts); opts[0], opts[1] = 7, 8", "rejected_value": v, "options_the_issue_lists": listed, "message": l[0].Message})
						return false
					}
				}
			}
		}
		c.Eval(5)
		_ = rejected
	}
	if _, problem := dNamedTypeTests(); problem != "" {
		c.Violation("params-do-not-describe-the-test|schemas-over-named-types", map[string]any{"observed": problem})
		return false
	}
	// a one-option OneOf is still OneOf: its own code, parameter and text
	var n1 int
	l1o := z.Int().OneOf([]int{7}).Parse(3, &n1)
	var f1 float64
	l2o := z.Float64().OneOf([]float64{1.5}).Parse(2.5, &f1)
	c.Eval(2)
	if len(l1o) != 1 || l1o[0].Code != "one_of_options" || fmt.Sprint(l1o[0].Params["one_of_options"]) != "[7]" || l1o[0].Message != "number must be one of [7]" || len(l2o) != 1 || l2o[0].Code != "one_of_options" {
		c.Violation("issue-not-fully-described|OneOf-with-one-option", map[string]any{"schema": "Int().OneOf([7]) on 3 / Float64().OneOf([1.5]) on 2.5", "issues": fmt.Sprint(z.Issues.SanitizeList(l1o), z.Issues.SanitizeList(l2o)), "codes": fmt.Sprint(l1o[0].Code, " ", l2o[0].Code), "want": "code one_of_options, params {one_of_options: [7]}, text number must be one of [7]"})
		return false
	}
	// the test's own message outranks an application-wide formatter that words every issue it is handed
	savedF := conf.IssueFormatter
	conf.IssueFormatter = func(e *z.ZogIssue, ctx z.Ctx) { e.SetMessage("GLOBAL:" + e.Code) }
	var sg string
	lg := z.String().Min(5, z.Message("name is too short")).Required(z.Message("name is needed")).Parse("ab", &sg)
	lg2 := z.String().Min(5, z.Message("name is too short")).Required(z.Message("name is needed")).Parse("", &sg)
	lg3 := z.String().Max(1).Parse("ab", &sg)
	conf.IssueFormatter = savedF
	c.Eval(3)
	if len(lg) != 1 || lg[0].Message != "name is too short" || len(lg2) != 1 || lg2[0].Message != "name is needed" || len(lg3) != 1 || lg3[0].Message != "GLOBAL:max" {
		c.Violation("message-source|test-message-versus-global-formatter", map[string]any{"global_formatter": "sets GLOBAL:<code> on every issue it is handed", "messages": fmt.Sprint(z.Issues.SanitizeList(lg), z.Issues.SanitizeList(lg2), z.Issues.SanitizeList(lg3)), "want": "[name is too short] [name is needed] [GLOBAL:max]"})
		return false
	}
	c.Count("directed_message_scenarios", 1)
	return true
}

func (c11) RunCase(c *core.Ctx) {
	if c.Case == 3 && !c11OwnLangMap(c) {
		return
	}
	if c.Case == 4 && !c11Directed(c) {
		return
	}
	if c.Case >= len(c11Cells) {
		c11Precedence(c)
		return
	}
	cell := c11Cells[c.Case]
	saved := conf.IssueFormatter
	defer func() { conf.IssueFormatter = saved }()
	// alternate the language inside one process: the language must be the one named in THIS execution's context
	seq := []string{"default", "i18n:en", "i18n:none", "i18n:es", "i18n:unknown", "i18n:none", "i18n:en", "i18n:es", "default", "i18nU:EN", "i18nU:none", "i18nU:unknown", "i18nK:EN", "i18nK:none"}
	for _, lang := range seq {
		var langMap zconst.LangMap
		var opts []z.ExecOption
		switch lang {
		case "default":
			conf.IssueFormatter = saved
			langMap = en.Map
		case "i18nU:EN", "i18nU:none", "i18nU:unknown":
			// languages registered under keys of the caller's choosing (upper case, region suffix), one of them the default
			i18n.SetLanguagesErrsMap(map[string]zconst.LangMap{"EN": en.Map, "es-ES": es.Map}, "es-ES")
			switch lang {
			case "i18nU:EN":
				opts, langMap = []z.ExecOption{z.WithCtxValue("lang", "EN")}, en.Map
			case "i18nU:unknown":
				opts, langMap = []z.ExecOption{z.WithCtxValue("lang", "fr-FR")}, es.Map
			default:
				langMap = es.Map
			}
		case "i18nK:EN", "i18nK:none":
			// a language key of the caller's choosing; the standard key then means nothing
			i18n.SetLanguagesErrsMap(map[string]zconst.LangMap{"EN": en.Map, "ES": es.Map}, "ES", i18n.WithLangKey("locale"))
			if lang == "i18nK:EN" {
				opts, langMap = []z.ExecOption{z.WithCtxValue("locale", "EN"), z.WithCtxValue("lang", "ES")}, en.Map
			} else {
				opts, langMap = []z.ExecOption{z.WithCtxValue("lang", "EN")}, es.Map
			}
		default:
			i18n.SetLanguagesErrsMap(map[string]zconst.LangMap{"en": en.Map, "es": es.Map}, "es")
			switch lang {
			case "i18n:en":
				opts, langMap = []z.ExecOption{z.WithCtxValue("lang", "en")}, en.Map
			case "i18n:es":
				// the key given twice (a helper's defaults followed by the caller's own option): the later one counts
				opts, langMap = []z.ExecOption{z.WithCtxValue("lang", "en"), z.WithCtxValue("tenant", "t1"), z.WithCtxValue("lang", "es")}, es.Map
			case "i18n:unknown":
				opts, langMap = []z.ExecOption{z.WithCtxValue("lang", "fr")}, es.Map
			default:
				langMap = es.Map
			}
		}
		for _, place := range []string{"top", "field"} {
			for _, mode := range []ref.Mode{ref.Parse, ref.Validate} {
				leaf := cell.node()
				root := leaf
				var data, val any
				if cell.front != "" {
					if mode == ref.Validate || place == "field" {
						continue
					}
				} else if mode == ref.Parse {
					if cell.parse == nil {
						continue
					}
					data = cell.parse
					if _, miss := data.(missingKey); miss {
						data = nil
					}
				} else {
					if cell.val == nil {
						continue
					}
					val = cell.val
				}
				wantPath := ""
				if place == "field" {
					root = &spec.Node{Kind: spec.Struct, Fields: []spec.Field{{Key: "f", GoName: "F", Node: leaf}}}
					root.Number()
					wantPath = "f"
					if mode == ref.Parse {
						m := map[string]any{}
						if _, miss := cell.parse.(missingKey); !miss {
							m["f"] = cell.parse
						} else {
							m["other"] = 1
						}
						data = m
					} else {
						val = map[string]any{"F": cell.val}
					}
				}
				b := spec.Build(root, nil)
				var o *run.Outcome
				switch cell.front {
				case "invalid_json":
					o = run.Parse(b, zjson.Decode(strings.NewReader(`{"a": `)), nil, opts...)
				case "invalid_json_null":
					o = run.Parse(b, zjson.Decode(strings.NewReader(`null`)), nil, opts...)
				case "zhttp_invalid_json":
					r, _ := http.NewRequest("POST", "/x", strings.NewReader(`[1,2]`))
					r.Header.Set("Content-Type", "application/json")
					o = run.Parse(b, zhttp.Request(r), nil, opts...)
				case "invalid_form":
					r, _ := http.NewRequest("POST", "/x", strings.NewReader(`a=%zz`))
					r.Header.Set("Content-Type", "application/x-www-form-urlencoded")
					o = run.Parse(b, zhttp.Request(r), nil, opts...)
				default:
					if mode == ref.Parse {
						o = run.Parse(b, data, nil, opts...)
					} else {
						o = run.Validate(b, val, opts...)
					}
				}
				c.Eval(1)
				det := func(extra map[string]any) map[string]any {
					extra["cell"] = cell.name
					extra["language_setting"] = lang
					extra["placement"] = place
					extra["issues"] = issuesText(o)
					var in any = data
					if mode == ref.Validate {
						in = val
					}
					return describeCase(root, mode, in, extra)
				}
				if o.Panicked {
					c.Violation("panic", det(map[string]any{"panic": fmt.Sprint(o.Panic), "stack": trunc(o.Stack, 2000)}))
					return
				}
				if len(o.Issues) != 1 {
					c.Violation("catalogue-cell-issue-count|"+cell.code, det(map[string]any{"expected": "exactly one issue with code " + cell.code}))
					return
				}
				is := o.Issues[0]
				var bad []string
				if is.Code != cell.code {
					bad = append(bad, fmt.Sprintf("code %q, want %q", is.Code, cell.code))
				}
				if is.Dtype != cell.dtype {
					bad = append(bad, fmt.Sprintf("type %q, want %q", is.Dtype, cell.dtype))
				}
				if is.Path != wantPath {
					bad = append(bad, fmt.Sprintf("path %q, want %q", is.Path, wantPath))
				}
				if cell.params == nil {
					if len(is.ParamsV) != 0 {
						bad = append(bad, fmt.Sprintf("params %s, want none", is.Params))
					}
				} else {
					if len(is.ParamsV) != len(cell.params) {
						bad = append(bad, fmt.Sprintf("params %s, want %s", is.Params, obs.Render(obs.Norm(cell.params))))
					}
					for k, v := range cell.params {
						g, ok := is.ParamsV[k]
						if !ok || obs.Render(obs.Norm(g)) != obs.Render(obs.Norm(v)) || reflect.TypeOf(g) != reflect.TypeOf(v) {
							bad = append(bad, fmt.Sprintf("param %q = %s, want %s", k, obs.Render(obs.Norm(g)), obs.Render(obs.Norm(v))))
						}
					}
				}
				if cell.value != nil {
					if got := derefAll(is.ValueV); !obs.Equal(got, cell.value) {
						bad = append(bad, fmt.Sprintf("value %s does not reference the offending value %s", obs.Render(got), obs.Render(cell.value)))
					}
				}
				if strings.TrimSpace(is.Message) == "" {
					bad = append(bad, "empty message")
				}
				if strings.Contains(is.Message, "{{") || strings.Contains(is.Message, "}}") {
					bad = append(bad, fmt.Sprintf("unresolved placeholder in message %q", is.Message))
				}
				if want, ok := expectedMessage(langMap, cell.dtype, cell.code, cell.params, nil); ok && is.Message != want {
					bad = append(bad, fmt.Sprintf("message %q, want %q (language setting %s)", is.Message, want, lang))
				}
				if len(bad) > 0 {
					c.Violation("issue-not-fully-described|"+cell.code+"|"+cell.dtype, det(map[string]any{"problems": bad}))
					return
				}
				c.NonTrivial(fpf("%s|%s|%s|%s", cell.name, lang, mode, place))
			}
		}
	}
	c.Count("catalogue_cells", 1)
	c.Distinct("codes", cell.code)
	c.Distinct("types", cell.dtype)
	if c.WantSample() && c.Case%23 == 0 {
		msg, _ := expectedMessage(en.Map, cell.dtype, cell.code, cell.params, nil)
		c.Sample(map[string]any{"cell": cell.name, "code": cell.code, "type": cell.dtype, "params": obs.Render(obs.Norm(cell.params)), "en_message": msg})
	}
}

// c11Precedence: most specific message wins.
func c11Precedence(c *core.Ctx) {
	o := gen.DefaultOpts()
	o.TestOptsPct = 45
	o.NoIssuePath = true
	o.Customs = false
	o.CatchPct = 10
	n := gen.Schema(c.R, o)
	// open corner (DESIGN §3.3): z.Params replaces the parameters of a built-in test, so its template can no longer be resolved; not generated here
	n.Walk(func(x *spec.Node) {
		for i := range x.Tests {
			x.Tests[i].Opts.Params = nil
		}
		for i := range x.Mods {
			x.Mods[i].Opts.Params = nil
		}
	})
	src := n.Source()
	saved := conf.IssueFormatter
	defer func() { conf.IssueFormatter = saved }()
	for k := 0; k < 4; k++ {
		data := gen.ParseInput(c.R, n, gen.InOpts{ValidPct: 35, AbsentPct: 25, WrongPct: 25, AltRep: true})
		val := gen.ValueTree(c.R, n, gen.InOpts{ValidPct: 35, AbsentPct: 35}, false)
		for levels := 0; levels < 8; levels++ {
			execLevel := levels&1 != 0
			globalLevel := levels&2 != 0
			// delegating: the execution formatter words some issues itself and hands the others to the global formatter
			// (the fallback pattern of the configuration docs); with i18n installed as the global formatter
			delegating := levels&4 != 0
			if delegating && !execLevel {
				continue
			}
			conf.IssueFormatter = saved
			if delegating && !globalLevel {
				i18n.SetLanguagesErrsMap(map[string]zconst.LangMap{"en": en.Map, "es": es.Map}, "es")
			}
			if globalLevel {
				conf.IssueFormatter = func(e *z.ZogIssue, ctx z.Ctx) { e.SetMessage("GLOBAL:" + e.Code) }
			}
			delegated := func(code string) bool {
				return delegating && (code == "required" || code == "coerce" || code == "not_nil")
			}
			var opts []z.ExecOption
			if execLevel {
				opts = append(opts, z.WithIssueFormatter(func(e *z.ZogIssue, ctx z.Ctx) {
					if delegated(e.Code) {
						conf.IssueFormatter(e, ctx)
						return
					}
					e.SetMessage("EXEC:" + e.Code)
				}))
			}
			for _, mode := range []ref.Mode{ref.Parse, ref.Validate} {
				var exp *ref.Result
				var out *run.Outcome
				var input any
				b := spec.Build(n, &spec.Hooks{FieldOrder: permutedOrder(c.R)})
				if mode == ref.Parse {
					exp = ref.Eval(n, &ref.Env{Mode: mode}, data, nil)
					out = run.Parse(b, data, nil, opts...)
					input = data
				} else {
					exp = ref.Eval(n, &ref.Env{Mode: mode}, nil, val)
					out = run.Validate(b, val, opts...)
					input = val
				}
				c.Eval(1)
				if exp.Unknown != "" {
					continue
				}
				if out.Panicked {
					c.Violation("panic", describeCase(n, mode, input, map[string]any{"panic": fmt.Sprint(out.Panic)}))
					return
				}
				var want, got []string
				testLevelSeen := false
				for _, x := range exp.Issues {
					msg := "<default>"
					switch {
					case x.Opts.Message != nil:
						msg, testLevelSeen = *x.Opts.Message, true
					case x.Opts.MsgFunc != nil:
						msg, testLevelSeen = *x.Opts.MsgFunc, true
					case execLevel && !delegated(x.Code):
						msg = "EXEC:" + x.Code
					case globalLevel:
						msg = "GLOBAL:" + x.Code
					}
					want = append(want, x.Triple()+"|"+msg)
				}
				for _, ci := range out.Issues {
					msg := ci.Message
					if !strings.HasPrefix(msg, "EXEC:") && !strings.HasPrefix(msg, "GLOBAL:") && !strings.HasPrefix(msg, "msg-") && !strings.HasPrefix(msg, "fmsg-") {
						if strings.TrimSpace(msg) == "" || strings.Contains(msg, "{{") {
							msg = "<bad default message: " + msg + ">"
						} else {
							msg = "<default>"
						}
					}
					got = append(got, ci.Triple()+"|"+msg)
				}
				sort.Strings(want)
				sort.Strings(got)
				if a, bb := obs.MultisetDiff(want, got); len(a) > 0 || len(bb) > 0 {
					c.Violation("message-precedence", describeCase(n, mode, input, map[string]any{"execution_formatter": execLevel, "global_formatter_replaced": globalLevel, "expected(path|code|type|message source)": want, "observed": got, "issues": issuesText(out)}))
					return
				}
				nl := 0
				for _, p := range []bool{execLevel, globalLevel, testLevelSeen} {
					if p {
						nl++
					}
				}
				if nl >= 2 && len(exp.Issues) > 0 {
					c.NonTrivial(fpf("%s|%s|%s|%d", src, mode, obs.Render(obs.Norm(input)), levels))
				}
			}
		}
	}
	conf.IssueFormatter = saved
	c.Count("precedence_cases", 1)
}
