package props

import (
	"bytes"
	"errors"
	"fmt"
	"io"
	"net/http"
	"os"
	"reflect"
	"strings"
	"unicode"

	"github.com/Oudwins/zog/parsers/zjson"
	"github.com/Oudwins/zog/zenv"
	"github.com/Oudwins/zog/zhttp"

	"zogverif/internal/core"
	"zogverif/internal/gen"
	"zogverif/internal/obs"
	"zogverif/internal/ref"
	"zogverif/internal/rng"
	"zogverif/internal/run"
	"zogverif/internal/spec"
)

// C06: no input data can make Parse panic (for matching schema and destination).
type c06 struct{}

func init() { core.Register(c06{}) }

func (c06) ID() string { return "C06" }

var c06Hostile = gen.HostileValues()

func str() *spec.Node { return &spec.Node{Kind: spec.String} }
func prim(k spec.Kind) *spec.Node {
	n := &spec.Node{Kind: k}
	if k == spec.String {
		n.Tests = []spec.Test{{Op: spec.TMin, N: 1}}
	}
	return n
}
func structOf(fields ...any) *spec.Node {
	n := &spec.Node{Kind: spec.Struct}
	for i := 0; i+1 < len(fields); i += 2 {
		k := fields[i].(string)
		n.Fields = append(n.Fields, spec.Field{Key: k, GoName: spec.UpperFirst(k), Node: fields[i+1].(*spec.Node)})
	}
	return n
}
func sliceOf(e *spec.Node) *spec.Node { return &spec.Node{Kind: spec.Slice, Elem: e} }
func ptrOf(e *spec.Node) *spec.Node   { return &spec.Node{Kind: spec.Ptr, Elem: e} }
func customOf(i int) *spec.Node {
	ct := spec.CustomTypes[i]
	return &spec.Node{Kind: spec.Custom, CustomT: &ct, Tests: []spec.Test{{Op: spec.TCustom, PredName: "true", Pred: func(any) bool { return true }}}}
}
func req(n *spec.Node) *spec.Node {
	if n.Kind == spec.Ptr {
		n.Mods = append(n.Mods, spec.Mod{Op: spec.MNotNil})
	} else if n.Kind != spec.Struct && n.Kind != spec.Custom {
		n.Mods = append(n.Mods, spec.Mod{Op: spec.MRequired})
	}
	return n
}

var c06Schemas = []func() *spec.Node{
	func() *spec.Node { return prim(spec.String) }, func() *spec.Node { return prim(spec.Int) }, func() *spec.Node { return prim(spec.Int32) }, func() *spec.Node { return prim(spec.Int64) },
	func() *spec.Node { return prim(spec.Float32) }, func() *spec.Node { return prim(spec.Float64) }, func() *spec.Node { return prim(spec.Bool) }, func() *spec.Node { return prim(spec.Time) },
	func() *spec.Node { return req(sliceOf(str())) }, func() *spec.Node { return sliceOf(prim(spec.Int)) },
	func() *spec.Node { return sliceOf(structOf("a", req(str()), "f", prim(spec.Int))) },
	func() *spec.Node { return structOf("a", req(str()), "f", prim(spec.Int)) },
	func() *spec.Node {
		return structOf("a", structOf("a", req(str()), "b", ptrOf(str())), "f", sliceOf(str()), "I", structOf("b", prim(spec.Int)))
	},
	func() *spec.Node { return req(ptrOf(str())) }, func() *spec.Node { return ptrOf(structOf("a", req(str()), "f", prim(spec.Float64))) },
	func() *spec.Node { return ptrOf(sliceOf(prim(spec.Int))) }, func() *spec.Node { return ptrOf(ptrOf(prim(spec.Bool))) },
	func() *spec.Node { return customOf(0) }, func() *spec.Node { return customOf(2) }, func() *spec.Node { return customOf(3) },
	func() *spec.Node {
		inner := prim(spec.String)
		return &spec.Node{Kind: spec.Pre, Elem: inner, PreName: "sprint", PreFn: func(d any) (any, error) { return fmt.Sprint(d), nil }}
	},
	func() *spec.Node { return sliceOf(sliceOf(str())) }, func() *spec.Node { return sliceOf(ptrOf(structOf("a", str()))) },
}

// ---- wire inputs ----

const c06ValidJSON = `{"name":"Ann","age":31,"tags":["a","b"],"addr":{"street":"Main","zip":12345,"geo":{"lat":1.5,"lon":-2}},"items":[{"sku":"x","qty":1},{"sku":"y","qty":2}],"opt":{"v":"p"},"when":"2024-03-10T12:00:00Z","ok":true,"ratio":0.25}`

func c06WireSchema() *spec.Node {
	n := structOf(
		"name", req(str()), "age", req(prim(spec.Int)), "tags", req(sliceOf(str())),
		"addr", structOf("street", req(str()), "zip", prim(spec.Int), "geo", structOf("lat", prim(spec.Float64), "lon", prim(spec.Float64))),
		"items", sliceOf(structOf("sku", req(str()), "qty", prim(spec.Int))),
		"opt", ptrOf(structOf("v", str())), "when", prim(spec.Time), "ok", prim(spec.Bool), "ratio", prim(spec.Float32))
	n.Fields[0].Tags = map[string]string{"json": "name", "form": "name", "query": "name", "env": "C06_NAME"}
	n.Fields[2].Tags = map[string]string{"form": "tags[]", "query": "tags[]"}
	n.Number()
	return n
}

func c06JSONDocs() []string {
	docs := []string{}
	for i := 0; i <= len(c06ValidJSON); i++ {
		docs = append(docs, c06ValidJSON[:i])
	}
	deep := strings.Repeat(`{"addr":`, 12000) + `1` + strings.Repeat(`}`, 12000)
	deepArr := `{"tags":` + strings.Repeat(`[`, 12000) + strings.Repeat(`]`, 12000) + `}`
	docs = append(docs, `{}`, `null`, `[]`, `[1,2]`, `"str"`, `123`, `true`, `1e999`, `{"age":1e999}`, `{"age":1e400}`, `{"age":-0}`, `{"age":9223372036854775808}`, `{"age":1.5e308}`, `{"ratio":1e39}`,
		`{"name":"a","name":"b"}`, `{"name":null,"age":null,"tags":null,"addr":null,"items":null,"opt":null}`, `{"name":{},"age":[],"tags":{},"addr":[],"items":{},"opt":[]}`,
		`{"name":"a","age":"1","tags":"a","addr":"x","items":"y","opt":"z","when":1,"ok":"on","ratio":"1"}`, `{"tags":[1,true,null,{},[]]}`, `{"items":[1,"a",null,[],{"sku":1}]}`,
		"\xef\xbb\xbf{}", "{\"name\":\"\x00\"}", "{\"name\":\"\xff\xfe\"}", `{"name":"\ud800"}`, `{"name":"\u0000"}`, `{} {}`, `{}garbage`, `{"a":1}]`, ` `, "\n", `{"":1}`, `{"addr":{"geo":{"lat":{}}}}`,
		`{"opt":{}}`, `{"opt":{"v":{}}}`, `{"addr":{}}`, `{"items":[]}`, `{"items":[{}]}`, `{"tags":[]}`, deep, deepArr, `{"name":"`+strings.Repeat("x", 1<<20)+`"}`, `{"tags":[`+strings.Repeat(`"t",`, 50000)+`"t"]}`)
	return docs
}

type faultyReader struct {
	data  []byte
	pos   int
	fail  int // fail after this many bytes (-1: never)
	chunk int
}

func (f *faultyReader) Read(p []byte) (int, error) {
	if f.fail >= 0 && f.pos >= f.fail {
		return 0, errors.New("injected read failure")
	}
	if f.pos >= len(f.data) {
		return 0, io.EOF
	}
	n := f.chunk
	if n > len(p) {
		n = len(p)
	}
	if f.pos+n > len(f.data) {
		n = len(f.data) - f.pos
	}
	if f.fail >= 0 && f.pos+n > f.fail {
		n = f.fail - f.pos
	}
	copy(p, f.data[f.pos:f.pos+n])
	f.pos += n
	return n, nil
}

var c06Forms = []string{"name=Ann&age=31&tags[]=a&tags[]=b&ok=on", "", "name", "=", "&", "&&&=&=", "name=%zz", "name=%", "name=%a", "age=%31", "name=a;age=1", "name=a&name=b&name=c", "tags[]=", "tags[]", "tags[]=a", "tags=a&tags=b",
	"name=%00", "name=%ff%fe", "name=" + strings.Repeat("x", 100000), strings.Repeat("k=v&", 3000), "addr=x&street=Main&zip=1", "items=1&sku=x", "opt=1&v=2", "[]=1", "name[]=a&name[]=b", "a[b]=1", "+=+", "name=+%20+", "age=1e9999", "when=now", "ratio=NaN", "ratio=Inf", "age=0x10", "ok=maybe"}

func (c06) Info(t core.Tier) core.Info {
	return core.Info{
		Level: "exploration",
		Rule: fmt.Sprintf("every call is wrapped in recover(); a worker death is attributed to its case through the BEGIN log and re-run alone. workload: (a) %d hostile Go values (named and unnamed maps incl. non-string / named keys and many element types, structs with unexported / embedded / pointer fields, typed nils of every kind, pointer chains to depth 5, NaN/Inf/-0, extreme integers, invalid UTF-8, 1 MB strings, arrays, channels, funcs) x %d schema kinds x 4 placements (top level, struct field, slice element, behind pointer); "+
			"(b) random schemas with a hostile value injected at a random position; (c) %d JSON documents (every prefix of a valid document, wrong top-level types, {}, null, duplicate keys, 1e999, depth 12000, BOM, NUL, invalid UTF-8, trailing data, 1 MB strings) through zjson and zhttp (Struct and Ptr(Struct) schemas, faulty readers failing after k bytes and 1-byte reads); (d) %d URL-encoded bodies / query strings through zhttp for 5 methods; environment variables through zenv; "+
			"(e) random byte-level mutations (flip, delete, insert, duplicate, truncate) of a valid JSON document and of a valid form through zjson / zhttp; (f) valid but unusual configuration: schema keys of 1..2048 bytes, 200-field structs, depth-8 nesting, Unicode field names; (g) %d schemas built directly on the API that the generator cannot express (custom schemas over arrays, interfaces, maps, funcs, channels, structs with interface fields; slice Contains / OneOf with slices, maps, NaN, nil and structs holding uncomparable values) x own inputs + every hostile value x 4 placements. oracle: Parse returns (issues or not). non-trivial: input whose dynamic type/shape is outside {map[string]any, []any, string, int, float64, bool, time.Time} or malformed wire input; distinct by (input, schema, placement).",
			len(c06Hostile), len(c06Schemas), len(c06JSONDocs()), len(c06Forms), len(c06Directs)),
		Assumptions: commonAssumptions,
		MinDistinct: 1000,
	}
}

func c06Counts(t core.Tier) (a, b, cc, d, e int) {
	a = len(c06Hostile) * len(c06Schemas)
	b = tierN(t, 4000, 400000)
	cc = len(c06JSONDocs())
	d = len(c06Forms)
	e = 40
	return
}

func c06Mutated(t core.Tier) int { return tierN(t, 1500, 200000) }

func (c06) NumCases(t core.Tier) int {
	a, b, cc, d, e := c06Counts(t)
	return a + b + cc + d + e + len(c06Directs) + c06Mutated(t)
}

// mutateBytes applies a few random byte-level edits (flip, delete, insert, duplicate, truncate).
const c06InsChars = "{}[]\",:\\&=%;+"
const c06SetChars = "{}[]\",:0-9e.ntf\\u\x00\xff"

func mutateBytes(r *rng.Rand, s string) string {
	b := []byte(s)
	for k := r.Range(1, 4); k > 0; k-- {
		if len(b) == 0 {
			b = append(b, byte(r.Intn(256)))
			continue
		}
		i := r.Intn(len(b))
		switch r.Intn(6) {
		case 0:
			b[i] ^= byte(1 << uint(r.Intn(8)))
		case 1:
			j := i + r.Intn(len(b)-i+1)
			b = append(b[:i:i], b[j:]...)
		case 2:
			ins := []byte{byte(r.Intn(256)), c06InsChars[r.Intn(len(c06InsChars))]}
			b = append(b[:i:i], append(ins, b[i:]...)...)
		case 3:
			j := i + r.Intn(len(b)-i+1)
			b = append(b[:j:j], append(append([]byte{}, b[i:j]...), b[j:]...)...)
		case 4:
			b = b[:i]
		case 5:
			b[i] = c06SetChars[r.Intn(len(c06SetChars))]
		}
	}
	return string(b)
}

func c06MutatedCase(c *core.Ctx) {
	n := c06WireSchema()
	b := spec.Build(n, nil)
	for k := 0; k < 8; k++ {
		doc := mutateBytes(c.R, c06ValidJSON)
		d := map[string]any{"schema": "wire schema (see c06.go)", "json_document": trunc(doc, 400)}
		c06Guard(c, "zjson.Decode (mutated document)", d, func() { run.Parse(b, zjson.Decode(strings.NewReader(doc)), nil).MustNotPanic() })
		r, _ := http.NewRequest("POST", "/x", strings.NewReader(doc))
		r.Header.Set("Content-Type", "application/json")
		c06Guard(c, "zhttp POST json (mutated document)", d, func() { run.Parse(b, zhttp.Request(r), nil).MustNotPanic() })
		form := mutateBytes(c.R, c06Forms[0])
		d2 := map[string]any{"schema": "wire schema (see c06.go)", "form_or_query": trunc(form, 400)}
		r2, _ := http.NewRequest("POST", "/x", strings.NewReader(form))
		r2.Header.Set("Content-Type", "application/x-www-form-urlencoded")
		c06Guard(c, "zhttp POST form (mutated)", d2, func() { run.Parse(b, zhttp.Request(r2), nil).MustNotPanic() })
		if r3, err := http.NewRequest("GET", "/x", nil); err == nil {
			r3.URL.RawQuery = form
			c06Guard(c, "zhttp GET query (mutated)", d2, func() { run.Parse(b, zhttp.Request(r3), nil).MustNotPanic() })
		}
		c.NonTrivial("mut|" + doc + "|" + form)
	}
	c.Count("mutated_wire_documents", 16)
}

func ordinary(v any) bool {
	switch v.(type) {
	case map[string]any, []any, string, int, float64, bool:
		return true
	}
	return false
}

func c06Call(c *core.Ctx, root *spec.Node, data any, what string, nontrivial bool) {
	root.Number()
	b := spec.Build(root, nil)
	if what == "injected" && c.R.Intn(3) == 0 {
		warmAlt(c.R, b) // the same schema object with two valid destination types
	}
	o := run.Parse(b, data, nil)
	c.Eval(1)
	if o.Panicked {
		c.Violation("parse-panicked|"+panicKind(o.Panic), map[string]any{"schema": root.Source(), "input": trunc(obs.Render(obs.Norm(data)), 600), "input_type": fmt.Sprintf("%T", data), "where": what, "panic": trunc(fmt.Sprint(o.Panic), 400), "stack": trunc(o.Stack, 3000)})
		return
	}
	if nontrivial {
		c.NonTrivial(fpf("%s|%s|%s", what, root.Source(), trunc(obs.Render(obs.Norm(data)), 200)))
	}
}

func panicKind(p any) string {
	s := fmt.Sprint(p)
	for _, k := range []string{"interface conversion", "nil pointer", "index out of range", "slice bounds", "reflect", "assignment to entry in nil map", "Struct is missing expected schema key"} {
		if strings.Contains(s, k) {
			return k
		}
	}
	if len(s) > 40 {
		s = s[:40]
	}
	return s
}

func (c06) RunCase(c *core.Ctx) {
	if c.Case%97 == 23 && !w10(c, "C06") {
		return
	}
	a, b, cc, d, _ := c06Counts(c.Tier)
	i := c.Case
	switch {
	case i < a:
		h := c06Hostile[i/len(c06Schemas)]
		mk := c06Schemas[i%len(c06Schemas)]
		c.Distinct("hostile_dynamic_types", fmt.Sprintf("%T", h))
		c06Call(c, mk(), h, "top-level", true)
		c06Call(c, structOf("a", mk(), "f", str()), map[string]any{"a": h, "f": "x"}, "struct-field", true)
		c06Call(c, sliceOf(mk()), []any{h, "x", h}, "slice-element", true)
		c06Call(c, ptrOf(mk()), h, "behind-pointer", true)
		if c.WantSample() && i%997 == 0 {
			c.Sample(map[string]any{"hostile_value_type": fmt.Sprintf("%T", h), "hostile_value": trunc(obs.Render(obs.Norm(h)), 200), "schema": mk().Source(), "placements": 4})
		}
	case i < a+b:
		o := gen.DefaultOpts()
		o.Pre = true
		o.MaxDepth = 4
		o.Coercers = c.R.Intn(4) == 0
		switch c.R.Intn(8) {
		case 0:
			o.TopKinds = []spec.Kind{spec.Slice}
		case 1:
			o.TopKinds = []spec.Kind{spec.Ptr}
		}
		n := gen.Schema(c.R, o)
		for k := 0; k < 4; k++ {
			data := gen.ParseInput(c.R, n, gen.InOpts{ValidPct: 60, AbsentPct: 15, WrongPct: 15, AltRep: true, Decoys: true})
			h := c06Hostile[c.R.Intn(len(c06Hostile))]
			c06Call(c, n, gen.InjectHostile(c.R, data, h), "injected", true)
		}
	case i < a+b+cc:
		c06JSON(c, c06JSONDocs()[i-a-b])
	case i < a+b+cc+d:
		c06Form(c, c06Forms[i-a-b-cc])
	case i < a+b+cc+d+40:
		c06Config(c, i-a-b-cc-d)
	case i < a+b+cc+d+40+len(c06Directs):
		c06DirectCase(c, c06Directs[i-a-b-cc-d-40])
	default:
		c06MutatedCase(c)
	}
}

func c06Guard(c *core.Ctx, what string, detail map[string]any, f func()) {
	defer func() {
		if r := recover(); r != nil {
			detail["where"] = what
			detail["panic"] = trunc(fmt.Sprint(r), 400)
			c.Violation("parse-panicked|"+panicKind(r), detail)
		}
	}()
	f()
	c.Eval(1)
}

func c06JSON(c *core.Ctx, doc string) {
	n := c06WireSchema()
	d := map[string]any{"schema": n.Source(), "json_document": trunc(doc, 300), "document_bytes": len(doc)}
	b := spec.Build(n, nil)
	pn := ptrOf(c06WireSchema())
	pn.Number()
	pb := spec.Build(pn, nil)
	cp := func() map[string]any {
		m := map[string]any{}
		for k, v := range d {
			m[k] = v
		}
		return m
	}
	c06Guard(c, "zjson.Decode -> Struct", cp(), func() { run.Parse(b, zjson.Decode(strings.NewReader(doc)), nil).MustNotPanic() })
	c06Guard(c, "zjson.Decode -> Ptr(Struct)", cp(), func() { run.Parse(pb, zjson.Decode(strings.NewReader(doc)), nil).MustNotPanic() })
	for _, m := range []string{"POST", "PUT", "PATCH", "DELETE"} {
		for _, ct := range []string{"application/json", "application/json; charset=utf-8"} {
			r, _ := http.NewRequest(m, "/x?name=q&tags[]=1", strings.NewReader(doc))
			r.Header.Set("Content-Type", ct)
			c06Guard(c, "zhttp "+m+" "+ct, cp(), func() { run.Parse(b, zhttp.Request(r), nil).MustNotPanic() })
		}
	}
	if doc == "" {
		// a request that has no body at all (http.NewRequest(method, url, nil) leaves Body nil; servers see http.NoBody), every content type
		for _, m := range []string{"POST", "PUT", "PATCH", "DELETE", "GET"} {
			for _, ct := range []string{"application/json", "application/x-www-form-urlencoded", "multipart/form-data; boundary=x", "text/plain", ""} {
				for _, body := range []io.Reader{nil, http.NoBody} {
					r, _ := http.NewRequest(m, "/x?name=q", body)
					if ct != "" {
						r.Header.Set("Content-Type", ct)
					}
					dd := cp()
					dd["request_body"] = fmt.Sprintf("%T", body)
					c06Guard(c, "zhttp "+m+" "+ct+" without a body", dd, func() { run.Parse(b, zhttp.Request(r), nil).MustNotPanic() })
					r2, _ := http.NewRequest(m, "/x", body)
					if ct != "" {
						r2.Header.Set("Content-Type", ct)
					}
					c06Guard(c, "zhttp "+m+" "+ct+" without a body -> Ptr(Struct)", dd, func() { run.Parse(pb, zhttp.Request(r2), nil).MustNotPanic() })
				}
			}
		}
		c06Guard(c, "zjson.Decode(nil reader)", cp(), func() { run.Parse(b, zjson.Decode(nil), nil).MustNotPanic() })
	}
	// faulty readers
	for _, fr := range []*faultyReader{{data: []byte(doc), fail: -1, chunk: 1}, {data: []byte(doc), fail: len(doc) / 2, chunk: 7}, {data: []byte(doc), fail: 0, chunk: 1}, {data: []byte(doc), fail: len(doc) - 1, chunk: 4096}} {
		fr := fr
		c06Guard(c, fmt.Sprintf("zjson faulty reader fail=%d chunk=%d", fr.fail, fr.chunk), cp(), func() { run.Parse(b, zjson.Decode(fr), nil).MustNotPanic() })
	}
	c.NonTrivial("json|" + trunc(doc, 300) + fmt.Sprint(len(doc)))
	c.Distinct("front_ends", "zjson")
	c.Distinct("front_ends", "zhttp-json")
}

func c06Form(c *core.Ctx, form string) {
	n := c06WireSchema()
	b := spec.Build(n, nil)
	d := func() map[string]any { return map[string]any{"schema": n.Source(), "form_or_query": trunc(form, 300)} }
	for _, m := range []string{"GET", "HEAD", "POST", "PUT", "DELETE"} {
		// as body
		r, _ := http.NewRequest(m, "/x?name=fromquery", bytes.NewReader([]byte(form)))
		r.Header.Set("Content-Type", "application/x-www-form-urlencoded")
		c06Guard(c, "zhttp form body "+m, d(), func() { run.Parse(b, zhttp.Request(r), nil).MustNotPanic() })
		// as query
		r2, err := http.NewRequest(m, "/x", nil)
		if err == nil {
			r2.URL.RawQuery = form
			c06Guard(c, "zhttp query "+m, d(), func() { run.Parse(b, zhttp.Request(r2), nil).MustNotPanic() })
		}
		// no body at all
		r3, _ := http.NewRequest(m, "/x?"+"name=a", nil)
		r3.Header.Set("Content-Type", "application/json")
		r3.Body = nil
		if m != "GET" && m != "HEAD" {
			r3.Body = http.NoBody
		}
		c06Guard(c, "zhttp json without body "+m, d(), func() { run.Parse(b, zhttp.Request(r3), nil).MustNotPanic() })
	}
	// env: hostile strings as environment values
	if !strings.ContainsRune(form, 0) {
		os.Setenv("C06_NAME", form)
		os.Setenv("age", form)
		os.Setenv("tags", form)
		os.Setenv("when", form)
		c06Guard(c, "zenv", d(), func() { run.Parse(b, zenv.NewDataProvider(), nil).MustNotPanic() })
		os.Unsetenv("C06_NAME")
		os.Unsetenv("age")
		os.Unsetenv("tags")
		os.Unsetenv("when")
	}
	c.NonTrivial("form|" + trunc(form, 300))
	c.Distinct("front_ends", "zhttp-form")
	c.Distinct("front_ends", "zhttp-query")
	c.Distinct("front_ends", "zenv")
}

// c06Config: valid but unusual configuration never panics.
func c06Config(c *core.Ctx, k int) {
	r := c.R
	switch {
	case k < 20:
		// long schema keys (destination fields generated to match)
		lens := []int{1, 2, 31, 32, 33, 34, 39, 40, 63, 64, 65, 100, 127, 128, 129, 255, 256, 257, 1024, 2048}
		l := lens[k]
		key := "k" + strings.Repeat("a", l-1)
		if l == 1 {
			key = "k"
		}
		n := structOf(key, req(str()), "f", prim(spec.Int))
		c06Call(c, n, map[string]any{key: "v", "f": 1}, fmt.Sprintf("schema key of %d bytes", l), true)
		c06Call(c, structOf(key, req(str()), "f", prim(spec.Int)), map[string]any{}, fmt.Sprintf("schema key of %d bytes, missing", l), true)
		// Validate with the same key
		n2 := structOf(key, req(str()))
		n2.Number()
		o := run.Validate(spec.Build(n2, nil), map[string]any{spec.UpperFirst(key): ""})
		c.Eval(1)
		if o.Panicked {
			c.Violation("validate-panicked|"+panicKind(o.Panic), map[string]any{"schema": n2.Source(), "panic": fmt.Sprint(o.Panic), "where": "long key in Validate"})
		}
	case k < 25:
		// wide structs
		var fields []any
		data := map[string]any{}
		for i := 0; i < 200; i++ {
			key := fmt.Sprintf("field%d", i)
			fields = append(fields, key, req(str()))
			if i%3 != 0 {
				data[key] = fmt.Sprint(i)
			}
		}
		c06Call(c, structOf(fields...), data, "200-field struct", true)
	case k < 30:
		// deep nesting
		n := req(str())
		var data any = "leaf"
		for d := 0; d < 8; d++ {
			switch r.Intn(3) {
			case 0:
				n = structOf("n", n, "f", prim(spec.Int))
				data = map[string]any{"n": data}
			case 1:
				n = sliceOf(n)
				data = []any{data, data}
			case 2:
				n = ptrOf(n)
			}
		}
		c06Call(c, n, data, "depth-8 nesting", true)
		c06Call(c, n, gen.InjectHostile(r, data, c06Hostile[r.Intn(len(c06Hostile))]), "depth-8 nesting + hostile", true)
		// issue paths of 12..30 segments (the leaf is missing at the bottom of a struct / slice chain), each followed by ordinary
		// calls on the objects that execution hands back to the library's pools
		deep := req(str())
		var deepData any = ""
		for d := 0; d < 12+k%5*4; d++ {
			if d%2 == 0 {
				deep = structOf("n", deep, "f", prim(spec.Int))
				deepData = map[string]any{"n": deepData}
			} else {
				deep = sliceOf(deep)
				deepData = []any{deepData}
			}
		}
		c06Call(c, deep, deepData, "issue path of many segments", true)
		if k == 25 {
			// a list of more than a million items (seven-digit positions), as a Go slice and as a JSON document
			million := make([]any, 1000003)
			for i := range million {
				million[i] = 1
			}
			million[1000001] = "x" // an issue at a seven-digit position
			c06Call(c, sliceOf(prim(spec.Int)), million, "list of 1 000 003 items", true)
			doc := `{"tags":[` + strings.Repeat(`"t",`, 1000002) + `1]}`
			wb := spec.Build(c06WireSchema(), nil)
			c06Guard(c, "zjson.Decode of a list of 1 000 003 items", map[string]any{"json_document": "{\"tags\":[\"t\" x 1000002, 1]}"}, func() { run.Parse(wb, zjson.Decode(strings.NewReader(doc)), nil).MustNotPanic() })
		}
		for i := 0; i < 4; i++ {
			c06Call(c, req(str()), "", "ordinary call after a deep one", false)
			c06Call(c, structOf("a", req(str())), map[string]any{}, "ordinary call after a deep one", false)
		}
	case k < 32:
		// a field keyed by the empty string, at top level and nested, present and missing
		mk := func() *spec.Node {
			in := structOf("v", req(str()), "w", prim(spec.Int))
			in.Fields[0].Tags = map[string]string{"zog": ""}
			n := structOf("top", req(str()), "inner", in, "list", sliceOf(in))
			n.Fields[0].Tags = map[string]string{"zog": ""}
			return n
		}
		c06Call(c, mk(), map[string]any{}, "empty tag key, empty record", true)
		c06Call(c, mk(), map[string]any{"": "t", "inner": map[string]any{"": "x", "w": "bad"}, "list": []any{map[string]any{}, map[string]any{"": 1}}}, "empty tag key, populated record", true)
		n2 := mk()
		n2.Number()
		o := run.Validate(spec.Build(n2, nil), map[string]any{"Top": "", "Inner": map[string]any{"V": "", "W": 0}, "List": []any{map[string]any{"V": "", "W": 0}}})
		c.Eval(1)
		if o.Panicked {
			c.Violation("validate-panicked|"+panicKind(o.Panic), map[string]any{"schema": n2.Source(), "panic": fmt.Sprint(o.Panic), "where": "empty tag key in Validate"})
		}
	default:
		// Unicode field names that are still exported
		for _, key := range []string{"Ünï", "Ωmega", "Ñandú", "Aé世", "X_1", "Z9"} {
			if !unicode.IsUpper([]rune(key)[0]) {
				continue
			}
			n := structOf(key, req(str()))
			n.Fields[0].GoName = key
			c06Call(c, n, map[string]any{key: "v"}, "unicode field name "+key, true)
		}
	}
	_ = reflect.TypeOf
	_ = ref.Parse
	_ = rng.Hash
}
