package props

import (
	"fmt"
	z "github.com/Oudwins/zog"
	"reflect"
	"strings"

	"zogverif/internal/core"
	"zogverif/internal/gen"
	"zogverif/internal/obs"
	"zogverif/internal/ref"
	"zogverif/internal/run"
	"zogverif/internal/spec"
)

// C01: success means valid. One-directional oracle, independent of ref.Eval: when a call returns no issues, the
// schema and the destination are walked together and every declared constraint is re-evaluated on the destination.
type c01 struct{}

func init() { core.Register(c01{}) }

func (c01) ID() string { return "C01" }

func (c01) Info(t core.Tier) core.Info {
	return core.Info{
		Level: "exploration",
		Rule: "each case = one generated schema x 8 valid-biased inputs x {Parse, Validate} x 4 rebuilds with permuted field insertion order (so several field visit orders are observed); every 4th case instead renders 6 records of a record schema through zjson, zhttp JSON, form, query and env; " +
			"oracle: if the call returns no issues, every node reached in the destination satisfies every declared test (independent predicates), every Required/NotNil node had a present value or a Default, " +
			"catching nodes hold their catch value or a valid value. non-trivial: result had no issues and >= 1 test was re-evaluated below the root; distinct by (schema, input, mode, observed visit order).",
		Assumptions: commonAssumptions,
		MinDistinct: 50,
	}
}

func (c01) NumCases(t core.Tier) int { return tierN(t, 24000, 600000) }

type c01walker struct {
	mode       ref.Mode
	viol       []string
	testsEvald int
	unknown    bool
}

func (w *c01walker) fail(path, format string, a ...any) {
	w.viol = append(w.viol, path+": "+fmt.Sprintf(format, a...))
}

func (w *c01walker) checkTests(n *spec.Node, val any, path string) bool {
	ok := true
	for i := range n.Tests {
		t := &n.Tests[i]
		holds, known := ref.TestHolds(t, val)
		if !known {
			w.unknown = true
			continue
		}
		w.testsEvald++
		if t.Not {
			holds = !holds
		}
		if !holds {
			ok = false
		}
	}
	return ok
}

func (w *c01walker) failingTests(n *spec.Node, val any) []string {
	var out []string
	for i := range n.Tests {
		t := &n.Tests[i]
		holds, known := ref.TestHolds(t, val)
		if !known {
			continue
		}
		if t.Not {
			holds = !holds
		}
		if !holds {
			name := t.Op.String()
			if t.Not {
				name = "Not()." + name
			}
			out = append(out, name)
		}
	}
	return out
}

// walk checks node n. data: Parse input at this node (Parse mode); prior: value before the call; dest: value after the call.
func (w *c01walker) walk(n *spec.Node, data any, prior any, dest any, path string) {
	eff := n.Eff()
	absent := false
	if w.mode == ref.Parse {
		absent = ref.IsAbsentParse(data)
	} else {
		absent = ref.IsZeroValidate(prior)
		if p, ok := prior.(obs.PtrV); ok {
			absent = p.Nil
		}
	}
	switch n.Kind {
	case spec.Struct:
		dm, _ := dest.(map[string]any)
		pm, _ := prior.(map[string]any)
		var rec map[string]any
		if w.mode == ref.Parse {
			switch d := data.(type) {
			case nil:
			case map[string]any:
				rec = d
			default:
				w.fail(path, "Parse returned no issues although the struct input %s is not a record", obs.Render(obs.Norm(data)))
				return
			}
		}
		for i := range n.Fields {
			f := &n.Fields[i]
			var fd any
			if rec != nil {
				fd = rec[f.DataKey("")]
			}
			w.walk(f.Node, fd, pm[f.GoName], dm[f.GoName], path+"."+f.Key)
		}
		if !w.checkTests(n, dest, path) {
			w.fail(path, "struct-level test(s) %v do not hold", w.failingTests(n, dest))
		}
		return
	case spec.Ptr:
		dp, _ := dest.(obs.PtrV)
		if absent {
			if eff.NotNil {
				w.fail(path, "NotNil pointer had no present value but no issue was returned")
			}
			return
		}
		if dp.Nil {
			// present input must have allocated; in Validate a non-nil pointer stays non-nil
			w.fail(path, "pointer is nil after a successful call although its input was present")
			return
		}
		var pin any
		if pp, ok := prior.(obs.PtrV); ok && !pp.Nil {
			pin = pp.V
		} else {
			pin = obs.NormValue(reflect.Zero(n.Elem.GoType()))
		}
		w.walk(n.Elem, data, pin, dp.V, path+"*")
		return
	case spec.Slice:
		ds, _ := dest.([]any)
		if absent || (w.mode == ref.Validate && len(toSlice(prior)) == 0) {
			if eff.HasDefault {
				// the default is then tested like any other value
				def, _ := ref.SliceElems(eff.Default)
				for i := range ds {
					if i < len(def) {
						if w.mode == ref.Parse {
							w.walk(n.Elem, def[i], obs.NormValue(reflect.Zero(n.Elem.GoType())), ds[i], fmt.Sprintf("%s[%d]", path, i))
						} else {
							// Validate: the item placed from the default is a value like any other (absent iff zero)
							w.walk(n.Elem, nil, obs.Norm(def[i]), ds[i], fmt.Sprintf("%s[%d]", path, i))
						}
					}
				}
				if !w.checkTests(n, obs.Make(n.GoType(), ds).Interface(), path) {
					w.fail(path, "slice default does not satisfy %v", w.failingTests(n, obs.Make(n.GoType(), ds).Interface()))
				}
				return
			}
			if eff.Required {
				w.fail(path, "Required slice had no present value but no issue was returned")
			}
			return
		}
		var elems []any
		if w.mode == ref.Parse {
			el, unk := ref.SliceElems(data)
			if unk {
				w.unknown = true
				return
			}
			if n.Coercer != nil {
				w.unknown = true
				return
			}
			elems = el
			if len(ds) != len(elems) {
				w.fail(path, "slice has %d elements, input had %d", len(ds), len(elems))
				return
			}
		}
		ps := toSlice(prior)
		for i := range ds {
			var ed, ep any
			if w.mode == ref.Parse {
				ed = elems[i]
				ep = obs.NormValue(reflect.Zero(n.Elem.GoType()))
			} else if i < len(ps) {
				ep = ps[i]
			}
			w.walk(n.Elem, ed, ep, ds[i], fmt.Sprintf("%s[%d]", path, i))
		}
		gv := obs.Make(n.GoType(), ds).Interface()
		if !w.checkTests(n, gv, path) {
			w.fail(path, "slice-level test(s) %v do not hold on %s", w.failingTests(n, gv), obs.Render(dest))
		}
		return
	case spec.Custom:
		gv := obs.Make(n.CustomT.Type, dest).Interface()
		w.testsEvald++
		if !n.Tests[0].Pred(gv) {
			w.fail(path, "custom schema function does not hold on %s", obs.Render(dest))
		}
		return
	case spec.Pre:
		w.unknown = true
		return
	}
	// primitives
	if absent {
		if eff.HasDefault {
			if !w.checkTests(n, dest, path) && !(eff.HasCatch && obs.Equal(dest, eff.Catch)) {
				w.fail(path, "default value %s does not satisfy %v", obs.Render(dest), w.failingTests(n, dest))
			}
			return
		}
		if eff.Required && !(eff.HasCatch && obs.Equal(dest, eff.Catch)) {
			w.fail(path, "Required node had no present value but no issue was returned")
		}
		return
	}
	if eff.HasCatch && obs.Equal(dest, eff.Catch) {
		return
	}
	if !w.checkTests(n, dest, path) {
		w.fail(path, "value %s does not satisfy %v", obs.Render(dest), w.failingTests(n, dest))
	}
}

func toSlice(v any) []any {
	s, _ := v.([]any)
	return s
}

// c01Fronts: the same one-directional oracle on records rendered through every front end.
func c01Fronts(c *core.Ctx) {
	flat := c.R.Intn(10) < 6
	fo := gen.FrontOpts{Flat: flat, EnvOnly: flat && c.R.Bool(), MaxDepth: 2, MaxFields: 4}
	n := gen.RecordSchema(c.R, fo)
	fronts := []string{"zjson", "zhttp-json"}
	if flat {
		fronts = append(fronts, "form", "query")
		if fo.EnvOnly {
			fronts = append(fronts, "env")
		}
	}
	src := n.Source()
	for k := 0; k < 6; k++ {
		rec := gen.GenRecord(c.R, n, 88, fo)
		logical := gen.RecToNested(n, rec, "", false) // the record as the walker sees it (keys = zog tag / schema key)
		for _, f := range fronts {
			for rep := 0; rep < 2; rep++ {
				b := spec.Build(n, &spec.Hooks{FieldOrder: permutedOrder(c.R)})
				prior := gen.Prefill(c.R, n, false)
				o, _, _ := frontExec(b, n, rec, f, prior, false)
				c.Eval(1)
				if o.Panicked {
					c.Violation("panic|"+f, map[string]any{"schema": src, "record": obs.Render(rec), "front_end": f, "panic": fmt.Sprint(o.Panic), "stack": trunc(o.Stack, 2000)})
					return
				}
				if !o.NoIssues() {
					c.Count("runs_with_issues", 1)
					break
				}
				w := &c01walker{mode: ref.Parse}
				w.walk(n, logical, prior, o.Dest, "$")
				if len(w.viol) > 0 {
					c.Violation("success-but-invalid|"+f, map[string]any{"schema": src, "record": obs.Render(rec), "front_end": f, "destination": obs.Render(o.Dest), "constraints_violated": w.viol})
					return
				}
				c.Count("successes_checked", 1)
				c.Count("tests_reevaluated", w.testsEvald)
				c.Distinct("front_ends", f)
				if w.testsEvald > 0 {
					c.NonTrivial(fpf("%s|%s|%s", src, f, obs.Render(rec)))
				}
			}
		}
	}
}

func (c01) RunCase(c *core.Ctx) {
	if c.Case%97 == 23 && !w10(c, "C01") {
		return
	}
	if c.Case%100 == 41 {
		// the struct a Preprocess function returns is parsed like any other record: 0 and false are present values and are tested
		c.Eval(1)
		if problem := dPreprocessStruct(); problem != "" && strings.Contains(problem, "present values") {
			c.Violation("success-but-invalid|Parse", map[string]any{"schema": "{order: Preprocess(fn -> Order{Qty, Paid, Note}, Struct{Qty: Int().GTE(1), Paid: Bool().True(), Note: String()})}", "observed": problem})
			return
		}
	}
	if c.Case%100 == 45 {
		c.Eval(8)
		outs, _ := dValidateNilEmbedded(4)
		for o := range outs {
			if strings.Contains(o, "ptrKey=false: returned []") {
				c.Violation("success-but-required-absent|Validate", map[string]any{"schema": "{Rev: Int().Required(), By: String().Required(), title: String().Required()} validating struct{ *DStamp(nil); Title }", "observed": o})
				return
			}
		}
		if problem := dWideAndDeep(); problem != "" {
			c.Violation("success-but-invalid|wide-or-deep-value", map[string]any{"schema": "Slice(Ptr(Int().GT(0))) / node = z.Struct(fields); fields[next] = Ptr(node) (a recursive schema: the field is added to the map after z.Struct took it)", "observed": problem})
			return
		}
		// every test declared on a node is judged, also when two custom tests report under one code
		noSpace := func(v any, ctx z.Ctx) bool { return !strings.Contains(v.(string), " ") }
		noDigit := func(v any, ctx z.Ctx) bool { return !strings.ContainsAny(v.(string), "0123456789") }
		for _, mode := range []string{"Parse", "Validate"} {
			sch := z.String().TestFunc(noSpace, z.IssueCode("format")).TestFunc(noDigit, z.IssueCode("format")).Test(z.TestFunc("format", func(v any, ctx z.Ctx) bool { return len(v.(string)) < 9 }))
			var n int
			for _, in := range []string{"a b", "ab1", "abcdefghij"} {
				v := in
				var l z.ZogIssueList
				if mode == "Parse" {
					l = sch.Parse(in, &v)
				} else {
					l = sch.Validate(&v)
				}
				n += len(l)
			}
			c.Eval(3)
			if n != 3 {
				c.Violation("success-but-invalid|"+mode, map[string]any{"schema": "String().TestFunc(no space, IssueCode(format)).TestFunc(no digit, IssueCode(format)).Test(TestFunc(format, shorter than 9))", "inputs": "\"a b\", \"ab1\", \"abcdefghij\" (each violates exactly one of the three)", "issues_reported_in_total": n, "want": 3})
				return
			}
		}
	}
	if c.Case%100 == 43 {
		c.Eval(2)
		if _, problem := dPreprocessAbsent(); problem != "" {
			c.Violation("success-but-required-absent|Parse", map[string]any{"schema": "Preprocess(func(n int) string, String().Required().Min(5)) as a struct field and as a slice element", "observed": problem})
			return
		}
	}
	if c.Case%4 == 3 {
		c01Fronts(c)
		return
	}
	n := c02Schema(c.R)
	src := n.Source()
	inOpts := gen.InOpts{ValidPct: 82, AbsentPct: 8, WrongPct: 3, AltRep: true, Decoys: true}
	for k := 0; k < 8; k++ {
		data := gen.ParseInput(c.R, n, inOpts)
		val := gen.ValueTree(c.R, n, gen.InOpts{ValidPct: 85, AbsentPct: 8}, false)
		for _, mode := range []ref.Mode{ref.Parse, ref.Validate} {
			if n.Kind == spec.Pre && mode == ref.Validate {
				continue
			}
			for rep := 0; rep < 4; rep++ {
				rec := &orderRecorder{}
				b := spec.Build(n, rec.hooks(c.R))
				if rep == 3 {
					// "... or an earlier call": the recycled objects this call picks up are in states earlier calls leave behind
					prefillDirty([]string{"all", "SchemaCtx.Exit", "SchemaCtx.CanCatch", "SchemaCtx.HasCaught"}[c.R.Intn(4)])
				}
				var o *run.Outcome
				var prior, input any
				if mode == ref.Parse {
					// every third destination is one the caller used before: stale leaves, non-nil pointers, filled slices
					prior = gen.Prefill(c.R, n, rep == 1)
					o = run.Parse(b, data, prior)
					input = data
				} else {
					prior = val
					o = run.Validate(b, val)
					input = val
				}
				c.Eval(1)
				if o.Panicked {
					c.Violation("panic|"+mode.String(), describeCase(n, mode, input, map[string]any{"panic": fmt.Sprint(o.Panic), "stack": trunc(o.Stack, 2500)}))
					break
				}
				if !o.NoIssues() {
					c.Count("runs_with_issues", 1)
					continue // the antecedent (no issues) does not hold for this run; the other runs differ in visit order, destination and pool state
				}
				w := &c01walker{mode: mode}
				w.walk(n, data, prior, o.Dest, "$")
				if len(w.viol) > 0 {
					c.Violation("success-but-invalid|"+mode.String(), describeCase(n, mode, input, map[string]any{
						"destination": obs.Render(o.Dest), "constraints_violated": w.viol, "visit_order": rec.seq}))
					break
				}
				c.Count("successes_checked", 1)
				c.Count("tests_reevaluated", w.testsEvald)
				if w.testsEvald > 0 && n.Kind != spec.String {
					order := strings.Join(rec.seq, ",")
					c.Distinct("visit_orders", order)
					c.NonTrivial(fpf("%s|%s|%s|%s", src, mode, obs.Render(obs.Norm(input)), order))
					if c.WantSample() && len(n.Fields) > 1 {
						c.Sample(describeCase(n, mode, input, map[string]any{"destination": obs.Render(o.Dest), "tests_reevaluated": w.testsEvald, "visit_order": rec.seq}))
					}
				}
			}
		}
	}
}
