package props

import (
	"fmt"
	"os"
	"reflect"
	"sort"
	"strings"
	"time"

	z "github.com/Oudwins/zog"
	"github.com/Oudwins/zog/parsers/zjson"
	"github.com/Oudwins/zog/zenv"

	"zogverif/internal/core"
	"zogverif/internal/gen"
	"zogverif/internal/obs"
	"zogverif/internal/ref"
	"zogverif/internal/run"
	"zogverif/internal/spec"
)

// C04: Required / Optional / Default decide what an absent value means. The decision table is finite and is enumerated
// exhaustively: node kind x modifier sequence (length <= 3) x context x input class x mode.
type c04 struct{}

func init() { core.Register(c04{}) }

func (c04) ID() string { return "C04" }

var c04Kinds = []spec.Kind{spec.String, spec.Int, spec.Int32, spec.Int64, spec.Float32, spec.Float64, spec.Bool, spec.Time, spec.Slice, spec.Ptr}

// modifier alphabet: R = Required, O = Optional, P = Default(passing value), F = Default(value failing the node's test), C = Catch(value)
var c04ModSeqs = func() [][]byte {
	alpha := []byte("ROPFC")
	out := [][]byte{{}}
	var rec func(prefix []byte, depth int)
	rec = func(prefix []byte, depth int) {
		if depth == 0 {
			return
		}
		for _, a := range alpha {
			s := append(append([]byte{}, prefix...), a)
			out = append(out, s)
			rec(s, depth-1)
		}
	}
	rec(nil, 3)
	return out
}()

const c04Contexts = 11

var c04CtxNames = [...]string{"top-level", "struct-field", "slice-element", "behind-pointer", "struct-in-slice", "slice-in-struct", "struct-field-between-catching-siblings", "field-of-a-go-struct-used-as-input", "field-of-a-typed-map-record", "field-of-an-item-of-a-typed-slice-default", "item-of-a-typed-slice-default"}

func (c04) Info(t core.Tier) core.Info {
	return core.Info{
		Level: "exploration",
		Rule: fmt.Sprintf("EXHAUSTIVE decision table: %d node kinds (8 primitives, slice, pointer) x %d modifier sequences (all sequences of length <= 3 over Required/Optional/Default(valid)/Default(invalid)/Catch - for slices Default(typed nil or empty slice) in place of Catch; NotNil repetitions and pointee modifiers for pointers) x %d contexts (%v) x every input class "+
			"(nil, missing key, \"\", 11 white-space forms incl. U+00A0/U+2003/U+3000/U+0085/U+2028, zero-width space, \"0\", 0, false, zero time, un-coercible, valid, empty/nil/non-empty slice; Validate: zero value, empty and nil slice, nil pointer, pointer to zero, valid) x {Parse, Validate}. one case = one (kind, modifiers, context) with all its inputs and modes. "+
			"observed through: issue multiset (required / not_nil / coerce / test codes), recording tests (ran or not, and with which value), destination pre-filled with sentinels (written or not). every cell is non-trivial; distinct by cell. thorough adds random deeper nestings.", len(c04Kinds), len(c04ModSeqs), c04Contexts, c04CtxNames),
		Assumptions: commonAssumptions,
		MinDistinct: 1000,
		Exhaustive:  true,
	}
}

func c04TableCases() int { return len(c04Kinds) * len(c04ModSeqs) * c04Contexts }

func (c04) NumCases(t core.Tier) int { return c04TableCases() + tierN(t, 6000, 1500000) }

type c04base struct {
	witness, passDef, failDef any
	test                      spec.Test
	catchVal                  any
}

func c04Base(k spec.Kind) c04base {
	switch k {
	case spec.String:
		return c04base{"abcd", "wxyz", "zz", spec.Test{Op: spec.TMin, N: 3}, "CAUGHT"}
	case spec.Bool:
		return c04base{true, true, false, spec.Test{Op: spec.TTrue}, false}
	case spec.Time:
		return c04base{gen.BaseTime.Add(time.Hour), gen.BaseTime.Add(2 * time.Hour), gen.BaseTime.Add(-time.Hour), spec.Test{Op: spec.TAfter, Arg: gen.BaseTime}, gen.BaseTime.Add(-77 * time.Hour)}
	case spec.Int:
		return c04base{9, 8, 1, spec.Test{Op: spec.TGT, Arg: 5}, -7}
	case spec.Int32:
		return c04base{int32(9), int32(8), int32(1), spec.Test{Op: spec.TGT, Arg: int32(5)}, int32(-7)}
	case spec.Int64:
		return c04base{int64(9), int64(8), int64(1), spec.Test{Op: spec.TGT, Arg: int64(5)}, int64(-7)}
	case spec.Float32:
		return c04base{float32(9), float32(8), float32(1), spec.Test{Op: spec.TGT, Arg: float32(5)}, float32(-7)}
	case spec.Float64:
		return c04base{float64(9), float64(8), float64(1), spec.Test{Op: spec.TGT, Arg: float64(5)}, float64(-7)}
	}
	panic("c04Base")
}

func probeTest() spec.Test {
	return spec.Test{Op: spec.TCustom, PredName: "probe", Pred: func(any) bool { return true }}
}

// c04Cell builds the cell node for (kind, modifier sequence). variant selects the pointee for pointers.
func c04Cell(k spec.Kind, seq []byte) *spec.Node {
	switch k {
	case spec.Slice:
		elem := &spec.Node{Kind: spec.String, Witness: "el"}
		n := &spec.Node{Kind: spec.Slice, Elem: elem, Tests: []spec.Test{{Op: spec.TMax, N: 1}, probeTest()}}
		for _, m := range seq {
			switch m {
			case 'R':
				n.Mods = append(n.Mods, spec.Mod{Op: spec.MRequired})
			case 'O':
				n.Mods = append(n.Mods, spec.Mod{Op: spec.MOptional})
			case 'P':
				n.Mods = append(n.Mods, spec.Mod{Op: spec.MDefault, Val: []string{"d"}})
			case 'F':
				n.Mods = append(n.Mods, spec.Mod{Op: spec.MDefault, Val: []string{"d1", "d2"}})
			case 'C':
				// slices have no Catch: the letter stands for a default that is set but empty (a typed nil or an empty slice)
				if len(seq)%2 == 0 {
					n.Mods = append(n.Mods, spec.Mod{Op: spec.MDefault, Val: []string(nil)})
				} else {
					n.Mods = append(n.Mods, spec.Mod{Op: spec.MDefault, Val: []string{}})
				}
			}
		}
		return n
	case spec.Ptr:
		// for pointers the sequence letters mean: R = NotNil on the pointer, O = nothing, P = pointee Required, F = pointee Default
		pk := []spec.Kind{spec.String, spec.Int, spec.Bool, spec.Time, spec.Float64}[len(seq)%5]
		base := c04Base(pk)
		elem := &spec.Node{Kind: pk, Witness: base.witness, Tests: []spec.Test{base.test, probeTest()}}
		n := &spec.Node{Kind: spec.Ptr, Elem: elem}
		for _, m := range seq {
			switch m {
			case 'R':
				n.Mods = append(n.Mods, spec.Mod{Op: spec.MNotNil})
			case 'P':
				elem.Mods = append(elem.Mods, spec.Mod{Op: spec.MRequired})
			case 'F':
				elem.Mods = append(elem.Mods, spec.Mod{Op: spec.MDefault, Val: base.passDef})
			case 'C':
				elem.Mods = append(elem.Mods, spec.Mod{Op: spec.MCatch, Val: base.catchVal})
			}
		}
		return n
	}
	base := c04Base(k)
	n := &spec.Node{Kind: k, Witness: base.witness, Tests: []spec.Test{base.test, probeTest()}}
	for _, m := range seq {
		switch m {
		case 'R':
			n.Mods = append(n.Mods, spec.Mod{Op: spec.MRequired})
		case 'O':
			n.Mods = append(n.Mods, spec.Mod{Op: spec.MOptional})
		case 'P':
			n.Mods = append(n.Mods, spec.Mod{Op: spec.MDefault, Val: base.passDef})
		case 'F':
			n.Mods = append(n.Mods, spec.Mod{Op: spec.MDefault, Val: base.failDef})
		case 'C':
			n.Mods = append(n.Mods, spec.Mod{Op: spec.MCatch, Val: base.catchVal})
		}
	}
	return n
}

type missingKey struct{}

// c04Skip: this input class cannot be placed in this context
type c04Skip struct{}

// c04Wrap puts the cell into its context and returns the root plus functions wrapping a cell input / a cell value.
func c04Wrap(cell *spec.Node, ctx int) (root *spec.Node, wrapData func(any) any, wrapVal func(any) any) {
	other := func() *spec.Node { return &spec.Node{Kind: spec.String, Witness: "o"} }
	extra := []spec.ExtraField{{GoName: "XUntouchedS", Type: reflect.TypeOf("")}}
	rec := func(v any) map[string]any {
		m := map[string]any{"other": "o"}
		if _, miss := v.(missingKey); !miss {
			m["f"] = v
		}
		return m
	}
	unmiss := func(v any) any {
		if _, miss := v.(missingKey); miss {
			return nil
		}
		return v
	}
	switch ctx {
	case 0:
		root = cell
		wrapData, wrapVal = unmiss, func(v any) any { return v }
	case 1:
		root = &spec.Node{Kind: spec.Struct, ExtraFields: extra, Fields: []spec.Field{{Key: "f", GoName: "F", Node: cell}, {Key: "other", GoName: "Other", Node: other()}}}
		wrapData = func(v any) any { return rec(v) }
		wrapVal = func(v any) any { return map[string]any{"F": v, "Other": "o", "XUntouchedS": "sentinel-untouched"} }
	case 2:
		root = &spec.Node{Kind: spec.Slice, Elem: cell}
		wrapData = func(v any) any { return []any{"pad", unmiss(v), "pad"}[1:2] }
		wrapVal = func(v any) any { return []any{v} }
	case 3:
		root = &spec.Node{Kind: spec.Ptr, Elem: cell}
		wrapData, wrapVal = unmiss, func(v any) any { return obs.PtrV{V: v} }
	case 4:
		st := &spec.Node{Kind: spec.Struct, ExtraFields: extra, Fields: []spec.Field{{Key: "f", GoName: "F", Node: cell}, {Key: "other", GoName: "Other", Node: other()}}}
		root = &spec.Node{Kind: spec.Slice, Elem: st}
		wrapData = func(v any) any { return []any{rec(v), rec(v)} }
		wrapVal = func(v any) any {
			one := func() any { return map[string]any{"F": v, "Other": "o", "XUntouchedS": "sentinel-untouched"} }
			return []any{one(), one()}
		}
	case 5:
		sl := &spec.Node{Kind: spec.Slice, Elem: cell}
		root = &spec.Node{Kind: spec.Struct, ExtraFields: extra, Fields: []spec.Field{{Key: "l", GoName: "L", Node: sl}, {Key: "other", GoName: "Other", Node: other()}}}
		wrapData = func(v any) any { return map[string]any{"l": []any{unmiss(v)}, "other": "o"} }
		wrapVal = func(v any) any {
			return map[string]any{"L": []any{v}, "Other": "o", "XUntouchedS": "sentinel-untouched"}
		}
	}
	if ctx == 7 {
		// the record is a Go struct value whose field F has exactly the dynamic type of the input (so 0, false, zero time are typed zero values)
		root = &spec.Node{Kind: spec.Struct, ExtraFields: extra, Fields: []spec.Field{{Key: "F", GoName: "F", Node: cell}, {Key: "Other", GoName: "Other", Node: other()}}}
		wrapData = func(v any) any {
			fs := []reflect.StructField{{Name: "Other", Type: reflect.TypeOf("")}}
			_, miss := v.(missingKey)
			if !miss && v != nil {
				fs = append(fs, reflect.StructField{Name: "F", Type: reflect.TypeOf(v)})
			} else if !miss {
				fs = append(fs, reflect.StructField{Name: "F", Type: reflect.TypeOf((*any)(nil)).Elem()})
			}
			rv := reflect.New(reflect.StructOf(fs)).Elem()
			rv.FieldByName("Other").SetString("o")
			if !miss && v != nil {
				rv.FieldByName("F").Set(reflect.ValueOf(v))
			}
			if len(fs)%2 == 0 {
				return rv.Addr().Interface() // a pointer to the struct is an equally valid record
			}
			return rv.Interface()
		}
		wrapVal = func(v any) any { return map[string]any{"F": v, "Other": "o", "XUntouchedS": "sentinel-untouched"} }
	}
	if ctx == 9 {
		// the cell is a field of the struct items of a slice whose Default is a typed slice; the slice itself is absent, so the
		// cell's input is the field value inside the default (only values of the field's own Go type can sit there): the default is
		// "tested like any other value", i.e. under the rules of the mode (in Parse 0, false and the zero time are present)
		st := &spec.Node{Kind: spec.Struct, Fields: []spec.Field{{Key: "F", GoName: "F", Node: cell}, {Key: "Other", GoName: "Other", Node: other()}}}
		sl := &spec.Node{Kind: spec.Slice, Elem: st}
		root = &spec.Node{Kind: spec.Struct, ExtraFields: extra, Fields: []spec.Field{{Key: "l", GoName: "L", Node: sl}, {Key: "other", GoName: "Other", Node: other()}}}
		root.Number()
		setDefault := func(v any) bool {
			if v == nil || reflect.TypeOf(v) != cell.GoType() {
				if p, ok := v.(obs.PtrV); !ok || cell.Kind != spec.Ptr {
					_ = p
					return false
				}
			}
			item := map[string]any{"F": obs.Norm(v), "Other": "o"}
			if p, ok := v.(obs.PtrV); ok {
				item["F"] = p
			}
			sl.Mods = []spec.Mod{{Op: spec.MDefault, Val: obs.Make(sl.GoType(), []any{item}).Interface()}}
			return true
		}
		wrapData = func(v any) any {
			if _, miss := v.(missingKey); miss || !setDefault(v) {
				return c04Skip{}
			}
			return map[string]any{"other": "o"}
		}
		wrapVal = func(v any) any {
			if !setDefault(v) {
				return c04Skip{}
			}
			return map[string]any{"L": []any{}, "Other": "o", "XUntouchedS": "sentinel-untouched"}
		}
		return
	}
	if ctx == 10 {
		// the cell is the item schema of a slice whose Default is a typed slice holding the input as its only item; the slice itself is
		// absent. The default's items are "tested like any other value" under the rules of the mode
		sl := &spec.Node{Kind: spec.Slice, Elem: cell}
		root = &spec.Node{Kind: spec.Struct, ExtraFields: extra, Fields: []spec.Field{{Key: "l", GoName: "L", Node: sl}, {Key: "other", GoName: "Other", Node: other()}}}
		root.Number()
		setDefault := func(v any) bool {
			if cell.Kind == spec.Slice || cell.Kind == spec.Ptr || v == nil || reflect.TypeOf(v) != cell.GoType() {
				return false
			}
			d := reflect.MakeSlice(sl.GoType(), 0, 2)
			d = reflect.Append(d, reflect.ValueOf(v))
			sl.Mods = []spec.Mod{{Op: spec.MDefault, Val: d.Interface()}}
			return true
		}
		wrapData = func(v any) any {
			if _, miss := v.(missingKey); miss || !setDefault(v) {
				return c04Skip{}
			}
			return map[string]any{"other": "o"}
		}
		wrapVal = func(v any) any {
			if !setDefault(v) {
				return c04Skip{}
			}
			return map[string]any{"L": []any{}, "Other": "o", "XUntouchedS": "sentinel-untouched"}
		}
		return
	}
	if ctx == 8 {
		// the record is a typed map (map[string]string / int / float64 / bool) whenever the input's own type allows it: a key
		// missing from such a map is a missing key, not the element type's zero value
		root = &spec.Node{Kind: spec.Struct, ExtraFields: extra, Fields: []spec.Field{{Key: "f", GoName: "F", Node: cell}, {Key: "other", GoName: "Other", Node: other()}}}
		elemOf := func(k spec.Kind) reflect.Type {
			switch k {
			case spec.String:
				return reflect.TypeOf("")
			case spec.Int:
				return reflect.TypeOf(0)
			case spec.Float64:
				return reflect.TypeOf(0.0)
			case spec.Bool:
				return reflect.TypeOf(false)
			}
			return nil
		}
		wrapData = func(v any) any {
			_, miss := v.(missingKey)
			var et reflect.Type
			if miss {
				k := cell.Kind
				if k == spec.Ptr {
					k = cell.Elem.Kind
				}
				et = elemOf(k)
			} else if v != nil {
				switch v.(type) {
				case string, int, float64, bool:
					et = reflect.TypeOf(v)
				}
			}
			if et == nil {
				return rec(v)
			}
			m := reflect.MakeMap(reflect.MapOf(reflect.TypeOf(""), et))
			sib := map[reflect.Kind]any{reflect.String: "o", reflect.Int: 7, reflect.Float64: 7.5, reflect.Bool: true}[et.Kind()]
			m.SetMapIndex(reflect.ValueOf("other"), reflect.ValueOf(sib))
			if !miss {
				m.SetMapIndex(reflect.ValueOf("f"), reflect.ValueOf(v))
			}
			return m.Interface()
		}
		wrapVal = func(v any) any { return map[string]any{"F": v, "Other": "o", "XUntouchedS": "sentinel-untouched"} }
	}
	if ctx == 6 {
		// the cell sits between two catching siblings, one of which fails and is caught on every input
		catcher := func(w string) *spec.Node {
			return &spec.Node{Kind: spec.String, Witness: w, Mods: []spec.Mod{{Op: spec.MCatch, Val: "CAUGHT"}}, Tests: []spec.Test{{Op: spec.TMin, N: 4}}}
		}
		root = &spec.Node{Kind: spec.Struct, ExtraFields: extra, Fields: []spec.Field{
			{Key: "a", GoName: "A", Node: catcher("long enough")}, {Key: "f", GoName: "F", Node: cell}, {Key: "z", GoName: "Z", Node: catcher("long enough")}}}
		wrapData = func(v any) any {
			m := map[string]any{"a": "x", "z": "valid value"}
			if _, miss := v.(missingKey); !miss {
				m["f"] = v
			}
			return m
		}
		wrapVal = func(v any) any {
			return map[string]any{"A": "x", "F": v, "Z": "valid value", "XUntouchedS": "sentinel-untouched"}
		}
	}
	root.Number()
	return
}

var c04Blank = []string{"", " ", "\t", "\n", "\r\n", " \t ", " ", " ", "　", "\u0085", " ", "     "}

// c04ParseInputs lists the input classes for a cell kind.
func c04ParseInputs(cell *spec.Node) []any {
	in := []any{nil, missingKey{}}
	for _, b := range c04Blank {
		in = append(in, b)
	}
	in = append(in, "​", "0", 0, false, time.Time{}, "a")
	k := cell.Kind
	if k == spec.Ptr {
		k = cell.Elem.Kind
	}
	switch k {
	case spec.Slice:
		in = append(in, []any{}, []any(nil), []any{"x"}, []any{"x", "y"}, []string{"s"}, []string{}, "scalar")
	case spec.Time:
		w := cell.Witness
		if cell.Kind == spec.Ptr {
			w = cell.Elem.Witness
		}
		in = append(in, w, w.(time.Time).Format(time.RFC3339), int(w.(time.Time).Unix()))
	default:
		w := cell.Witness
		if cell.Kind == spec.Ptr {
			w = cell.Elem.Witness
		}
		in = append(in, w, fmt.Sprint(w))
	}
	return in
}

func c04ValidateValues(cell *spec.Node) []any {
	zero := obs.NormValue(reflect.Zero(cell.GoType()))
	switch cell.Kind {
	case spec.Slice:
		return []any{[]any(nil), []any{}, []any{"x"}, []any{"x", "y"}, []any{""}}
	case spec.Ptr:
		ez := obs.NormValue(reflect.Zero(cell.Elem.GoType()))
		return []any{obs.PtrV{Nil: true}, obs.PtrV{V: ez}, obs.PtrV{V: cell.Elem.Witness}}
	}
	base := c04Base(cell.Kind)
	return []any{zero, cell.Witness, base.failDef}
}

type c04rec struct {
	events []string
}

func (r *c04rec) hooks() *spec.Hooks {
	return &spec.Hooks{OnTest: func(n *spec.Node, t *spec.Test, val any, ctx z.Ctx) {
		if t.PredName == "probe" {
			tv := obs.Norm(val)
			if p, ok := tv.(obs.PtrV); ok && !p.Nil && !n.Kind.IsPrimitive() {
				tv = p.V // struct / slice tests receive a pointer to the node's value
			}
			r.events = append(r.events, fmt.Sprintf("%d:%s", n.ID, obs.Render(tv)))
		}
	}}
}

func expectedProbeEvents(res *ref.Result) []string {
	var out []string
	for _, e := range res.Events {
		if e.Kind == "test" && !e.Optional {
			out = append(out, fmt.Sprintf("%d:%s", e.NodeID, obs.Render(e.Val)))
		}
	}
	sort.Strings(out)
	return out
}

func probeOnly(n *spec.Node, evs []ref.Event) []ref.Event {
	probe := map[int]bool{}
	n.Walk(func(x *spec.Node) {
		for _, t := range x.Tests {
			if t.PredName == "probe" {
				probe[t.UID] = true
			}
		}
	})
	var out []ref.Event
	for _, e := range evs {
		if e.Kind == "test" && probe[e.UID] {
			out = append(out, e)
		}
	}
	return out
}

// c04Check runs one execution and compares issues, recording-test events and (on success) the destination with the reference.
func c04Check(c *core.Ctx, root *spec.Node, mode ref.Mode, data any, val any, cellDesc string) bool {
	env := &ref.Env{Mode: mode}
	var exp *ref.Result
	var prior any
	var input any
	if mode == ref.Parse {
		prior = gen.Prefill(c.R, root, true)
		exp = ref.Eval(root, env, data, prior)
		input = data
	} else {
		prior = val
		exp = ref.Eval(root, env, nil, val)
		input = val
	}
	if exp.Unknown != "" {
		c.Count("skipped_open_corner", 1)
		return true
	}
	rec := &c04rec{}
	b := spec.Build(root, rec.hooks())
	var o *run.Outcome
	if mode == ref.Parse {
		o = run.Parse(b, data, prior)
	} else {
		o = run.Validate(b, val)
	}
	c.Eval(1)
	d := func(extra map[string]any) map[string]any {
		extra["cell"] = cellDesc
		return describeCase(root, mode, input, extra)
	}
	if o.Panicked {
		c.Violation("panic|"+mode.String(), d(map[string]any{"panic": fmt.Sprint(o.Panic), "stack": trunc(o.Stack, 2000)}))
		return false
	}
	want, got := expectedTriples(exp), actualTriples(o)
	if a, bb := obs.MultisetDiff(want, got); len(a) > 0 || len(bb) > 0 {
		c.Violation("absence-decision-issues|"+mode.String(), d(map[string]any{"expected_issues": want, "observed_issues": issuesText(o), "missing": a, "unexpected": bb}))
		return false
	}
	exp.Events = probeOnly(root, exp.Events)
	wantEv := expectedProbeEvents(exp)
	gotEv := append([]string{}, rec.events...)
	sort.Strings(gotEv)
	if a, bb := obs.MultisetDiff(wantEv, gotEv); len(a) > 0 || len(bb) > 0 {
		c.Violation("tests-ran-or-not|"+mode.String(), d(map[string]any{"expected_recording_test_calls(node:value)": wantEv, "observed": gotEv}))
		return false
	}
	if len(exp.Issues) == 0 {
		if diff := obs.Diff(exp.Out, o.Dest, "$"); diff != "" {
			c.Violation("destination-written-or-not|"+mode.String(), d(map[string]any{"expected_destination": obs.Render(exp.Out), "observed_destination": obs.Render(o.Dest), "prefill": obs.Render(prior), "difference": diff}))
			return false
		}
	}
	return true
}

func (c04) RunCase(c *core.Ctx) {
	if c.Case%97 == 23 && !w10(c, "C04") {
		return
	}
	if c.Case%500 == 77 {
		c.Eval(3)
		if problem := dWideAndDeep(); problem != "" && strings.HasPrefix(problem, "Parse") {
			c.Violation("absent-value-mishandled|deep-record", map[string]any{"schema": "node = {val: Int().Required(), tag: String().Default(dflt), next: Ptr(node)}", "observed": problem})
			return
		}
		if problem := c04Directed(); problem != "" {
			c.Violation("absent-value-mishandled|directed", map[string]any{"observed": problem})
			return
		}
		if problem := c04Fronts(); problem != "" {
			c.Violation("absent-value-mishandled|front-end-record", map[string]any{"observed": problem})
			return
		}
	}
	if c.Case >= c04TableCases() {
		c04Random(c)
		return
	}
	idx := c.Case
	ctx := idx % c04Contexts
	idx /= c04Contexts
	seq := c04ModSeqs[idx%len(c04ModSeqs)]
	idx /= len(c04ModSeqs)
	kind := c04Kinds[idx]
	cell := c04Cell(kind, seq)
	root, wrapData, wrapVal := c04Wrap(cell, ctx)
	cellDesc := fmt.Sprintf("kind=%s mods=%q context=%s", kind, string(seq), c04CtxNames[ctx])
	cells := 0
	reps := 1
	if ctx == 6 {
		reps = 4 // the field visit order is random: repeat so that the cell is visited after a catching sibling
	}
	for _, in := range c04ParseInputs(cell) {
		for rep := 0; rep < reps; rep++ {
			d := wrapData(in)
			if _, skip := d.(c04Skip); skip {
				continue
			}
			if !c04Check(c, root, ref.Parse, d, nil, cellDesc) {
				return
			}
		}
		cells++
		c.NonTrivial(fpf("%s|P|%s", cellDesc, obs.Render(obs.Norm(in))))
	}
	for _, v := range c04ValidateValues(cell) {
		for rep := 0; rep < reps; rep++ {
			vv := wrapVal(v)
			if _, skip := vv.(c04Skip); skip {
				continue
			}
			if !c04Check(c, root, ref.Validate, nil, vv, cellDesc) {
				return
			}
		}
		cells++
		c.NonTrivial(fpf("%s|V|%s", cellDesc, obs.Render(v)))
	}
	c.Count("table_cells", cells)
	c.Distinct("contexts", c04CtxNames[ctx])
	c.Distinct("kinds", kind.String())
	if c.WantSample() && c.Case%977 == 0 {
		c.Sample(map[string]any{"cell": cellDesc, "schema": root.Source(), "parse_inputs": len(c04ParseInputs(cell)), "validate_values": len(c04ValidateValues(cell))})
	}
}

// c04Random: random deeper nestings on top of the table, absent-biased inputs.
func c04Random(c *core.Ctx) {
	o := gen.DefaultOpts()
	o.CatchPct = 0
	o.DefaultPct = 30
	o.RequiredPct = 50
	o.ModChains = true
	o.MaxDepth = 4
	o.Coercers = c.R.Intn(3) == 0 // a custom coercer turns a present input into a value; it has no say about what an absent one means
	n := gen.Schema(c.R, o)
	addProbes(n)
	for k := 0; k < 6; k++ {
		data := gen.ParseInput(c.R, n, gen.InOpts{ValidPct: 40, AbsentPct: 50, WrongPct: 3})
		val := gen.ValueTree(c.R, n, gen.InOpts{ValidPct: 45, AbsentPct: 50}, false)
		if !c04Check(c, n, ref.Parse, data, nil, "random nesting") || !c04Check(c, n, ref.Validate, nil, val, "random nesting") {
			return
		}
		c.NonTrivial(fpf("rnd|%s|%s", n.Source(), obs.Render(obs.Norm(data))))
	}
	c.Count("random_nestings", 1)
}

// c04Fronts: a record that is present but whose members are all absent - environment variables behind a top-level Ptr(Struct), a JSON
// document whose members are all null - is a present record: the pointer is allocated, defaults apply, required fields are reported
// (under the key their source tag names).
// c04Directed: (a) absence is decided on the input, not on what a coercer makes of it: a present input that a custom coercer turns into ""
// is a present value; (b) context values are the application's: whatever keys it uses, blank input stays absent.
func c04Directed() string {
	blanker := func(d any) (any, error) {
		if d == "N/A" {
			return "", nil
		}
		return fmt.Sprint(d), nil
	}
	var s1 string
	l := z.String(z.WithCoercer(blanker)).Required().Parse("N/A", &s1)
	s2 := "stale"
	l2 := z.String(z.WithCoercer(blanker)).Default("dflt").Parse("N/A", &s2)
	s3 := "stale"
	l3 := z.String(z.WithCoercer(blanker)).Min(3).Parse("N/A", &s3)
	if len(l) != 0 || s1 != "" || len(l2) != 0 || s2 != "" || len(l3) != 1 || l3[0].Code != "min" {
		return fmt.Sprintf("String(WithCoercer(N/A -> \"\")) on the present input \"N/A\": Required() gives %v / %q, Default(dflt) gives %v / %q, Min(3) gives %v; want no issue and \"\", no issue and \"\", one min issue", z.Issues.SanitizeList(l), s1, z.Issues.SanitizeList(l2), s2, z.Issues.SanitizeList(l3))
	}
	var opts []z.ExecOption
	for _, k := range []string{"trim", "required", "optional", "strict", "coerce", "default", "zero", "blank", "parse", "mode"} {
		opts = append(opts, z.WithCtxValue(k, false))
	}
	type rec struct {
		Name string
		Tags []string
		P    *string
	}
	d := rec{Name: "stale"}
	m := z.Struct(z.Schema{"name": z.String().Required(), "tags": z.Slice(z.String()).Default([]string{"d"}), "p": z.Ptr(z.String())}).Parse(map[string]any{"name": "   ", "tags": " ", "p": "\t"}, &d, opts...)
	if dKeys(m) != "name" || fmt.Sprint(d.Tags) != "[d]" || d.P != nil || d.Name != "stale" {
		return fmt.Sprintf("blank inputs with the application's own context values (trim, required, optional, strict, ... = false): issues [%s], destination %+v; want one required issue at name, tags [d], p nil, name untouched", dKeys(m), d)
	}
	// a list holding one blank string is a present list whose one item is absent; a record the source has nothing for is a record of
	// absent fields whatever (deprecated, no-op) modifiers the struct schema was given
	type tl struct{ Tags []string }
	var t1 tl
	m = z.Struct(z.Schema{"tags": z.Slice(z.String().Required()).Default([]string{"dflt"})}).Parse(map[string]any{"tags": []string{" "}}, &t1)
	if dKeys(m) != "tags[0]" || len(t1.Tags) != 1 || t1.Tags[0] != "" {
		return fmt.Sprintf("{tags: Slice(String().Required()).Default([dflt])} on {tags: []string{\" \"}}: issues [%s], destination %q; want one required issue at tags[0] and a list of one empty item (the list is present)", dKeys(m), t1.Tags)
	}
	type inner struct {
		A string
		B string
	}
	type outer struct {
		In  inner
		Opt inner
	}
	var o1 outer
	mkIn := func() *z.StructSchema { return z.Struct(z.Schema{"a": z.String().Required(), "b": z.String().Default("bd")}) }
	m = z.Struct(z.Schema{"in": mkIn().Optional(), "opt": mkIn().Required().Optional()}).Parse(map[string]any{"opt": nil}, &o1)
	if dKeys(m) != "in.a, opt.a" || o1.In.B != "bd" || o1.Opt.B != "bd" {
		return fmt.Sprintf("{in: Struct{a: Required, b: Default(bd)}.Optional(), opt: the same .Required().Optional()} on {opt: nil}: issues [%s], destination %+v; want required issues at in.a and opt.a and both b = bd", dKeys(m), o1)
	}
	return ""
}

func c04Fronts() string {
	type cfg struct {
		Host string `env:"C04_HOST" json:"host_name"`
		Port int    `env:"C04_PORT" json:"port_no"`
		Mode string `env:"C04_MODE" json:"mode"`
	}
	mk := func() *z.PointerSchema {
		return z.Ptr(z.Struct(z.Schema{"host": z.String().Required(), "port": z.Int().Default(8080), "mode": z.String()}))
	}
	os.Setenv("C04_MODE", "fast")
	defer os.Unsetenv("C04_MODE")
	var p *cfg
	m := mk().NotNil().Parse(zenv.NewDataProvider(), &p)
	if p == nil || p.Port != 8080 || p.Mode != "fast" || dKeys(m) != "C04_HOST" {
		return fmt.Sprintf("Ptr(Struct{host: Required, port: Default(8080), mode}).NotNil() from the environment (C04_MODE=fast): destination %+v, issue keys [%s]; want an allocated struct with port 8080, mode fast and one issue at C04_HOST", p, dKeys(m))
	}
	for _, doc := range []string{`{"host_name":null,"port_no":null}`, `{"mode":null}`} {
		var q *cfg
		m = mk().Parse(zjson.Decode(strings.NewReader(doc)), &q)
		if q == nil || q.Port != 8080 || dKeys(m) != "host_name" {
			return fmt.Sprintf("Ptr(Struct{host: Required, port: Default(8080), mode}) from the JSON document %s: destination %+v, issue keys [%s]; want an allocated struct with port 8080 and one issue at host_name", doc, q, dKeys(m))
		}
		var d cfg
		m = mk().Parse(zjson.Decode(strings.NewReader(doc)), ptr(&d))
		if d.Port != 8080 || dKeys(m) != "host_name" {
			return fmt.Sprintf("the same through a non-nil destination pointer, document %s: destination %+v, issue keys [%s]", doc, d, dKeys(m))
		}
	}
	return ""
}
