package props

import (
	"errors"
	"fmt"
	"os"
	"reflect"
	"runtime"
	"runtime/debug"
	"sort"
	"strings"
	"sync"

	z "github.com/Oudwins/zog"
	"github.com/Oudwins/zog/conf"
	"github.com/Oudwins/zog/i18n"
	"github.com/Oudwins/zog/i18n/en"
	"github.com/Oudwins/zog/i18n/es"
	p "github.com/Oudwins/zog/internals"
	"github.com/Oudwins/zog/parsers/zjson"
	"github.com/Oudwins/zog/zconst"
	"github.com/Oudwins/zog/zenv"
	"github.com/Oudwins/zog/zhttp"
	"net/http"
	"net/http/httptest"

	"zogverif/internal/core"
	"zogverif/internal/gen"
	"zogverif/internal/obs"
	"zogverif/internal/ref"
	"zogverif/internal/rng"
	"zogverif/internal/run"
	"zogverif/internal/spec"
)

// C07: each execution is isolated from every other execution.
type c07 struct{}

func init() { core.Register(c07{}) }

func (c07) ID() string { return "C07" }

func (c07) Info(t core.Tier) core.Info {
	return core.Info{
		Level: "fault_enumeration",
		Rule: "worker processes run with GOMAXPROCS(1) and the garbage collector off during an episode, so the library's sync.Pools behave as deterministic stacks and recycling really happens (pool hits are measured through counting New functions; an episode without hits is not counted). three monitors, case index mod 3: " +
			"(1) history differential: a random history of 1-30 calls (any schema, data, options incl. WithCtxValue / WithIssueFormatter, JSON front end, any outcome; each result optionally handed to Collect, CollectList, CollectMap, SanitizeListAndCollect, SanitizeMapAndCollect) followed by a probe call, against the same probe on freshly cleared pools: canonical issues (key, path, code, type, message, params, value, error), destination and the context values seen by the probe's callbacks for the whole key universe must be identical; " +
			"(2) dirty-pool prefill (fault enumeration): before the probe every pool is loaded with objects in library-reachable dirty states - ExecCtx with stale keys, formatter, issue container and source tag; SchemaCtx with CanCatch/Exit/HasCaught set and stale Data/ValPtr/Path/DType/Test; ZogIssue with every field non-zero; ErrsList/ErrsMap with stale contents; PathBuilder with a stale tail; a non-empty strings.Builder - all-dirty and one-field-at-a-time; same equality; " +
			"(3) pool hygiene at quiescent points: the issue pool is drained after a history; a pointer present twice or an issue still referenced by an un-collected result triggers a targeted probe producing >= 2 issues on exactly that pool state, and only a divergence there is a violation. " +
			"(4) every 16th case: a zenv data provider kept by the caller and handed to 6 successive calls while the environment changes in between, against a fresh provider in the same environment. " +
			"non-trivial: probe whose execution hit the pools >= 1 time and produced >= 1 issue or read >= 1 context key; distinct by (history shape / prefill state, probe).",
		Assumptions: append([]string{"sync.Pool behaves as a per-P stack when GOMAXPROCS=1 and the GC is off (probed on go1.23.5); pool hits are measured, not assumed"}, commonAssumptions...),
		MinDistinct: 50,
	}
}

func (c07) NumCases(t core.Tier) int { return tierN(t, 30000, 900000) }

func (c07) WorkerInit(t core.Tier) {
	runtime.GOMAXPROCS(1)
	debug.SetGCPercent(-1)
}

type poolCounters struct{ misses [7]int }

// installCountingPools replaces the exported pools with fresh ones whose New functions count misses.
func installCountingPools(pc *poolCounters) {
	p.ExecCtxPool = sync.Pool{New: func() any { pc.misses[0]++; return &p.ExecCtx{} }}
	p.SchemaCtxPool = sync.Pool{New: func() any { pc.misses[1]++; return &p.SchemaCtx{} }}
	p.InternalIssueListPool = sync.Pool{New: func() any { pc.misses[2]++; return &p.ErrsList{} }}
	p.InternalIssueMapPool = sync.Pool{New: func() any { pc.misses[3]++; return &p.ErrsMap{} }}
	p.ZogIssuePool = sync.Pool{New: func() any { pc.misses[4]++; return &p.ZogIssue{} }}
	p.PathBuilderPool = sync.Pool{New: func() any { pc.misses[5]++; pb := make(p.PathBuilder, 0, 5); return &pb }}
	p.StringBuilderPool = sync.Pool{New: func() any { pc.misses[6]++; return &strings.Builder{} }}
}

func (pc *poolCounters) total() int {
	t := 0
	for _, m := range pc.misses {
		t += m
	}
	return t
}

var c07Keys = []string{"k0", "k1", "k2", "lang", "ambient", "user"}

type probeResult struct {
	text   string
	issues int
	ctxGet int
	panic  string
}

type c07Probe struct {
	node  *spec.Node
	mode  ref.Mode
	data  any
	val   any
	opts  func() []z.ExecOption
	front string
	desc  string
}

// runProbe executes the probe and renders everything observable about it.
func runProbe(pr *c07Probe) probeResult {
	var seen []string
	reads := 0
	hooks := &spec.Hooks{
		OnTest: func(n *spec.Node, t *spec.Test, val any, ctx z.Ctx) {
			for _, k := range c07Keys {
				if v := ctx.Get(k); v != nil {
					seen = append(seen, fmt.Sprintf("n%d:%s=%v", n.ID, k, v))
					reads++
				}
			}
		},
	}
	b := spec.Build(pr.node, hooks)
	var o *run.Outcome
	var opts []z.ExecOption
	if pr.opts != nil {
		opts = pr.opts()
	}
	switch {
	case pr.front == "zjson":
		o = run.Parse(b, zjson.Decode(strings.NewReader(pr.data.(string))), nil, opts...)
	case pr.mode == ref.Parse:
		o = run.Parse(b, pr.data, nil, opts...)
	default:
		o = run.Validate(b, pr.val, opts...)
	}
	if o.Panicked {
		return probeResult{panic: fmt.Sprint(o.Panic) + "\n" + trunc(o.Stack, 1500)}
	}
	var sb strings.Builder
	sb.WriteString(obs.Multiset(o.Issues, func(c obs.CI) string { return c.Full() }))
	// which issue is $first and the order of callbacks depend on the field visit order (tolerated): compare the multiset of context reads
	sort.Strings(seen)
	dest := "(not compared: the call reported issues)"
	if len(o.Issues) == 0 {
		dest = obs.Render(o.Dest)
	}
	fmt.Fprintf(&sb, "\nnil=%v\ndest=%s\nctx=%s", o.Nil, dest, strings.Join(seen, ","))
	return probeResult{text: sb.String(), issues: len(o.Issues), ctxGet: reads}
}

// c07NonTestProbe: the probe's only issue does not come from a test (a Preprocess refusal, a PostTransform returning a plain
// error) and its node has no tests at all, so every field of that issue is filled from the execution's own contexts.
func c07NonTestProbe(r *rng.Rand) *c07Probe {
	refuse := func() *spec.Node {
		return &spec.Node{Kind: spec.Pre, Elem: str(), PreName: "refuses", PreFn: func(any) (any, error) { return nil, errors.New("preprocess refused") }}
	}
	failing := func(k spec.Kind) *spec.Node {
		return &spec.Node{Kind: k, Posts: []spec.Post{{Name: "returns-error", Fn: func(any) error { return errors.New("post-transform refused") }}}}
	}
	pr := &c07Probe{mode: ref.Parse}
	switch r.Intn(5) {
	case 0:
		pr.node, pr.data = refuse(), "x"
	case 1:
		pr.node, pr.data = failing(spec.String), "x"
	case 2:
		pr.node, pr.mode, pr.val = failing(spec.Int), ref.Validate, 5
	case 3:
		pr.node, pr.data = structOf("a", refuse(), "b", str()), map[string]any{"a": "x", "b": "y"}
	default:
		pr.node, pr.data = sliceOf(failing(spec.String)), []any{"x", "y"}
	}
	pr.node.Number()
	pr.desc = "non-test issue probe " + pr.node.Source()
	return pr
}

func c07RandomProbe(r *rng.Rand) *c07Probe {
	if r.Intn(7) == 0 {
		return c07NonTestProbe(r)
	}
	n := c02Schema(r)
	pr := &c07Probe{node: n}
	switch r.Intn(6) {
	case 0:
		// JSON front end with json tags differing from the schema keys
		fo := gen.FrontOpts{MaxDepth: 2, MaxFields: 4}
		n = gen.RecordSchema(r, fo)
		addProbes(n)
		pr.node = n
		rec := gen.GenRecord(r, n, 50, fo)
		pr.front, pr.mode = "zjson", ref.Parse
		pr.data = gen.RecToJSON(n, rec)
		switch r.Intn(8) {
		case 0, 1:
			pr.data = pr.data.(string)[:len(pr.data.(string))/2] // invalid json: decode-error issue
		case 2:
			pr.data = "null" // decodes to nothing: decode-error issue created by the front end
		case 3:
			pr.data = "{}"
		}
		pr.desc = "zjson " + trunc(pr.data.(string), 200)
	case 1, 2:
		pr.mode = ref.Validate
		pr.val = gen.ValueTree(r, n, gen.InOpts{ValidPct: 35, AbsentPct: 30}, false)
		pr.desc = "Validate " + trunc(obs.Render(pr.val), 200)
	case 3:
		// a record schema parsed from a plain map: a stale source tag would change which keys are read
		fo := gen.FrontOpts{MaxDepth: 2, MaxFields: 4}
		n = gen.RecordSchema(r, fo)
		addProbes(n)
		pr.node = n
		rec := gen.GenRecord(r, n, 60, fo)
		pr.mode = ref.Parse
		pr.data = gen.RecToNested(n, rec, "", false)
		pr.desc = "Parse(map) " + trunc(obs.Render(obs.Norm(pr.data)), 200)
	default:
		pr.mode = ref.Parse
		pr.data = gen.ParseInput(r, n, gen.InOpts{ValidPct: 30, AbsentPct: 25, WrongPct: 25, AltRep: true})
		pr.desc = "Parse " + trunc(obs.Render(obs.Norm(pr.data)), 200)
	}
	if pr.node.Kind == spec.Pre && pr.mode == ref.Validate {
		pr.mode, pr.data = ref.Parse, "x"
	}
	switch r.Intn(4) {
	case 0:
		pr.opts = func() []z.ExecOption { return []z.ExecOption{z.WithCtxValue("k0", "probe-k0")} }
	case 1:
		pr.opts = func() []z.ExecOption {
			return []z.ExecOption{z.WithIssueFormatter(func(e *z.ZogIssue, c z.Ctx) { e.SetMessage("probe-fmt:" + e.Code) })}
		}
	}
	return pr
}

// c07Sentinel is an issue object owned by the application (returned by its transforms again and again).
var c07Sentinel = &z.ZogIssue{Code: "app_busy", Message: "the application's own issue"}

var collectNames = []string{"keep", "Collect(each)", "CollectList/CollectMap", "SanitizeAndCollect", "Collect(first only)"}

// historyCall performs one random prior call and optionally hands its result back to the pools.
func historyCall(r *rng.Rand) string {
	if r.Intn(12) == 0 {
		// a struct with a field keyed by the empty string (tag zog:""), visited in random order with its siblings
		n := structOf("blank", str(), "other", req(str()), "third", prim(spec.Int))
		n.Fields[0].Tags = map[string]string{"zog": ""}
		n.Number()
		o := run.Parse(spec.Build(n, &spec.Hooks{FieldOrder: permutedOrder(r)}), map[string]any{"": "v", "other": []any{"", "x"}[r.Intn(2)], "third": 3}, nil)
		return fmt.Sprintf("Parse of a struct with an empty-keyed field -> %d issues, keep", len(o.Issues))
	}
	if r.Intn(12) == 0 {
		// user code panics below the root and the caller recovers (as net/http does for handlers)
		in := structOf("name", &spec.Node{Kind: spec.String, Tests: []spec.Test{{Op: spec.TCustom, PredName: "panics", Pred: func(any) bool { panic("user callback panics") }}}})
		n := structOf("items", sliceOf(in), "other", str())
		n.Number()
		o := run.Parse(spec.Build(n, nil), map[string]any{"items": []any{map[string]any{"name": "x"}}, "other": "y"}, nil)
		return fmt.Sprintf("Parse whose user callback panicked below the root (recovered by the caller: %v)", o.Panicked)
	}
	if r.Intn(14) == 0 {
		// a transform reports with the caller's own issue object (a sentinel the application keeps), on a node that also has a
		// Catch value: the issue is swallowed; the object stays the caller's
		n := &spec.Node{Kind: spec.String, Mods: []spec.Mod{{Op: spec.MCatch, Val: "caught"}}, Posts: []spec.Post{{Name: "returns-own-issue", Fn: func(any) error { return c07Sentinel }}}}
		root := structOf("a", n, "b", str())
		root.Number()
		for i := 0; i < 2; i++ {
			run.Parse(spec.Build(root, nil), map[string]any{"a": "abc", "b": "x"}, nil)
		}
		// ... and a custom test of a catching node that files the caller's own issue object (swallowed by the catch)
		type ab struct{ A, B string }
		own := z.Struct(z.Schema{"a": z.String().Test(z.Test{Func: func(v any, ctx z.Ctx) { ctx.AddIssue(c07Sentinel) }}).Catch("caught"), "b": z.String()})
		for i := 0; i < 2; i++ {
			var d ab
			own.Parse(map[string]any{"a": "abc", "b": "x"}, &d)
		}
		return "2 x Parse with a PostTransform returning, and 2 x with a custom test filing, the caller's own *ZogIssue on a catching nod"
	}
	pr := c07RandomProbe(r)
	keys := []string{"k0", "k1", "k2", "lang", "user"}
	var opts []z.ExecOption
	for i := 0; i < r.Intn(3); i++ {
		opts = append(opts, z.WithCtxValue(keys[r.Intn(len(keys))], fmt.Sprintf("history-%d", r.Intn(1000))))
	}
	if r.Intn(4) == 0 {
		opts = append(opts, z.WithIssueFormatter(func(e *z.ZogIssue, c z.Ctx) { e.SetMessage("history-fmt") }))
	}
	hooks := &spec.Hooks{}
	if r.Intn(5) == 0 {
		// a post-transform error: issue from an unknown error
		pr.node.Walk(func(x *spec.Node) {
			if len(x.Posts) > 0 {
				x.Posts[0].Fn = func(any) error { return errors.New("history post error") }
			}
		})
	}
	b := spec.Build(pr.node, hooks)
	var o *run.Outcome
	switch {
	case pr.front == "zjson":
		o = run.Parse(b, zjson.Decode(strings.NewReader(pr.data.(string))), nil, opts...)
	case pr.mode == ref.Parse:
		o = run.Parse(b, pr.data, nil, opts...)
	default:
		o = run.Validate(b, pr.val, opts...)
	}
	how := r.Intn(len(collectNames))
	if o.Panicked {
		return "call panicked"
	}
	switch how {
	case 1:
		for _, l := range o.RawMap {
			for _, is := range l {
				_ = is
			}
		}
		if o.IsMap {
			// every issue once (the map lists the first issue twice: under $first and under its path)
			seen := map[*z.ZogIssue]bool{}
			for _, l := range o.RawMap {
				for _, is := range l {
					if !seen[is] {
						seen[is] = true
						z.Issues.Collect(is)
					}
				}
			}
		} else {
			for _, is := range o.RawList {
				z.Issues.Collect(is)
			}
		}
	case 2:
		if o.IsMap {
			z.Issues.CollectMap(o.RawMap)
		} else {
			z.Issues.CollectList(o.RawList)
		}
	case 3:
		if o.IsMap {
			_ = z.Issues.SanitizeMapAndCollect(o.RawMap)
		} else {
			_ = z.Issues.SanitizeListAndCollect(o.RawList)
		}
	case 4:
		if o.IsMap && len(o.RawMap["$first"]) == 1 {
			z.Issues.Collect(o.RawMap["$first"][0])
		} else if len(o.RawList) > 0 {
			z.Issues.Collect(o.RawList[0])
		}
	}
	return fmt.Sprintf("%s -> %d issues, %s", trunc(pr.desc, 80), len(o.Issues), collectNames[how])
}

func (c07) RunCase(c *core.Ctx) {
	if c.Case%97 == 23 && !w10(c, "C07") {
		return
	}
	// the collector is off only during the episode (it would empty the pools); between cases it bounds the memory
	debug.SetGCPercent(-1)
	defer debug.SetGCPercent(100)
	if c.Case%16 == 15 {
		c07ReusedProvider(c)
		return
	}
	if c.Case%64 == 14 {
		c07LiveLanguages(c)
		return
	}
	if c.Case%16 == 13 {
		c07KeptLists(c)
		return
	}
	if c.Case%64 == 46 {
		c07OddShapes(c)
		return
	}
	if c.Case%64 == 44 {
		c07Carry(c)
		return
	}
	if c.Case%32 == 11 {
		// the same call twice, the caller editing its first result in between: the second result does not depend on that
		name, problem := dDefaultsIndependent(c.R)
		c.Eval(2)
		if problem != "" {
			c.Violation("execution-not-isolated|result-depends-on-what-an-earlier-caller-did-to-its-result", map[string]any{"schema": name, "observed": problem})
			return
		}
		c.NonTrivial(fpf("defaults|%s|%d", name, c.Case))
		return
	}
	switch c.Case % 3 {
	case 0:
		c07History(c)
	case 1:
		c07Prefill(c)
	default:
		c07Hygiene(c)
	}
}

// c07OddShapes: executions over less common shapes - a schema key that names an embedded struct itself, a callback that panics below
// a struct or a slice (recovered by the caller), a struct keyed by the empty string - followed by plain executions whose results are
// known: their paths, issues and destinations are the ones they have when run first thing in a process.
type C07Audit struct{ CreatedBy string }
type c07Doc struct {
	C07Audit
	Title string
	Body  string
}

func c07OddShapes(c *core.Ctx) {
	docSchema := z.Struct(z.Schema{"C07Audit": z.Struct(z.Schema{"createdBy": z.String().Required()}), "title": z.String().Required(), "body": z.String().Required()})
	panicking := z.Struct(z.Schema{"address": z.Struct(z.Schema{"zip": z.String().TestFunc(func(any, z.Ctx) bool { panic("callback bug") })}), "lines": z.Slice(z.String().TestFunc(func(v any, _ z.Ctx) bool {
		if v.(string) == "boom" {
			panic("callback bug")
		}
		return true
	}))})
	type login struct{ User, Pass string }
	loginSchema := z.Struct(z.Schema{"user": z.String().Min(3), "pass": z.String().Min(8)})
	probe := func() string {
		var n int
		var l login
		var tags []string
		a := z.Int().GT(0).Parse(-1, &n)
		b := loginSchema.Parse(map[string]any{"user": "a", "pass": "b"}, &l)
		lv := login{User: "a", Pass: "long enough"}
		b2 := loginSchema.Validate(&lv)
		d := z.Slice(z.String().Min(2)).Parse([]any{"ok", "x"}, &tags)
		// a callback that looks up context values nobody passed to this call (under the empty key too)
		var seen []any
		var s0 string
		z.String().TestFunc(func(v any, ctx z.Ctx) bool {
			seen = append(seen, ctx.Get(""), ctx.Get("lang"), ctx.Get("tenant"))
			return true
		}).Parse("x", &s0)
		for _, x := range seen {
			if x != nil {
				return fmt.Sprintf("a call without context values saw ctx.Get(\"\"), ctx.Get(lang), ctx.Get(tenant) = %v", seen)
			}
		}
		all1, _ := obs.CanonMap(b)
		all2, _ := obs.CanonMap(b2)
		all3, _ := obs.CanonMap(d)
		f := func(ci obs.CI) string { return ci.Key + "|" + ci.Path + "|" + ci.Code }
		return obs.Multiset(obs.CanonList(a), f) + " / " + obs.Multiset(all1, f) + " / " + obs.Multiset(all2, f) + " / " + obs.Multiset(all3, f)
	}
	// key|path|code of every issue, known in advance (not taken from a first run in this process, which may already follow such executions)
	const want = "||gt / pass|pass|min\nuser|user|min / user|user|min / [1]|[1]|min"
	for round := 0; round < 12; round++ {
		var what string
		switch c.R.Intn(7) {
		case 4:
			what = "Parse with context values (lang, tenant)"
			var s1 string
			z.String().Min(5).Parse("ab", &s1, z.WithCtxValue("lang", "es"), z.WithCtxValue("tenant", "t1"))
		case 5:
			what = "Validate of a struct holding an empty list whose Default is an empty, non-nil list"
			var v struct {
				L []string
				M [][]string
				Z string
				Y string
			}
			z.Struct(z.Schema{"l": z.Slice(z.String()).Default([]string{}), "m": z.Slice(z.Slice(z.String()).Default([]string{})), "z": z.String().Required(), "y": z.String().Required()}).Validate(&v)
			v.M = [][]string{nil, {"a"}}
			z.Struct(z.Schema{"l": z.Slice(z.String()).Default([]string{}), "m": z.Slice(z.Slice(z.String().Min(3)).Default([]string{})), "z": z.String().Required(), "y": z.String().Required()}).Validate(&v)
		case 6:
			what = "a JSON request parsed with the shipped parser, before the application installs its own"
			r := httptest.NewRequest("POST", "/", strings.NewReader(`{"user":"abc","pass":"12345678"}`))
			r.Header.Set("Content-Type", "application/json")
			var l login
			loginSchema.Parse(zhttp.Request(r), &l)
		case 0:
			what = "Validate of a zero struct through a schema key that names its embedded struct"
			var d c07Doc
			docSchema.Validate(&d)
		case 1:
			what = "Parse through a schema key that names the destination's embedded struct"
			var d c07Doc
			docSchema.Parse(map[string]any{"C07Audit": map[string]any{}, "title": "t"}, &d)
		case 2:
			what = "Parse whose TestFunc panics below a nested struct (recovered by the caller)"
			func() {
				defer func() { _ = recover() }()
				var d struct {
					Address struct{ Zip string }
					Lines   []string
				}
				panicking.Parse(map[string]any{"address": map[string]any{"zip": "1"}}, &d)
			}()
		default:
			what = "Parse whose TestFunc panics at a slice element (recovered by the caller)"
			func() {
				defer func() { _ = recover() }()
				var d struct {
					Address struct{ Zip string }
					Lines   []string
				}
				panicking.Parse(map[string]any{"lines": []any{"a", "boom"}}, &d)
			}()
		}
		c.Eval(5)
		// "the global configuration at that moment": a body parser installed now is used by the next request
		savedJSON := zhttp.Config.Parsers.JSON
		used := 0
		zhttp.Config.Parsers.JSON = func(r *http.Request) p.DpFactory { used++; return savedJSON(r) }
		rq := httptest.NewRequest("POST", "/", strings.NewReader(`{"user":"abc","pass":"12345678"}`))
		rq.Header.Set("Content-Type", "application/json")
		var lg login
		loginSchema.Parse(zhttp.Request(rq), &lg)
		zhttp.Config.Parsers.JSON = savedJSON
		if used != 1 || lg.User != "abc" {
			c.Violation("execution-not-isolated|configuration-of-an-earlier-moment", map[string]any{"earlier_execution": what, "observed": fmt.Sprintf("zhttp.Config.Parsers.JSON was replaced before this request; the replacement was used %d time(s), destination %+v", used, lg)})
			return
		}
		for k := 0; k < 3; k++ {
			if got := probe(); got != want {
				c.Violation("execution-not-isolated|after-an-unusual-execution", map[string]any{"earlier_execution": what, "later_executions": "Int().GT(0).Parse(-1); {user: Min(3), pass: Min(8)}.Parse / .Validate; Slice(String().Min(2)).Parse([ok, x])", "results_when_run_first": want, "results_now": got})
				return
			}
		}
		c.NonTrivial(fpf("odd|%s|%d", what, round))
	}
	c.Count("odd_shape_histories", 1)
}

// c07Carry: three ways an earlier call could reach into a later one. (a) a custom test that puts the application's own params map on
// its issue; the result is handed to Collect; a built-in test fails elsewhere; the custom test fails again: its params are still the
// application's. (b) an execution formatter that declines to word some issue: whatever text that issue gets, it is not the text of a
// global formatter that is no longer installed. (c) the same memory validated first as a field of a larger value, then on its own:
// the paths are those of the call at hand.
func c07Carry(c *core.Ctx) {
	mine := map[string]any{"list": "denylist-7"}
	custom := z.String().Test(z.Test{Func: func(v any, ctx z.Ctx) {
		ctx.AddIssue(ctx.Issue().SetCode("denied").SetMessage("denied").SetParams(mine))
	}})
	for round := 0; round < 4; round++ {
		var s string
		l := custom.Parse("x", &s)
		c.Eval(3)
		if len(l) != 1 || fmt.Sprint(l[0].Params) != "map[list:denylist-7]" || fmt.Sprint(mine) != "map[list:denylist-7]" {
			c.Violation("execution-not-isolated|params-of-a-custom-issue", map[string]any{"round": round, "issue_params": fmt.Sprint(l[0].Params), "the_applications_map": fmt.Sprint(mine), "want": "map[list:denylist-7] both", "history": "custom issue with SetParams(the application's map) -> Issues.CollectList -> String().Min(5) / OneOf failing -> the custom test again"})
			return
		}
		z.Issues.CollectList(l)
		var t string
		z.Issues.CollectList(z.String().Min(5).OneOf([]string{"alpha", "bravo"}).Parse("ab", &t))
		var n int
		z.Int().GT(9).Parse(1, &n)
	}
	saved := conf.IssueFormatter
	defer func() { conf.IssueFormatter = saved }()
	decline := z.WithIssueFormatter(func(e *z.ZogIssue, ctx z.Ctx) {
		if e.Code == "email" {
			e.SetMessage("worded by the execution formatter")
		}
	})
	textUnder := func(opts ...z.ExecOption) string {
		var s string
		l := z.String().Min(5).Parse("ab", &s, opts...)
		if len(l) != 1 {
			return fmt.Sprintf("%d issues", len(l))
		}
		return l[0].Message
	}
	i18n.SetLanguagesErrsMap(map[string]zconst.LangMap{"en": en.Map, "es": es.Map}, "en")
	enText, declinedEn := textUnder(), textUnder(decline)
	i18n.SetLanguagesErrsMap(map[string]zconst.LangMap{"en": en.Map, "es": es.Map}, "es")
	esText, declinedEs := textUnder(), textUnder(decline)
	conf.IssueFormatter = saved
	c.Eval(4)
	if enText == esText || (declinedEs != "" && declinedEs != esText) || (declinedEn != "" && declinedEn != enText) {
		c.Violation("execution-not-isolated|configuration-of-an-earlier-moment", map[string]any{"global_formatter_english": enText, "global_formatter_spanish": esText, "execution_formatter_declining_under_english": declinedEn, "execution_formatter_declining_under_spanish": declinedEs, "want": "the declined issue is left without text or gets the text of the global formatter installed at that moment"})
		return
	}
	type article struct {
		Title string
		Tags  []string
		Inner struct{ Note string }
	}
	artSchema := z.Struct(z.Schema{"title": z.String().Required(), "tags": z.Slice(z.String().Min(3)), "inner": z.Struct(z.Schema{"note": z.String().Min(3)})})
	tagsSchema := z.Slice(z.String().Min(3))
	innerSchema := z.Struct(z.Schema{"note": z.String().Min(3)})
	a := article{Title: "t", Tags: []string{"long enough", "x"}}
	a.Inner.Note = "n"
	for round := 0; round < 5; round++ {
		k1 := dKeys(artSchema.Validate(&a))
		k2 := dKeys(tagsSchema.Validate(&a.Tags))
		k3 := dKeys(innerSchema.Validate(&a.Inner))
		k4 := dKeys(tagsSchema.Validate(&a.Tags))
		c.Eval(4)
		if k1 != "inner.note, tags[1]" || k2 != "[1]" || k3 != "note" || k4 != "[1]" {
			c.Violation("execution-not-isolated|paths-of-an-earlier-call", map[string]any{"round": round, "Validate(&article)": k1, "Validate(&article.Tags)": k2, "Validate(&article.Inner)": k3, "Validate(&article.Tags) again": k4, "want": "inner.note, tags[1] / [1] / note / [1]"})
			return
		}
	}
	// (d) a message is built from the params and value of its own issue, also when printing that value runs another execution
	outerL := []c07Printer{{"a"}, {"b"}}
	mo := z.Slice(z.CustomFunc(func(p *c07Printer, ctx z.Ctx) bool { return true })).Min(3).Validate(&outerL)
	c.Eval(1)
	if len(mo["$root"]) != 1 || mo["$root"][0].Message != "slice must contain at least 3 items" {
		c.Violation("execution-not-isolated|message-built-during-a-nested-execution", map[string]any{"schema": "Slice(custom Printer).Min(3) validating two Printers whose String() method validates another list with Min(9)", "message": fmt.Sprint(z.Issues.SanitizeMap(mo)), "want": "slice must contain at least 3 items"})
		return
	}
	// (e) the application's own sentinel issue (code, type and message set, no path) returned by transforms of fields of different
	// schemas: each call files it under its root, none leaves its path behind in the object
	sentinel := &z.ZogIssue{Code: "taken", Dtype: "string", Message: "already taken"}
	retS := func(any, z.Ctx) error { return sentinel }
	for round := 0; round < 3; round++ {
		for _, key := range []string{"alias", "nick", "login"} {
			d := map[string]*string{}
			_ = d
			var dst struct{ Alias, Nick, Login string }
			m := z.Struct(z.Schema{key: z.String().PostTransform(retS)}).Parse(map[string]any{key: "x"}, &dst)
			c.Eval(1)
			if len(m["$root"]) != 1 || len(m) != 2 || sentinel.Path != "" {
				c.Violation("execution-not-isolated|path-left-in-the-applications-issue-object", map[string]any{"schema": "{" + key + ": String().PostTransform(returns the sentinel)}", "issue_keys": dKeys(m), "sentinel_path_now": sentinel.Path, "want": "$root, sentinel untouched"})
				return
			}
		}
	}
	// (f) a context value set once is gone for good: not after one call, not after 70 000 (run a few times per check)
	if c.Case < 64*3 {
		var s0 string
		z.String().Parse("x", &s0, z.WithCtxValue("tenant", "acme"))
		leaked := -1
		probe := z.String().TestFunc(func(v any, ctx z.Ctx) bool { return ctx.Get("tenant") == nil })
		for i := 0; i < 70000 && leaked < 0; i++ {
			if l := probe.Parse("x", &s0); len(l) != 0 {
				leaked = i
			}
		}
		c.Eval(70000)
		if leaked >= 0 {
			c.Violation("execution-not-isolated|context-value-reappears", map[string]any{"history": "one call with WithCtxValue(tenant, acme), then calls without context values", "call_that_saw_the_value_again": leaked + 1})
			return
		}
	}
	c.NonTrivial(fpf("carry|%d", c.Case))
	c.Count("carry_histories", 1)
}

type c07Printer struct{ Name string }

func (p c07Printer) String() string {
	inner := []string{"x"}
	z.Slice(z.String()).Min(9).Validate(&inner)
	return "printer " + p.Name
}

// c07LiveLanguages: "the global configuration at that moment": the language maps handed to i18n are read when an issue is formatted,
// so replacing a language's map takes effect for the next execution whether or not that language was used before.
func c07LiveLanguages(c *core.Ctx) {
	saved := conf.IssueFormatter
	defer func() { conf.IssueFormatter = saved }()
	clone := func(m zconst.LangMap, mark string) zconst.LangMap {
		out := zconst.LangMap{}
		for t, codes := range m {
			out[t] = map[zconst.ZogIssueCode]string{}
			for code, msg := range codes {
				out[t][code] = mark + msg
			}
		}
		return out
	}
	langs := map[string]zconst.LangMap{"en": clone(en.Map, "v1:"), "es": clone(es.Map, "v1:")}
	i18n.SetLanguagesErrsMap(langs, "en")
	var s string
	msg := func(lang string) string {
		l := z.String().Min(5).Parse("ab", &s, z.WithCtxValue("lang", lang))
		if len(l) != 1 {
			return fmt.Sprintf("%d issues", len(l))
		}
		return l[0].Message
	}
	used := []string{"es", "en"}[c.R.Intn(2)]
	first := msg(used)
	for round := 2; round <= 4; round++ {
		mark := fmt.Sprintf("v%d:", round)
		langs["es"], langs["en"] = clone(es.Map, mark), clone(en.Map, mark)
		for _, lang := range []string{"es", "en"} {
			got := msg(lang)
			c.Eval(1)
			if !strings.HasPrefix(got, mark) {
				c.Violation("execution-not-isolated|stale-language-configuration", map[string]any{"language": lang, "language_used_before_the_maps_were_replaced": used, "first_message": first,
					"message_after_replacing_the_language_maps": got, "want_prefix": mark})
				return
			}
		}
	}
	c.Count("live_language_rounds", 3)
	c.NonTrivial(fpf("livelang|%s|%d", used, c.Case))
	// the same for the default formatter and its message map (conf.DefaultIssueMessageMap): an entry edited between two calls is
	// what the next call uses, whether or not an issue with that type and code was formatted before
	conf.IssueFormatter = saved
	dm := conf.DefaultIssueMessageMap
	type key struct {
		t zconst.ZogType
		c zconst.ZogIssueCode
	}
	edits := []key{{zconst.TypeString, zconst.IssueCodeRequired}, {zconst.TypeString, zconst.IssueCodeEmail}, {zconst.TypeNumber, zconst.IssueCodeFallback}, {zconst.TypeString, zconst.IssueCodeMin}}
	orig := map[key]string{}
	for _, k := range edits {
		orig[k] = dm[k.t][k.c]
	}
	defer func() {
		for k, v := range orig {
			dm[k.t][k.c] = v
		}
	}()
	one := func(k key) string {
		var n int
		var l z.ZogIssueList
		switch k.c {
		case zconst.IssueCodeRequired:
			l = z.String().Required().Parse("", &s)
		case zconst.IssueCodeEmail:
			l = z.String().Email().Parse("not an address", &s)
		case zconst.IssueCodeMin:
			l = z.String().Min(5).Parse("ab", &s)
		default:
			l = z.Int().Parse("not a number", &n)
		}
		if len(l) != 1 {
			return fmt.Sprintf("%d issues", len(l))
		}
		return l[0].Message
	}
	for _, k := range edits {
		if c.R.Bool() {
			one(k) // used before the edit, or not
		}
	}
	for round := 1; round <= 2; round++ {
		for _, k := range edits {
			dm[k.t][k.c] = fmt.Sprintf("edit%d: %s", round, orig[k])
		}
		for _, k := range edits {
			got := one(k)
			c.Eval(1)
			if !strings.HasPrefix(got, fmt.Sprintf("edit%d: ", round)) {
				c.Violation("execution-not-isolated|stale-message-configuration", map[string]any{"type": string(k.t), "code": string(k.c), "message_map_entry_now": dm[k.t][k.c], "message_of_the_call": got})
				return
			}
		}
	}
}

// c07KeptLists: issue lists of primitive schemas that the caller still holds are not touched by later executions, and handing
// them back afterwards leaves the library as clean as fresh pools (a following execution with three issues reports those three).
func c07KeptLists(c *core.Ctx) {
	installCountingPools(&poolCounters{})
	var s string
	var n int
	three := func() string {
		l := z.String().Min(5).Email().HasPrefix("zz").Parse("ab", &s)
		return obs.Multiset(obs.CanonList(l), func(ci obs.CI) string { return ci.Full() })
	}
	want := three()
	installCountingPools(&poolCounters{})
	fp := func(l z.ZogIssueList) string {
		var sb strings.Builder
		for _, is := range l {
			fmt.Fprintf(&sb, "%s|%s|%s|%s;", is.Path, is.Code, is.Dtype, is.Message)
		}
		return sb.String()
	}
	var kept []z.ZogIssueList
	var prints []string
	k := c.R.Range(2, 5)
	for i := 0; i < k; i++ {
		var l z.ZogIssueList
		switch c.R.Intn(4) {
		case 0:
			l = z.String().Min(5).Email().Parse("ab", &s)
		case 1:
			l = z.Int().GT(10).Parse(3, &n)
		case 2:
			l = z.String().Required().Parse("", &s)
		default:
			l = z.Int().Parse("not a number", &n)
		}
		kept, prints = append(kept, l), append(prints, fp(l))
		for j := range kept {
			if now := fp(kept[j]); now != prints[j] {
				c.Violation("execution-not-isolated|earlier-result-changed-by-a-later-execution", map[string]any{"result_number": j + 1, "when_returned": prints[j], "after_later_executions": now, "executions_so_far": i + 1})
				return
			}
		}
	}
	c.Eval(k)
	for _, l := range kept {
		z.Issues.CollectList(l)
	}
	if got := three(); got != want {
		c.Violation("execution-not-isolated|after-collecting-kept-lists", map[string]any{"kept_lists": prints, "result_on_fresh_pools": want, "result_after_collecting_them": got})
		return
	}
	c.Count("kept_list_rounds", 1)
	c.NonTrivial(fpf("keptlists|%v", prints))
}

// c07ReusedProvider: a data provider object that the caller keeps and hands to several calls (zenv.NewDataProvider) is part of
// each call's data only through what it presents at that moment: a call with the kept provider must equal the same call with a
// fresh provider in the same environment, whatever earlier calls read through it.
func c07ReusedProvider(c *core.Ctx) {
	type Inner struct {
		Host string `env:"C07_HOST"`
	}
	type Cfg struct {
		Port int    `env:"C07_PORT"`
		Name string `env:"C07_NAME"`
		Rate float64
		In   Inner
	}
	sch := z.Struct(z.Schema{"port": z.Int().GT(0).Required(), "name": z.String().Min(2).Default("dflt"), "rate": z.Float64().Optional(),
		"in": z.Struct(z.Schema{"host": z.String().Required()})})
	keys := []string{"C07_PORT", "C07_NAME", "rate", "C07_HOST"}
	vals := [][]string{{"", "8080", "9500", " 7 ", "x", "-1"}, {"", "svc", "a", "  padded  "}, {"", "0.5", "2", "abc"}, {"", "h1", "h2"}}
	defer func() {
		for _, k := range keys {
			os.Unsetenv(k)
		}
	}()
	kept := zenv.NewDataProvider()
	render := func(m z.ZogIssueMap, d Cfg) string {
		all, _ := obs.CanonMap(m)
		return fmt.Sprintf("%+v | %s", d, obs.Multiset(all, func(ci obs.CI) string { return ci.Full() }))
	}
	var hist []string
	for round := 0; round < 6; round++ {
		for i, k := range keys {
			v := vals[i][c.R.Intn(len(vals[i]))]
			if v == "" && c.R.Bool() {
				os.Unsetenv(k)
			} else {
				os.Setenv(k, v)
			}
			hist = append(hist, fmt.Sprintf("%s=%q", k, v))
		}
		var d1, d2 Cfg
		got := render(sch.Parse(kept, &d1), d1)
		want := render(sch.Parse(zenv.NewDataProvider(), &d2), d2)
		c.Eval(2)
		if got != want {
			c.Violation("execution-not-isolated|kept-data-provider", map[string]any{"environment_history": hist, "round": round,
				"result_with_provider_kept_from_earlier_calls": got, "result_with_fresh_provider": want})
			return
		}
		hist = append(hist, "-- parse --")
	}
	c.Count("kept_provider_rounds", 6)
	c.NonTrivial(fpf("kept|%v", hist))
}

func compareProbe(c *core.Ctx, what string, pr *c07Probe, base, got probeResult, detail map[string]any) bool {
	if base.panic != "" {
		return true // the probe panics on its own: C06's concern, not judged here
	}
	if got.panic != "" {
		detail["probe"] = pr.desc
		detail["schema"] = pr.node.Source()
		detail["panic"] = trunc(got.panic, 1500)
		c.Violation("probe-panics-only-after-"+what, detail)
		return false
	}
	if base.text != got.text {
		detail["probe"] = pr.desc
		detail["schema"] = pr.node.Source()
		detail["result_on_fresh_pools"] = base.text
		detail["result_after_"+what] = got.text
		cls := "other"
		bl, gl := strings.Split(base.text, "\n"), strings.Split(got.text, "\n")
		for i := range bl {
			if i < len(gl) && bl[i] != gl[i] {
				switch {
				case strings.HasPrefix(bl[i], "ctx="):
					cls = "context-values"
				case strings.HasPrefix(bl[i], "dest="):
					cls = "destination"
				case strings.HasPrefix(bl[i], "nil="):
					cls = "nil-ness"
				default:
					cls = "issues"
				}
				break
			}
		}
		c.Violation("execution-not-isolated|"+what+"|"+cls, detail)
		return false
	}
	return true
}

func c07History(c *core.Ctx) {
	r := c.R
	if c.Case%150 == 0 {
		if sig, det := sameNamedTypesCheck(c.R); sig != "" {
			c.Violation(sig, det)
			return
		}
		c.Eval(48)
		c.Count("same_named_destination_type_rounds", 1)
	}
	probeSeed := r.Fork()
	pr := c07RandomProbe(probeSeed)
	pc := &poolCounters{}
	installCountingPools(pc)
	base := runProbe(pr)
	c.Eval(1)
	// now the history, on fresh pools again
	pc2 := &poolCounters{}
	installCountingPools(pc2)
	n := r.Range(1, 30)
	if c.Tier == core.Quick && n > 12 {
		n = r.Range(1, 12)
	}
	var hist []string
	for i := 0; i < n; i++ {
		hist = append(hist, historyCall(r))
	}
	c.Eval(n)
	missesBefore := pc2.total()
	got := runProbe(pr)
	c.Eval(1)
	hits := pc.total() - (pc2.total() - missesBefore) // objects the probe did NOT have to allocate
	if !compareProbe(c, "history", pr, base, got, map[string]any{"history": hist}) {
		return
	}
	c.Count("pool_hits_by_probes", hits)
	if hits > 0 && (got.issues > 0 || got.ctxGet > 0) {
		c.NonTrivial(fpf("hist|%d|%s|%s", n, pr.node.Source(), pr.desc))
		if c.WantSample() {
			c.Sample(map[string]any{"monitor": "history differential", "history": hist, "probe": pr.desc, "probe_schema": pr.node.Source(), "pool_hits_of_probe": hits, "probe_issues": got.issues})
		}
	} else if hits == 0 {
		c.Count("episodes_without_pool_hits", 1)
	}
}

// ---- dirty prefill ----

var dirtyFields = []string{"all", "ExecCtx.values", "ExecCtx.Fmter", "ExecCtx.Errors", "ExecCtx.SourceTag", "SchemaCtx.CanCatch", "SchemaCtx.Exit", "SchemaCtx.HasCaught", "SchemaCtx.Data/ValPtr/DType/Test", "SchemaCtx.Path", "SchemaCtx.ExecCtx",
	"ZogIssue.Code", "ZogIssue.Path", "ZogIssue.Value", "ZogIssue.Dtype", "ZogIssue.Params", "ZogIssue.Message", "ZogIssue.Err", "ErrsList.List", "ErrsMap.M", "PathBuilder.tail", "StringBuilder.content"}

func prefillDirty(which string) {
	all := which == "all"
	on := func(f string) bool { return all || which == f }
	staleTag := "json"
	staleIssue := &p.ZogIssue{Code: "stale_code", Path: "stale.path", Message: "stale message"}
	staleList := &p.ErrsList{List: p.ZogIssueList{staleIssue}}
	staleExec := &p.ExecCtx{}
	for i := 0; i < 3; i++ {
		e := &p.ExecCtx{}
		if on("ExecCtx.values") {
			e.Set("k0", "stale-k0")
			e.Set("lang", "es")
			e.Set("user", "stale-user")
		}
		if on("ExecCtx.Fmter") {
			e.Fmter = func(is *p.ZogIssue, c p.Ctx) { is.SetMessage("stale formatter") }
		}
		if on("ExecCtx.Errors") {
			e.Errors = staleList
		}
		if on("ExecCtx.SourceTag") {
			e.SourceTag = &staleTag
		}
		p.ExecCtxPool.Put(e)
	}
	for i := 0; i < 10; i++ {
		s := &p.SchemaCtx{}
		if on("SchemaCtx.CanCatch") {
			s.CanCatch = true
		}
		if on("SchemaCtx.Exit") {
			s.Exit = true
		}
		if on("SchemaCtx.HasCaught") {
			// the field is unused by the library today: set it through reflection so that removing it does not break the harness
			if f := reflect.ValueOf(s).Elem().FieldByName("HasCaught"); f.IsValid() && f.CanSet() {
				f.SetBool(true)
			}
		}
		if on("SchemaCtx.Data/ValPtr/DType/Test") {
			v := "stale"
			s.Data, s.ValPtr, s.DType, s.Test = "stale data", &v, "stale_type", &p.Test{IssueCode: "stale_test"}
		}
		if on("SchemaCtx.Path") {
			pb := p.PathBuilder{"", "stale", "path"}
			s.Path = &pb
		}
		if on("SchemaCtx.ExecCtx") {
			s.ExecCtx = staleExec
		}
		p.SchemaCtxPool.Put(s)
	}
	for i := 0; i < 14; i++ {
		is := &p.ZogIssue{}
		if on("ZogIssue.Code") {
			is.Code = "stale_code"
		}
		if on("ZogIssue.Path") {
			is.Path = "stale.path"
		}
		if on("ZogIssue.Value") {
			is.Value = "stale value"
		}
		if on("ZogIssue.Dtype") {
			is.Dtype = "stale_type"
		}
		if on("ZogIssue.Params") {
			is.Params = map[string]any{"stale": i}
		}
		if on("ZogIssue.Message") {
			is.Message = "stale message"
		}
		if on("ZogIssue.Err") {
			is.Err = errors.New("stale error")
		}
		p.ZogIssuePool.Put(is)
	}
	if on("ErrsList.List") {
		for i := 0; i < 2; i++ {
			p.InternalIssueListPool.Put(&p.ErrsList{List: p.ZogIssueList{staleIssue}})
		}
	}
	if on("ErrsMap.M") {
		for i := 0; i < 2; i++ {
			p.InternalIssueMapPool.Put(&p.ErrsMap{M: p.ZogIssueMap{"$first": {staleIssue}, "stale": {staleIssue}}})
		}
	}
	if on("PathBuilder.tail") {
		for i := 0; i < 2; i++ {
			pb := p.PathBuilder{"", "stale", "tail"} // element 0 is always "" in the library
			p.PathBuilderPool.Put(&pb)
		}
	}
	if on("StringBuilder.content") {
		for i := 0; i < 3; i++ {
			sb := &strings.Builder{}
			sb.WriteString("stale content")
			p.StringBuilderPool.Put(sb)
		}
	}
}

func c07Prefill(c *core.Ctx) {
	r := c.R
	pr := c07RandomProbe(r.Fork())
	which := dirtyFields[(c.Case/3)%len(dirtyFields)]
	pc := &poolCounters{}
	installCountingPools(pc)
	base := runProbe(pr)
	pc2 := &poolCounters{}
	installCountingPools(pc2)
	prefillDirty(which)
	got := runProbe(pr)
	c.Eval(2)
	hits := pc.total() - pc2.total()
	if !compareProbe(c, "dirty-pool", pr, base, got, map[string]any{"dirty_state": which}) {
		return
	}
	c.Count("pool_hits_by_probes", hits)
	c.Distinct("dirty_states", which)
	if hits > 0 && (got.issues > 0 || got.ctxGet > 0) {
		c.NonTrivial(fpf("dirty|%s|%s|%s", which, pr.node.Source(), pr.desc))
		if c.WantSample() && c.Case%7 == 1 {
			c.Sample(map[string]any{"monitor": "dirty-pool prefill", "dirty_state": which, "probe": pr.desc, "probe_schema": pr.node.Source(), "pool_hits_of_probe": hits})
		}
	}
}

// ---- pool hygiene ----

func c07Hygiene(c *core.Ctx) {
	r := c.R
	pc := &poolCounters{}
	installCountingPools(pc)
	n := r.Range(1, 10)
	var hist []string
	for i := 0; i < n; i++ {
		hist = append(hist, historyCall(r))
	}
	c.Eval(n)
	// drain the issue pool: Get until New fires
	var drained []*p.ZogIssue
	seen := map[*p.ZogIssue]int{}
	for {
		before := pc.misses[4]
		is := p.ZogIssuePool.Get().(*p.ZogIssue)
		if pc.misses[4] != before {
			break
		}
		drained = append(drained, is)
		seen[is]++
		if len(drained) > 10000 {
			break
		}
	}
	dups := 0
	for _, k := range seen {
		if k > 1 {
			dups++
		}
	}
	c.Count("issues_drained_from_pool", len(drained))
	if dups == 0 {
		c.Count("quiescent_points_clean", 1)
		if len(drained) > 0 {
			c.NonTrivial(fpf("hyg|%d|%d", n, len(drained)))
		}
		return
	}
	// targeted probe: >= 2 issues on exactly this pool state
	c.Count("quiescent_points_with_duplicate_pointer", 1)
	type D struct{ A, B, C string }
	sch := z.Struct(z.Schema{"a": z.String().Required(), "b": z.String().Required(), "c": z.String().Min(5)})
	fresh := func() string {
		var d D
		m := sch.Parse(map[string]any{"c": "x"}, &d)
		all, _ := obs.CanonMap(m)
		return obs.Multiset(all, func(ci obs.CI) string { return ci.Full() })
	}
	installCountingPools(&poolCounters{})
	want := fresh()
	installCountingPools(&poolCounters{})
	for i := len(drained) - 1; i >= 0; i-- {
		p.ZogIssuePool.Put(drained[i])
	}
	got := fresh()
	c.Eval(2)
	if want != got {
		c.Violation("execution-not-isolated|pool-holds-an-issue-twice", map[string]any{"history": hist, "what": "after this history the issue pool hands out the same issue object twice; a following call with several issues then reports one of them under the wrong key", "result_on_fresh_pools": want, "result_on_this_pool_state": got})
		return
	}
	c.NonTrivial(fpf("hyg-dup|%d|%d", n, len(drained)))
}
