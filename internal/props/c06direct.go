package props

import (
	"fmt"
	"math"
	"reflect"
	"time"

	z "github.com/Oudwins/zog"
	zinternals "github.com/Oudwins/zog/internals"

	"zogverif/internal/core"
	"zogverif/internal/gen"
	"zogverif/internal/obs"
	"zogverif/internal/ref"
)

// Schemas the spec AST cannot express (custom schemas over arrays, interfaces, maps, structs with interface fields; membership
// tests with values of such types), built directly on the real API. Each one gets its own inputs plus every hostile value,
// at four placements. Destination types always match the schema.

type c06Payload struct {
	Name string
	Data any
}

type c06Box[T any] struct{ V T }

type c06direct struct {
	name string
	own  []any
	run  func(place int, data any)
}

var c06Places = []string{"top-level", "struct-field", "slice-element", "behind-pointer"}

func mkDirect[T any](name string, mk func() z.ZogSchema, own ...any) c06direct {
	return c06direct{name: name, own: own, run: func(place int, data any) {
		s := mk()
		switch place {
		case 0:
			dv := reflect.ValueOf(&data).Elem()
			reflect.ValueOf(s).MethodByName("Parse").Call([]reflect.Value{dv, reflect.ValueOf(new(T))})
		case 1:
			var d c06Box[T]
			z.Struct(z.Schema{"v": s}).Parse(map[string]any{"v": data}, &d)
		case 2:
			var d []T
			z.Slice(s).Parse([]any{data, data}, &d)
		case 3:
			var d *T
			z.Ptr(s).Parse(data, &d)
		}
	}}
}

func yes[T any]() z.ZogSchema { return z.CustomFunc[T](func(*T, z.Ctx) bool { return true }) }

// URL-looking strings of every shape (the labelled pool of the reference plus degenerate authorities)
var c06URLs = func() []any {
	var out []any
	for _, k := range ref.URLPoolKeys() {
		out = append(out, k)
	}
	return append(out, "http://:", "http://@", "http://[", "http://]", "http://[::1", "http://a:b:c", "http://%41", "x://", "x:", ":", "#", "?", "http://h:99999999999", "http://\x00", "http://[fe80::1%25en0]/")
}()

var c06Directs = func() []c06direct {
	p1 := c06Payload{Name: "a", Data: []any{1}}
	pm := c06Payload{Name: "m", Data: map[string]any{"k": 1}}
	t := gen.BaseTime
	full := make([]byte, 16)
	return []c06direct{
		mkDirect[[16]byte]("CustomFunc[[16]byte]", yes[[16]byte], []byte{}, []byte(nil), []byte("short"), full, make([]byte, 20), [16]byte{}, [4]byte{}, []int{1, 2}, []any{byte(1)}, "0123456789abcdef", &[16]byte{}, []uint8{1}, []int8{1}),
		mkDirect[[3]int]("CustomFunc[[3]int]", yes[[3]int], []int{}, []int(nil), []int{1}, []int{1, 2, 3}, []int{1, 2, 3, 4}, []int64{1}, []any{1, 2, 3}, [3]int{}, [2]int{}, gen.NamedSlice{1}),
		mkDirect[[0]string]("CustomFunc[[0]string]", yes[[0]string], []string{}, []string(nil), []string{"a"}, [0]string{}),
		mkDirect[[]c06Payload]("Slice(CustomFunc[payload]).Contains(payload{slice in interface field})", func() z.ZogSchema { return z.Slice(yes[c06Payload]()).Contains(p1) },
			[]any{c06Payload{"a", []any{2}}}, []c06Payload{{"a", []any{1}}}, []any{c06Payload{"a", []any{1}}, c06Payload{"b", nil}}, []c06Payload{{"a", map[string]any{}}}, []any{c06Payload{"a", func() {}}}, []any{c06Payload{"z", []any{1}}}, []any{p1, "x"}, []any{c06Payload{"a", 5}}, []any{c06Payload{"a", math.NaN()}}),
		mkDirect[[]c06Payload]("Slice(CustomFunc[payload]).Contains(payload{map in interface field})", func() z.ZogSchema { return z.Slice(yes[c06Payload]()).Contains(pm) },
			[]any{c06Payload{"m", map[string]any{"k": 2}}}, []c06Payload{pm}, []any{c06Payload{"m", map[string]any{}}}, []any{c06Payload{"m", []any{}}}),
		mkDirect[[][2]any]("Slice(CustomFunc[[2]any]).Contains([2]any{.., slice})", func() z.ZogSchema { return z.Slice(yes[[2]any]()).Contains([2]any{"a", []int{1}}) },
			[][2]any{{"a", []int{2}}}, []any{[2]any{"a", []int{1}}}, []any{[2]any{"a", map[string]int{}}}, [][2]any{{"b", nil}}),
		mkDirect[[]any]("Slice(CustomFunc[any]).Contains(slice)", func() z.ZogSchema { return z.Slice(yes[any]()).Contains([]int{1}) },
			[]any{[]int{1}}, []any{[]int{2}, map[string]any{}}, []any{func() {}}, []any{nil}, []any{struct{ A any }{[]int{1}}}),
		mkDirect[[]any]("Slice(CustomFunc[any]).Contains(struct with interface field)", func() z.ZogSchema { return z.Slice(yes[any]()).Contains(struct{ A any }{[]int{1}}) },
			[]any{struct{ A any }{[]int{1}}}, []any{struct{ A any }{[]int{2}}}, []any{struct{ A any }{map[string]int{}}}, []any{struct{ A any }{nil}}, []any{struct{ B any }{[]int{1}}}),
		mkDirect[[]any]("Slice(CustomFunc[any]).Contains(nil)", func() z.ZogSchema { return z.Slice(yes[any]()).Contains(nil) }, []any{nil}, []any{1}, []any{(*int)(nil)}),
		mkDirect[[]time.Time]("Slice(Time).Contains(time)", func() z.ZogSchema { return z.Slice(z.Time()).Contains(t) }, []any{t}, []time.Time{t.In(time.FixedZone("x", 3600))}, []any{t.Unix()}, []any{"x"}),
		mkDirect[[]float64]("Slice(Float64).Contains(NaN)", func() z.ZogSchema { return z.Slice(z.Float64()).Contains(math.NaN()) }, []any{math.NaN()}, []float64{1}, []any{"NaN"}),
		mkDirect[map[string]any]("CustomFunc[map[string]any]", yes[map[string]any], map[string]any{"a": 1}, map[string]any(nil), gen.NamedMap{"a": 1}, map[string]int{"a": 1}),
		mkDirect[*int]("CustomFunc[*int]", yes[*int], (*int)(nil), new(int), 5, new(int64)),
		mkDirect[any]("CustomFunc[any]", yes[any], 1, "s", []any{}, map[string]any{}),
		mkDirect[error]("CustomFunc[error]", yes[error], fmt.Errorf("e"), "not an error", (*time.ParseError)(nil)),
		mkDirect[func()]("CustomFunc[func()]", yes[func()], func() {}, (func())(nil), func(int) {}),
		mkDirect[chan int]("CustomFunc[chan int]", yes[chan int], make(chan int), (chan int)(nil), make(<-chan int)),
		mkDirect[c06Payload]("CustomFunc[payload]", yes[c06Payload], p1, &p1, map[string]any{"Name": "a"}, c06Payload{}),
		mkDirect[string]("String.OneOf", func() z.ZogSchema { return z.String().OneOf([]string{"a", "b"}) }, "a", "c"),
		mkDirect[float64]("Float64.OneOf(NaN)", func() z.ZogSchema { return z.Float64().OneOf([]float64{math.NaN(), 1}) }, math.NaN(), "NaN", 1),
		mkDirect[time.Time]("Time.EQ", func() z.ZogSchema { return z.Time().EQ(t) }, t, t.Unix(), "x"),
		mkDirect[string]("String.URL", func() z.ZogSchema { return z.String().URL() }, c06URLs...),
		mkDirect[string]("String.Not().URL", func() z.ZogSchema { return z.String().Not().URL() }, c06URLs...),
		mkDirect[string]("String.Email.UUID.Match", func() z.ZogSchema { return z.String().Email().UUID().HasPrefix("x").ContainsSpecial() }, "a@b.co", "\xff@\xfe", "ma\u017fter@doe.com"),
	}
}()

type C06Base struct{ ID string }
type C06Inner struct{ Deep int }
type c06Embedding struct {
	*C06Base
	*C06Inner
	Name string
}

// embedded: the destination embeds pointers to structs (nil in a fresh destination); the schema names promoted fields
func embeddedDirect() c06direct {
	sch := func() *z.StructSchema {
		return z.Struct(z.Schema{"ID": z.String().Required(), "deep": z.Int(), "name": z.String()})
	}
	return c06direct{name: "Struct naming promoted fields of embedded pointers (*Base, *Inner)", own: []any{map[string]any{"ID": "x", "deep": 3, "name": "n"}, map[string]any{"name": "n"}, map[string]any{}, nil, map[string]any{"ID": 5}},
		run: func(place int, data any) {
			switch place {
			case 0:
				var d c06Embedding
				sch().Parse(data, &d)
			case 1:
				var d struct{ V c06Embedding }
				z.Struct(z.Schema{"v": sch()}).Parse(map[string]any{"v": data}, &d)
			case 2:
				var d []c06Embedding
				z.Slice(sch()).Parse([]any{data, data}, &d)
			case 3:
				var d *c06Embedding
				z.Ptr(sch()).Parse(data, &d)
			}
		}}
}

// records given as Go structs whose fields are pointers of several depths (PATCH-style "explicit null": **T with a nil inner pointer),
// by value and through a pointer; the pools having been reset (internals.ClearPools) before the call; context values passed
type C06Rec struct {
	Name string
	Addr *C06Inner
	Num  *int // a pointer to a non-struct where the schema has a nested struct
}

type C06Patch struct {
	Name **string
	Age  ***int
	Tags *[]*string
}

func pointerRecordsDirect() c06direct {
	sch := func() *z.StructSchema {
		return z.Struct(z.Schema{"Name": z.String().Required(), "Age": z.Int(), "Tags": z.Slice(z.String()), "Addr": z.Struct(z.Schema{"Deep": z.Int()}), "Num": z.Struct(z.Schema{"Deep": z.Int()})})
	}
	str, num := "n", 7
	ps, pn := &str, &num
	ppn := &pn
	var nilS *string
	var nilN *int
	nilPN := &nilN
	var nilPPN **int
	tags := []*string{ps, nil}
	own := []any{
		C06Rec{Name: "x"}, &C06Rec{}, C06Rec{Addr: &C06Inner{Deep: 1}}, C06Rec{Num: new(int)}, // nil / non-nil pointers where the schema has a nested struct
		C06Patch{Name: &ps, Age: &ppn, Tags: &tags},
		C06Patch{Name: &nilS, Age: &nilPN},
		C06Patch{Name: &nilS, Age: &nilPPN, Tags: new([]*string)},
		C06Patch{},
		&C06Patch{Name: &nilS},
		&C06Patch{Age: &nilPN, Tags: &tags},
	}
	type dest struct {
		Name string
		Age  int
		Tags []string
		Addr C06Inner
		Num  C06Inner
	}
	return c06direct{name: "Struct{Name, Age, Tags, Addr{Deep}, Num{Deep}} reading Go struct records with **string / ***int / *[]*string fields, after internals.ClearPools(), with a context value", own: own,
		run: func(place int, data any) {
			zinternals.ClearPools()
			opt := z.WithCtxValue("request", "r1")
			switch place {
			case 0:
				var d dest
				sch().Parse(data, &d, opt)
			case 1:
				var d struct{ V dest }
				z.Struct(z.Schema{"v": sch()}).Parse(map[string]any{"v": data}, &d, opt)
			case 2:
				var d []dest
				z.Slice(sch()).Parse([]any{data, data}, &d, opt)
			case 3:
				var d *dest
				z.Ptr(sch()).Parse(data, &d, opt)
			}
		}}
}

func init() { c06Directs = append(c06Directs, embeddedDirect(), pointerRecordsDirect()) }

func c06DirectCase(c *core.Ctx, d c06direct) {
	inputs := append(append([]any{}, d.own...), c06Hostile...)
	for i, in := range inputs {
		for place := range c06Places {
			det := map[string]any{"schema": d.name, "input_type": fmt.Sprintf("%T", in), "input": trunc(obs.Render(obs.Norm(in)), 400)}
			c06Guard(c, "direct schema @"+c06Places[place], det, func() { d.run(place, in) })
		}
		if i < len(d.own) {
			c.NonTrivial(fpf("direct|%s|%d", d.name, i))
		}
	}
	c.Count("direct_schemas", 1)
	c.Distinct("direct_schemas", d.name)
}
