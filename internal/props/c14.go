package props

import (
	"os"
	"fmt"
	"net/http"
	"strings"

	z "github.com/Oudwins/zog"
	"github.com/Oudwins/zog/parsers/zjson"
	"github.com/Oudwins/zog/zenv"
	"github.com/Oudwins/zog/zhttp"

	"zogverif/internal/core"
	"zogverif/internal/gen"
	"zogverif/internal/obs"
	"zogverif/internal/run"
	"zogverif/internal/spec"
)

// C14: all input front ends are equivalent views of the same record. Relational oracle on the real code.
type c14 struct{}

func init() { core.Register(c14{}) }

func (c14) ID() string { return "C14" }

func (c14) Info(t core.Tier) core.Info {
	return core.Info{
		Level: "exploration",
		Rule: "each case = one generated record schema (nested structs to depth 3, lists, pointers, catch/default/tests, every tag configuration per field: none, zog, source tags, zog+source, other source only; globally unique keys) x 4 logical records, " +
			"each rendered as Go map, JSON document through zjson, zhttp JSON body, URL-encoded form body, query string and environment variables (flat sources only for schemas they can express: no lists of structs, no pointers to structs; env: single-element lists; " +
			"half of the flat renderings also carry a stray value under the own key of every nested struct). oracle (relational, real code): destination and issues (path normalised to the field, code, type, message) of every rendering == those of the Go map rendering. " +
			"non-trivial: record with a nested struct, a list or a source-specific tag, compared over >= 3 front ends; distinct by (schema, record).",
		Assumptions: append([]string{"encoding/json and net/url render the record for the wire", "documented per-source differences are normalised: key naming (tag scheme), string-typed leaves, env trimming"}, commonAssumptions...),
		MinDistinct: 50,
		// env variables are process-wide: a worker runs its cases serially
	}
}

func (c14) NumCases(t core.Tier) int { return tierN(t, 12000, 300000) }

// c14Directed: (a) a record without its list field, the schema's Default holding Go struct items whose type has form / query tags: every
// front end gives the default items; (b) a `key[]` parameter sent once with an empty value is a list with one blank item, like the
// same record as a Go map.
type c14Line struct {
	Sku string `form:"sku_code" query:"sku_code"`
	Qty int    `form:"quantity" query:"quantity"`
}

func c14Directed(c *core.Ctx) bool {
	type order struct {
		Customer string    `form:"cust" query:"cust"`
		Lines    []c14Line `form:"lines" query:"lines"`
	}
	mk := func() *z.StructSchema {
		return z.Struct(z.Schema{"customer": z.String().Required(), "lines": z.Slice(z.Struct(z.Schema{"Sku": z.String().Required(), "Qty": z.Int().Required()})).Default([]c14Line{{Sku: "default-sku", Qty: 1}})})
	}
	results := map[string]string{}
	for _, f := range []string{"map", "form", "query", "zjson"} {
		var d order
		var data any
		switch f {
		case "map":
			data = map[string]any{"customer": "ann"}
		case "form":
			r, _ := http.NewRequest("POST", "/x", strings.NewReader("cust=ann"))
			r.Header.Set("Content-Type", "application/x-www-form-urlencoded")
			data = zhttp.Request(r)
		case "query":
			r, _ := http.NewRequest("GET", "/x?cust=ann", nil)
			data = zhttp.Request(r)
		default:
			data = zjson.Decode(strings.NewReader(`{"customer":"ann"}`))
		}
		m := mk().Parse(data, &d)
		c.Eval(1)
		results[f] = fmt.Sprintf("%+v issues=%d", d, len(m))
	}
	for f, r := range results {
		if r != results["map"] || r != "{Customer:ann Lines:[{Sku:default-sku Qty:1}]} issues=0" {
			c.Violation("front-end-destination-differs|"+f+"|struct-items-of-a-default", map[string]any{"schema": "{customer: Required, lines: Slice(Struct{Sku: Required, Qty: Required}).Default([]Line{{default-sku, 1}})}; Line{Sku `form:sku_code query:sku_code`; Qty `form:quantity query:quantity`}", "record": "{customer: ann} (no lines)", "results": results})
			return false
		}
	}
	type tagged struct {
		Tags []string `form:"tags[]" query:"tags[]" zog:"tags[]"`
	}
	tsch := func() *z.StructSchema { return z.Struct(z.Schema{"tags": z.Slice(z.String()).Required()}) }
	res := map[string]string{}
	for _, f := range []string{"map", "form", "query"} {
		var d tagged
		var data any
		switch f {
		case "map":
			data = map[string]any{"tags[]": []any{""}}
		case "form":
			r, _ := http.NewRequest("POST", "/x", strings.NewReader("tags[]="))
			r.Header.Set("Content-Type", "application/x-www-form-urlencoded")
			data = zhttp.Request(r)
		default:
			r, _ := http.NewRequest("GET", "/x?tags[]=", nil)
			data = zhttp.Request(r)
		}
		m := tsch().Parse(data, &d)
		c.Eval(1)
		res[f] = fmt.Sprintf("%q issues=%v", d.Tags, dKeys(m))
	}
	if res["form"] != res["map"] || res["query"] != res["map"] {
		c.Violation("front-end-destination-differs|single-blank-list-parameter", map[string]any{"schema": "{tags: Slice(String()).Required()} keyed tags[]", "record": "tags[] = [\"\"] (Go map) / tags[]= (form, query)", "results": res})
		return false
	}
	// (c) a parameter sent twice for a number field is a list where a number is expected - in every front end
	type person struct {
		Age int `json:"age" form:"age" query:"age"`
	}
	asch := func() *z.StructSchema { return z.Struct(z.Schema{"age": z.Int()}) }
	res2 := map[string]string{}
	for _, f := range []string{"map", "zjson", "form", "query"} {
		var d person
		var data any
		switch f {
		case "map":
			data = map[string]any{"age": []any{"30", "31"}}
		case "zjson":
			data = zjson.Decode(strings.NewReader(`{"age":["30","31"]}`))
		case "form":
			r, _ := http.NewRequest("POST", "/x", strings.NewReader("age=30&age=31"))
			r.Header.Set("Content-Type", "application/x-www-form-urlencoded")
			data = zhttp.Request(r)
		default:
			r, _ := http.NewRequest("GET", "/x?age=30&age=31", nil)
			data = zhttp.Request(r)
		}
		m := asch().Parse(data, &d)
		c.Eval(1)
		code := ""
		if len(m["age"]) == 1 {
			code = m["age"][0].Code
		}
		res2[f] = fmt.Sprintf("age=%d issue=%s", d.Age, code)
	}
	for f, r := range res2 {
		if r != "age=0 issue=coerce" {
			c.Violation("front-end-issues-differ|"+f+"|repeated-parameter-for-a-number", map[string]any{"schema": "{age: Int()}", "record": "age = [30, 31]", "results": res2})
			return false
		}
	}
	// (d) a nested object that is null, missing or empty reports its fields under the same keys
	type adr struct {
		Street string `json:"street_name" zog:"st"`
	}
	type cust struct {
		Address adr   `json:"address"`
		Others  []adr `json:"others"`
	}
	csch := func() *z.StructSchema {
		a := func() *z.StructSchema { return z.Struct(z.Schema{"street": z.String().Required()}) }
		return z.Struct(z.Schema{"address": a(), "others": z.Slice(a())})
	}
	keys := map[string]string{}
	for _, doc := range []string{`{"address":{},"others":[{}]}`, `{"address":null,"others":[null]}`, `{"x":1,"others":[{"y":1}]}`} {
		var d cust
		keys[doc] = dKeys(csch().Parse(zjson.Decode(strings.NewReader(doc)), &d))
		c.Eval(1)
	}
	for doc, k := range keys {
		if k != "address.street_name, others[0].street_name" {
			c.Violation("front-end-issues-differ|zjson|null-or-missing-nested-object", map[string]any{"schema": "{address: Struct{street: Required}, others: Slice(Struct{street: Required})}; Street `json:street_name zog:st`", "document": doc, "keys_per_document": keys, "want": "address.street_name, others[0].street_name"})
			return false
		}
	}
	// (e) an absent leaf is the same absent leaf in every flat source: a Preprocess over string sees "" from an unset variable as it
	// does from a missing parameter
	envCalls, qCalls := []string{}, []string{}
	type hostsT struct {
		Hosts []string `env:"ZZC14_HOSTS" query:"hosts"`
	}
	mkH := func(log *[]string) *z.StructSchema {
		return z.Struct(z.Schema{"hosts": z.Preprocess(func(s string, ctx z.Ctx) ([]string, error) {
			*log = append(*log, s)
			if s == "" {
				return []string{"localhost"}, nil
			}
			return strings.Split(s, ","), nil
		}, z.Slice(z.String()))})
	}
	os.Unsetenv("ZZC14_HOSTS")
	var he, hq hostsT
	me := mkH(&envCalls).Parse(zenv.NewDataProvider(), &he)
	rq, _ := http.NewRequest("GET", "/x?other=1", nil)
	mq := mkH(&qCalls).Parse(zhttp.Request(rq), &hq)
	c.Eval(2)
	if fmt.Sprint(envCalls) != fmt.Sprint(qCalls) || fmt.Sprint(he.Hosts) != fmt.Sprint(hq.Hosts) || len(me) != len(mq) {
		c.Violation("front-end-destination-differs|env|absent-leaf-in-front-of-a-preprocess", map[string]any{"schema": "{hosts: Preprocess(func(s string) []string, Slice(String()))}", "environment (variable unset)": fmt.Sprintf("function called with %q, destination %v, %d issue keys", envCalls, he.Hosts, len(me)), "query string (parameter missing)": fmt.Sprintf("function called with %q, destination %v, %d issue keys", qCalls, hq.Hosts, len(mq))})
		return false
	}
	c.Count("directed_front_end_scenarios", 1)
	return true
}

func (c14) RunCase(c *core.Ctx) {
	if c.Case%97 == 23 && !w10(c, "C14") {
		return
	}
	if c.Case%300 == 7 && !c14Directed(c) {
		return
	}
	flat := c.R.Intn(10) < 6
	fo := gen.FrontOpts{Flat: flat, EnvOnly: flat && c.R.Bool(), MaxDepth: 2, MaxFields: 4}
	n := gen.RecordSchema(c.R, fo)
	fronts := []string{"map", "zjson", "zhttp-json"}
	if flat {
		fronts = append(fronts, "form", "query")
		if fo.EnvOnly {
			fronts = append(fronts, "env")
		}
	}
	if c.R.Intn(4) == 0 {
		// the documented way to make a whole record optional: a top-level pointer to the struct
		n = &spec.Node{Kind: spec.Ptr, Elem: n}
		n.Number()
	}
	src := n.Source()
	hasNested := false
	n.Walk(func(x *spec.Node) {
		if x != n && (x.Kind == spec.Struct || x.Kind == spec.Slice) {
			hasNested = true
		}
	})
	for k := 0; k < 4; k++ {
		rec := gen.GenRecord(c.R, n, 70, fo)
		if m, ok := rec.(map[string]any); ok && n.Kind == spec.Ptr && len(m) == 0 {
			// open corner: {} against a top-level Ptr(Struct) is pinned by the repository's tests to "absent", a Go map{} is a present record
			c.Count("skipped_open_corner", 1)
			continue
		}
		prefill := gen.Prefill(c.R, n, false)
		stray := c.R.Bool()
		dashKey := ""
		n.Walk(func(x *spec.Node) {
			for _, f := range x.Fields {
				if f.Tags["json"] == "-" {
					dashKey = strings.ToLower(f.Key)
				}
			}
		})
		var base *run.Outcome
		var baseIssues []string
		// half of the records use ONE schema object for all front ends (a package-level schema serving requests, config and tests)
		var sharedB *spec.Built
		if c.R.Bool() {
			sharedB = spec.Build(n, &spec.Hooks{FieldOrder: permutedOrder(c.R)})
		}
		order := append([]string{}, fronts...)
		if sharedB != nil && c.R.Bool() {
			// the Go map rendering is not always the first use of the schema object
			order = append(order[1:], order[0])
		}
		results := map[string]*run.Outcome{}
		for _, f := range order {
			b := sharedB
			if b == nil {
				b = spec.Build(n, &spec.Hooks{FieldOrder: permutedOrder(c.R)})
			}
			o, _, _ := frontExec(b, n, rec, f, prefill, stray)
			results[f] = o
		}
		for _, f := range fronts {
			o := results[f]
			c.Eval(1)
			c.Distinct("front_ends", f)
			det := func(extra map[string]any) map[string]any {
				m := map[string]any{"schema": src, "record": obs.Render(rec), "front_end": f, "json_document": gen.RecToJSON(n, rec), "stray_values_under_struct_keys": stray}
				if frontIsFlat(f) {
					m["flat_rendering"] = gen.RecToFlat(n, rec, frontTag(f)).Encode()
				}
				for k, v := range extra {
					m[k] = v
				}
				return m
			}
			if o.Panicked {
				c.Violation("panic|"+f, det(map[string]any{"panic": fmt.Sprint(o.Panic), "stack": trunc(o.Stack, 2000)}))
				return
			}
			ci := canonIssues(o)
			if dashKey != "" {
				// the one field whose source tags are "-": that key stands for its schema key, like the prefixed tags do
				for i := range ci {
					path, rest, _ := strings.Cut(ci[i], "|")
					segs := strings.Split(path, ".")
					for j := range segs {
						if segs[j] == "-" || strings.HasPrefix(segs[j], "-[") {
							segs[j] = dashKey + segs[j][1:]
						}
					}
					ci[i] = strings.Join(segs, ".") + "|" + rest
				}
				sortStrings(ci)
			}
			if f == "map" {
				base, baseIssues = o, ci
				continue
			}
			if a, bb := obs.MultisetDiff(baseIssues, ci); len(a) > 0 || len(bb) > 0 {
				c.Violation("front-end-issues-differ|"+f, det(map[string]any{"issues_go_map": issuesText(base), "issues_this_front_end": issuesText(o), "only_go_map": a, "only_this_front_end": bb}))
				return
			}
			if len(ci) == 0 {
				if d := obs.Diff(base.Dest, o.Dest, "$"); d != "" {
					c.Violation("front-end-destination-differs|"+f, det(map[string]any{"destination_go_map": obs.Render(base.Dest), "destination_this_front_end": obs.Render(o.Dest), "difference": d}))
					return
				}
			}
		}
		if hasNested && len(fronts) >= 3 {
			c.NonTrivial(fpf("%s|%s", src, obs.Render(rec)))
			if c.WantSample() {
				c.Sample(map[string]any{"schema": src, "record": obs.Render(rec), "front_ends_compared": fronts, "issues(all front ends)": baseIssues})
			}
		}
	}
}
