package props

import (
	"fmt"
	"sort"
	"strings"

	"github.com/Oudwins/zog/parsers/zjson"

	"zogverif/internal/core"
	"zogverif/internal/gen"
	"zogverif/internal/obs"
	"zogverif/internal/ref"
	"zogverif/internal/run"
	"zogverif/internal/spec"
)

// C13: Parse and Validate agree on fully populated values. Relational oracle on the real code.
type c13 struct{}

func init() { core.Register(c13{}) }

func (c13) ID() string { return "C13" }

func (c13) Info(t core.Tier) core.Info {
	return core.Info{
		Level: "exploration",
		Rule: "each case = one generated schema (all kinds except Preprocess; catch, default, post-transforms, struct tags, shared nodes) x 6 fully populated, correctly typed values (no zero or blank leaf, no empty slice, no nil pointer; valid or violating tests) x 2 rebuilds, each preceded by 0-2 unrelated earlier calls (JSON front end / plain map, results sometimes collected); " +
			"oracle (relational, real code only): Validate(&v) and Parse(toMap(v), &fresh) return the same multiset of (path, code, type, message) and leave equal values. non-trivial: >= 1 issue, or a catch changed the value; distinct by (schema, value).",
		Assumptions: commonAssumptions,
		MinDistinct: 50,
	}
}

func (c13) NumCases(t core.Tier) int { return tierN(t, 25000, 600000) }

func quad(cs []obs.CI) []string {
	out := make([]string, len(cs))
	for i, c := range cs {
		out[i] = c.Triple() + "|" + c.Message
	}
	sort.Strings(out)
	return out
}

func (c13) RunCase(c *core.Ctx) {
	o := gen.DefaultOpts()
	o.CatchPct = 30
	o.ModChains = c.R.Intn(3) == 0
	o.Share = c.R.Intn(4) == 0
	o.MaxFields = 5
	o.TimeLayouts = true // Time.Format(layout) only concerns strings: a time.Time goes through both modes unchanged
	switch c.R.Intn(10) {
	case 0:
		o.TopKinds = []spec.Kind{spec.Slice}
	case 1:
		o.TopKinds = []spec.Kind{spec.Ptr}
	case 2:
		o.TopKinds = []spec.Kind{spec.String, spec.Int, spec.Float64, spec.Bool, spec.Time, spec.Int32}
	}
	n := gen.Schema(c.R, o)
	addProbes(n)
	src := n.Source()
	for k := 0; k < 6; k++ {
		ambientHistory(c.R)
		v := gen.ValueTree(c.R, n, gen.InOpts{ValidPct: 55}, true)
		data := gen.ToParseMap(n, v)
		for rep := 0; rep < 2; rep++ {
			recV, recP := &orderRecorder{}, &orderRecorder{}
			bV := spec.Build(n, recV.hooks(c.R))
			bP := spec.Build(n, recP.hooks(c.R))
			if n.Kind == spec.Struct && c.R.Intn(3) == 0 {
				// the same schema and destination type have served a JSON request before (nothing of that may stick)
				run.Parse(bP, zjson.Decode(strings.NewReader(`{"zz_unrelated":1}`)), nil)
				if c.R.Bool() {
					run.Parse(bV, zjson.Decode(strings.NewReader(`{"zz_unrelated":1}`)), nil)
				}
			}
			oV := run.Validate(bV, v)
			oP := run.Parse(bP, data, gen.Prefill(c.R, n, false))
			c.Eval(2)
			det := func(extra map[string]any) map[string]any {
				m := map[string]any{"schema": src, "value": obs.Render(v), "parse_input": obs.Render(obs.Norm(data)),
					"validate_issues": issuesText(oV), "parse_issues": issuesText(oP), "value_after_validate": obs.Render(oV.Dest), "value_after_parse": obs.Render(oP.Dest)}
				for k, x := range extra {
					m[k] = x
				}
				return m
			}
			if oV.Panicked || oP.Panicked {
				c.Violation("panic", det(map[string]any{"panic_validate": fmt.Sprint(oV.Panic), "panic_parse": fmt.Sprint(oP.Panic), "stack": trunc(oV.Stack+oP.Stack, 2500)}))
				return
			}
			qv, qp := quad(oV.Issues), quad(oP.Issues)
			if a, b := obs.MultisetDiff(qv, qp); len(a) > 0 || len(b) > 0 {
				c.Violation("modes-disagree-on-issues", det(map[string]any{"only_validate": a, "only_parse": b}))
				return
			}
			if oV.Nil != oP.Nil {
				c.Violation("modes-disagree-on-nil", det(map[string]any{"validate_nil": oV.Nil, "parse_nil": oP.Nil}))
				return
			}
			// fields the schema does not name are outside the comparison (Parse allocates fresh elements / pointees for them)
			if d := obs.Diff(stripExtras(oV.Dest), stripExtras(oP.Dest), "$"); d != "" && len(oV.Issues) == 0 {
				c.Violation("modes-disagree-on-value", det(map[string]any{"difference(validate vs parse)": d}))
				return
			}
			if len(oV.Issues) > 0 || !obs.Equal(oV.Dest, v) {
				c.NonTrivial(fpf("%s|%s", src, obs.Render(v)))
				if c.WantSample() {
					c.Sample(map[string]any{"schema": src, "value": obs.Render(v), "issues_both_modes": qv, "value_after": obs.Render(oV.Dest)})
				}
			}
		}
	}
	_ = ref.Parse
}

func stripExtras(t any) any {
	switch x := t.(type) {
	case map[string]any:
		out := map[string]any{}
		for k, v := range x {
			if len(k) > 10 && k[:10] == "XUntouched" {
				continue
			}
			out[k] = stripExtras(v)
		}
		return out
	case []any:
		if x == nil {
			return x
		}
		out := make([]any, len(x))
		for i := range x {
			out[i] = stripExtras(x[i])
		}
		return out
	case obs.PtrV:
		if x.Nil {
			return x
		}
		return obs.PtrV{V: stripExtras(x.V)}
	}
	return t
}
