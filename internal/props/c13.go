package props

import (
	"errors"
	"fmt"
	"sort"
	"strings"

	z "github.com/Oudwins/zog"
	"github.com/Oudwins/zog/parsers/zjson"

	"zogverif/internal/core"
	"zogverif/internal/gen"
	"zogverif/internal/obs"
	"zogverif/internal/ref"
	"zogverif/internal/run"
	"zogverif/internal/spec"
)

// C13: Parse and Validate agree on fully populated values. Relational oracle on the real code.
type c13 struct{}

func init() { core.Register(c13{}) }

func (c13) ID() string { return "C13" }

func (c13) Info(t core.Tier) core.Info {
	return core.Info{
		Level: "exploration",
		Rule: "each case = one generated schema (all kinds; Preprocess and failing transforms in a directed part; catch, default, post-transforms, struct tags, shared nodes) x 6 fully populated, correctly typed values (no zero or blank leaf, no empty slice, no nil pointer; valid or violating tests) x 2 rebuilds, each preceded by 0-2 unrelated earlier calls (JSON front end / plain map, results sometimes collected); " +
			"oracle (relational, real code only): Validate(&v) and Parse(toMap(v), &fresh) return the same multiset of (path, code, type, message) and leave equal values. non-trivial: >= 1 issue, or a catch changed the value; distinct by (schema, value).",
		Assumptions: commonAssumptions,
		MinDistinct: 50,
	}
}

func (c13) NumCases(t core.Tier) int { return tierN(t, 25000, 600000) }

func quad(cs []obs.CI) []string {
	out := make([]string, len(cs))
	for i, c := range cs {
		out[i] = c.Triple() + "|" + c.Message
	}
	sort.Strings(out)
	return out
}

// c13Errors: failures that do not come from a test - a Preprocess function refusing, a PostTransform returning a plain error or
// its own ZogIssue, at the root, in a nested struct, on a slice and on a primitive - are reported alike by both modes.
func c13Errors(c *core.Ctx) bool {
	plain := errors.New("transform refused")
	mkIssue := func() error {
		return &z.ZogIssue{Code: "app_code", Path: "elsewhere", Message: "the application's message"}
	}
	kind := c.R.Intn(4)
	ret := func(any) error {
		switch kind {
		case 0:
			return plain
		case 1:
			return mkIssue()
		case 3:
			// an issue built by hand that says nothing about where it happened
			return &z.ZogIssue{Code: "app_code", Message: "the application's message"}
		}
		return fmt.Errorf("wrapped: %w", plain)
	}
	failPost := []spec.Post{{Name: fmt.Sprintf("returns-error(kind %d)", kind), Fn: ret}}
	leaf := func() *spec.Node { return &spec.Node{Kind: spec.String, Witness: "value"} }
	var root *spec.Node
	where := c.R.Intn(6)
	switch where {
	case 0: // struct-level transform at the root
		root = structOf("a", leaf(), "b", leaf())
		root.Posts = failPost
	case 1: // struct-level transform of a nested struct
		in := structOf("x", leaf())
		in.Posts = failPost
		root = structOf("a", leaf(), "in", in)
	case 2: // slice-level transform
		sl := sliceOf(leaf())
		sl.Posts = failPost
		root = structOf("a", leaf(), "l", sl)
	case 3: // primitive transform
		l := leaf()
		l.Posts = failPost
		root = structOf("a", l, "b", leaf())
	case 4: // struct behind a slice
		in := structOf("x", leaf())
		in.Posts = failPost
		root = structOf("l", sliceOf(in))
	default: // a Preprocess function that refuses
		pre := &spec.Node{Kind: spec.Pre, Elem: leaf(), PreName: "refuses", PreFn: func(any) (any, error) { return nil, plain }}
		root = structOf("a", leaf(), "p", pre)
	}
	root.Number()
	v := gen.ValueTree(c.R, root, gen.InOpts{ValidPct: 100}, true)
	data := gen.ToParseMap(root, v)
	oV := run.Validate(spec.Build(root, &spec.Hooks{FieldOrder: permutedOrder(c.R)}), v)
	oP := run.Parse(spec.Build(root, &spec.Hooks{FieldOrder: permutedOrder(c.R)}), data, nil)
	c.Eval(2)
	qv, qp := quad(oV.Issues), quad(oP.Issues)
	a, b := obs.MultisetDiff(qv, qp)
	if oV.Panicked || oP.Panicked || len(a) > 0 || len(b) > 0 || len(qv) == 0 {
		c.Violation("modes-disagree-on-issues|non-test-failure", map[string]any{"schema": root.Source(), "value": obs.Render(v), "what_fails": []string{"plain error", "own ZogIssue", "wrapped plain error", "own ZogIssue without a path"}[kind],
			"validate_issues": issuesText(oV), "parse_issues": issuesText(oP), "panic": fmt.Sprint(oV.Panic, oP.Panic)})
		return false
	}
	c.Count("non_test_failures_compared", 1)
	c.NonTrivial(fpf("c13err|%d|%d", where, kind))
	return true
}

func (c13) RunCase(c *core.Ctx) {
	if c.Case%97 == 23 && !w10(c, "C13") {
		return
	}
	if c.Case%25 == 3 && !c13Errors(c) {
		return
	}
	if c.Case%100 == 10 {
		c.Eval(8)
		if problem := dModesAgreeMore(); problem != "" {
			c.Violation("modes-disagree|directed", map[string]any{"observed": problem})
			return
		}
	}
	if c.Case%100 == 9 {
		c.Eval(6)
		if problem := dRowTransforms(); problem != "" {
			c.Violation("modes-disagree|row-transforms-after-an-earlier-issue", map[string]any{"schema": "Slice(Slice(String().Min(2)).PostTransform(upper-case the row))", "observed": problem})
			return
		}
	}
	if c.Case%100 == 8 {
		c.Eval(4)
		if problem := dModesAgreeOnNames(); problem != "" {
			c.Violation("modes-disagree-on-issues|field-names-and-empty-keys", map[string]any{"schema": "{Ñame: String().Min(5), Émail: String().Email(), Дата: Int().GT(10), text: String().Min(5)} for struct{ Ñame, Émail string; Дата int; Text string `zog:\"\"` }", "observed": problem})
			return
		}
	}
	if c.Case%100 == 7 {
		c.Eval(6)
		if problem := dByteSlice(); problem != "" {
			c.Violation("modes-disagree-on-issues|byte-slice", map[string]any{"schema": "{payload: Slice(CustomFunc[byte](< 200)).Min(2)} for a []byte field", "observed": problem})
			return
		}
	}
	o := gen.DefaultOpts()
	o.CatchPct = 30
	o.ModChains = c.R.Intn(3) == 0
	o.Share = c.R.Intn(4) == 0
	o.MaxFields = 5
	o.TimeLayouts = true // Time.Format(layout) only concerns strings: a time.Time goes through both modes unchanged
	switch c.R.Intn(10) {
	case 0:
		o.TopKinds = []spec.Kind{spec.Slice}
	case 1:
		o.TopKinds = []spec.Kind{spec.Ptr}
	case 2:
		o.TopKinds = []spec.Kind{spec.String, spec.Int, spec.Float64, spec.Bool, spec.Time, spec.Int32}
	}
	n := gen.Schema(c.R, o)
	addProbes(n)
	src := n.Source()
	for k := 0; k < 6; k++ {
		ambientHistory(c.R)
		v := gen.ValueTree(c.R, n, gen.InOpts{ValidPct: 55}, true)
		data := gen.ToParseMap(n, v)
		for rep := 0; rep < 2; rep++ {
			recV, recP := &orderRecorder{}, &orderRecorder{}
			bV := spec.Build(n, recV.hooks(c.R))
			bP := spec.Build(n, recP.hooks(c.R))
			if n.Kind == spec.Struct && c.R.Intn(3) == 0 {
				// the same schema and destination type have served a JSON request before (nothing of that may stick)
				run.Parse(bP, zjson.Decode(strings.NewReader(`{"zz_unrelated":1}`)), nil)
				if c.R.Bool() {
					run.Parse(bV, zjson.Decode(strings.NewReader(`{"zz_unrelated":1}`)), nil)
				}
			}
			oV := run.Validate(bV, v)
			oP := run.Parse(bP, data, gen.Prefill(c.R, n, false))
			c.Eval(2)
			det := func(extra map[string]any) map[string]any {
				m := map[string]any{"schema": src, "value": obs.Render(v), "parse_input": obs.Render(obs.Norm(data)),
					"validate_issues": issuesText(oV), "parse_issues": issuesText(oP), "value_after_validate": obs.Render(oV.Dest), "value_after_parse": obs.Render(oP.Dest)}
				for k, x := range extra {
					m[k] = x
				}
				return m
			}
			if oV.Panicked || oP.Panicked {
				c.Violation("panic", det(map[string]any{"panic_validate": fmt.Sprint(oV.Panic), "panic_parse": fmt.Sprint(oP.Panic), "stack": trunc(oV.Stack+oP.Stack, 2500)}))
				return
			}
			qv, qp := quad(oV.Issues), quad(oP.Issues)
			if a, b := obs.MultisetDiff(qv, qp); len(a) > 0 || len(b) > 0 {
				c.Violation("modes-disagree-on-issues", det(map[string]any{"only_validate": a, "only_parse": b}))
				return
			}
			if oV.Nil != oP.Nil {
				c.Violation("modes-disagree-on-nil", det(map[string]any{"validate_nil": oV.Nil, "parse_nil": oP.Nil}))
				return
			}
			// fields the schema does not name are outside the comparison (Parse allocates fresh elements / pointees for them)
			if d := obs.Diff(stripExtras(oV.Dest), stripExtras(oP.Dest), "$"); d != "" && len(oV.Issues) == 0 {
				c.Violation("modes-disagree-on-value", det(map[string]any{"difference(validate vs parse)": d}))
				return
			}
			if len(oV.Issues) > 0 || !obs.Equal(oV.Dest, v) {
				c.NonTrivial(fpf("%s|%s", src, obs.Render(v)))
				if c.WantSample() {
					c.Sample(map[string]any{"schema": src, "value": obs.Render(v), "issues_both_modes": qv, "value_after": obs.Render(oV.Dest)})
				}
			}
		}
	}
	_ = ref.Parse
}

func stripExtras(t any) any {
	switch x := t.(type) {
	case map[string]any:
		out := map[string]any{}
		for k, v := range x {
			if len(k) > 10 && k[:10] == "XUntouched" {
				continue
			}
			out[k] = stripExtras(v)
		}
		return out
	case []any:
		if x == nil {
			return x
		}
		out := make([]any, len(x))
		for i := range x {
			out[i] = stripExtras(x[i])
		}
		return out
	case obs.PtrV:
		if x.Nil {
			return x
		}
		return obs.PtrV{V: stripExtras(x.V)}
	}
	return t
}
