package props

import (
	"fmt"
	"reflect"
	"runtime"
	"sort"
	"strings"
	"sync"
	"sync/atomic"
	"time"

	z "github.com/Oudwins/zog"
	"github.com/Oudwins/zog/conf"
	"github.com/Oudwins/zog/i18n"
	"github.com/Oudwins/zog/i18n/en"
	"github.com/Oudwins/zog/i18n/es"
	"github.com/Oudwins/zog/parsers/zjson"
	"github.com/Oudwins/zog/zconst"

	"zogverif/internal/core"
	"zogverif/internal/gen"
	"zogverif/internal/obs"
	"zogverif/internal/ref"
	"zogverif/internal/rng"
	"zogverif/internal/run"
	"zogverif/internal/spec"
)

// C08: schemas are safe to share between goroutines. Workers are built with -race; every concurrent call is compared
// with the result of the same call precomputed alone.
type c08 struct{}

func init() { core.Register(c08{}) }

func (c08) ID() string { return "C08" }

func (c08) Info(t core.Tier) core.Info {
	return core.Info{
		Level: "exploration",
		Rule: fmt.Sprintf("workers are built with the Go race detector (GORACE halt_on_error=0, reports written to log files, counted and de-duplicated by the zog frames of both accesses). one case = one round: %d shared schema objects (generated: nested structs / slices / pointers, catch, default, post-transforms, customs, Ptr(primitive with tests)) plus one schema built directly on the API whose slice defaults are declared with another slice type than the named destination type and whose elements are written by transforms, a struct with a field keyed by the empty string, and calls naming their language while i18n is installed, are used by %d goroutines x %d calls, "+
			"each call with its own data, destination (struct schemas alternate between two destination types with the same fields in different order) and options (WithCtxValue carrying the goroutine and call id), mixed Parse / Validate; results are randomly handed to Collect / CollectMap / SanitizeAndCollect after comparison; the harness callbacks inject Gosched and short sleeps between nodes. "+
			"oracle: (a) no race report with a zog frame; (b) the canonical result (issue multiset without $first; destination on success) of every concurrent call == the result of the same call precomputed alone on the same schema object; (c) every callback sees the context values of its own call. "+
			"an atomic in-flight counter per schema object sampled inside callbacks gives the overlap histogram (a round that never overlaps is not counted). non-trivial: call during which >= 2 calls were in flight on the same schema object; distinct by (round, schema, input, mode).",
			c08Schemas, tierN(t, 16, 48), tierN(t, 250, 600)),
		Assumptions: append([]string{"the Go race detector is happens-before based: it reports races on the interleavings produced, not on all possible ones"}, commonAssumptions...),
		MinDistinct: 50,
		Race:        true,
		MaxWorkers:  4,
	}
}

const c08Schemas = 8

func (c08) NumCases(t core.Tier) int { return tierN(t, 8, 160) }

type c08call struct {
	jsonNull bool // a JSON body `null` through zjson with a formatter stamping the call id (front-end created issue)
	schema   int
	mode     ref.Mode
	data     any
	val      any
	alt      bool // parse into the destination type with reversed field order
	want     string
	desc     string
	direct   func(opts ...z.ExecOption) string // a call on a schema built directly on the API (shared by all goroutines)
}

// named destination types for the directly built schemas
type c08Tags []string
type c08Cfg struct {
	Tags c08Tags
	Rows [][]int
	Name string
}

// c08DirectCalls: Validate on one shared schema whose slice defaults are declared with another (assignable) slice type than the
// destination's, with transforms that write to the elements: every call must get its own copy of the default.
func c08DirectCalls() []*c08call {
	bang := func(p any, _ z.Ctx) error { s := p.(*string); *s += "!"; return nil }
	inc := func(p any, _ z.Ctx) error { i := p.(*int); *i++; return nil }
	sch := z.Struct(z.Schema{
		"tags": z.Slice(z.String().PostTransform(bang)).Default([]string{"a", "b", "c"}),
		"rows": z.Slice(z.Slice(z.Int().PostTransform(inc))).Default([][]int{{1, 2}, {3}}),
		"name": z.String().Default("anon"),
	})
	render := func(cfg *c08Cfg, m z.ZogIssueMap) string {
		return fmt.Sprintf("%v %v %q issues=%v", cfg.Tags, cfg.Rows, cfg.Name, z.Issues.SanitizeMap(m))
	}
	mk := func(name string, start func() *c08Cfg) *c08call {
		cl := &c08call{mode: ref.Validate, desc: "Validate(&Cfg" + name + ") on a shared schema with slice defaults ([]string for a field of a named slice type) and element-writing transforms"}
		cl.direct = func(opts ...z.ExecOption) string {
			cfg := start()
			return render(cfg, sch.Validate(cfg, opts...))
		}
		cl.want = cl.direct()
		return cl
	}
	out := []*c08call{
		mk("{}", func() *c08Cfg { return &c08Cfg{} }),
		mk("{Name}", func() *c08Cfg { return &c08Cfg{Name: "n"} }),
		mk("{Tags}", func() *c08Cfg { return &c08Cfg{Tags: c08Tags{"x"}} }),
	}
	// a struct one of whose fields is keyed by the empty string (valid configuration), failing in a sibling
	type blank struct {
		Top  string `zog:""`
		Name string
		Tags []string
	}
	bsch := z.Struct(z.Schema{"top": z.String(), "name": z.String().Min(3), "tags": z.Slice(z.String().Min(2))})
	bcall := &c08call{mode: ref.Parse, desc: "Parse into a struct with a field keyed by the empty string, siblings failing"}
	bcall.direct = func(opts ...z.ExecOption) string {
		var d blank
		m := bsch.Parse(map[string]any{"": "t", "name": "x", "tags": []any{"ok", "y"}}, &d, opts...)
		all, _ := obs.CanonMap(m)
		return obs.Multiset(all, func(ci obs.CI) string { return ci.Full() })
	}
	bcall.want = bcall.direct()
	out = append(out, bcall)
	// every caller edits the result it got: the next caller (any goroutine) still gets the pristine default
	type ditemsDst = []dItem
	dsch := z.Slice(z.Struct(z.Schema{"Meta": dCustomMeta(), "Nums": dCustomNums(), "N": z.Int()})).Default([]dItem{{Meta: dMeta{"env": "prod"}, Nums: []int{1, 2}, N: 1}})
	psch := z.Slice(z.Preprocess(func(d any, c z.Ctx) (any, error) { return d, nil }, z.Slice(dCustomNums()))).Default([][][]int{{{7, 8}}})
	for _, which := range []string{"Slice(Struct{custom map, custom []int}).Default", "Slice(Preprocess(fn, Slice(custom []int))).Default"} {
		which := which
		dc := &c08call{mode: ref.Parse, desc: "Parse(nil) of " + which + "; the caller then edits its own result in place"}
		dc.direct = func(opts ...z.ExecOption) string {
			if strings.HasPrefix(which, "Slice(Struct") {
				var d ditemsDst
				m := dsch.Parse(nil, &d)
				out := fmt.Sprintf("%v %v", d, z.Issues.SanitizeMap(m))
				if len(d) == 1 && d[0].Meta != nil && len(d[0].Nums) > 0 {
					d[0].Meta["env"], d[0].Nums[0] = "edited", 99
				}
				return out
			}
			var d [][][]int
			m := psch.Parse(nil, &d)
			out := fmt.Sprintf("%v %v", d, z.Issues.SanitizeMap(m))
			if len(d) == 1 && len(d[0]) == 1 && len(d[0][0]) == 2 {
				d[0][0][1] = 99
			}
			return out
		}
		dc.want = dc.direct()
		out = append(out, dc)
	}
	// one issue object of the application, complete in every field, returned by transforms under nodes of two different types
	own := &z.ZogIssue{Code: "app_code", Path: "app.path", Dtype: "app_type", Message: "the application's issue"}
	ssch := z.Struct(z.Schema{"s": z.String().PostTransform(func(any, z.Ctx) error { return own }), "n": z.Int()})
	nsch := z.Struct(z.Schema{"s": z.String(), "n": z.Int().PostTransform(func(any, z.Ctx) error { return own })})
	for i, sc := range []*z.StructSchema{ssch, nsch} {
		sc := sc
		oc := &c08call{mode: ref.Parse, desc: fmt.Sprintf("Parse whose transform (under a %s node) returns the application's own, complete issue object", []string{"string", "number"}[i])}
		oc.direct = func(opts ...z.ExecOption) string {
			var d struct {
				S string
				N int
			}
			m := sc.Parse(map[string]any{"s": "x", "n": 1}, &d)
			all, _ := obs.CanonMap(m)
			return obs.Multiset(all, func(ci obs.CI) string { return ci.Full() })
		}
		oc.want = oc.direct()
		out = append(out, oc)
	}
	// a call whose user callback panics two levels down (the caller recovers, as net/http does for a handler): the other calls go on
	// as if it had never happened
	panicSch := z.Struct(z.Schema{"address": z.Struct(z.Schema{"zip": z.String().TestFunc(func(v any, ctx z.Ctx) bool { panic("callback bug") }), "city": z.String()}), "lines": z.Slice(z.String().TestFunc(func(v any, ctx z.Ctx) bool {
		if v.(string) == "boom" {
			panic("callback bug")
		}
		return true
	}))})
	for _, where := range []string{"nested struct field", "slice element"} {
		where := where
		pc := &c08call{mode: ref.Parse, desc: "Parse whose TestFunc (" + where + ") panics; the caller recovers"}
		pc.direct = func(opts ...z.ExecOption) (out string) {
			defer func() {
				if r := recover(); r != nil {
					out = fmt.Sprint("recovered: ", r)
				}
			}()
			var d struct {
				Address struct{ Zip, City string }
				Lines   []string
			}
			data := map[string]any{"address": map[string]any{"zip": "1", "city": "c"}, "lines": []any{"a"}}
			if where == "slice element" {
				data = map[string]any{"address": map[string]any{"city": "c"}, "lines": []any{"a", "b", "boom"}}
			}
			return fmt.Sprint(z.Issues.SanitizeMap(panicSch.Parse(data, &d, opts...)))
		}
		pc.want = pc.direct()
		out = append(out, pc)
	}
	// a call whose issue sits nine segments deep, and a call that parses another record from inside one of its own callbacks
	type lv4 struct{ V string }
	type lv3 struct{ D []lv4 }
	type lv2 struct{ C []lv3 }
	type lv1 struct{ B []lv2 }
	type lv0 struct{ A []lv1 }
	deepSch := z.Struct(z.Schema{"a": z.Slice(z.Struct(z.Schema{"b": z.Slice(z.Struct(z.Schema{"c": z.Slice(z.Struct(z.Schema{"d": z.Slice(z.Struct(z.Schema{"v": z.String().Min(5)}))}))}))}))})
	deepData := func() map[string]any {
		return map[string]any{"a": []any{map[string]any{"b": []any{map[string]any{"c": []any{map[string]any{"d": []any{map[string]any{"v": "x"}, map[string]any{"v": "y"}}}}}}}}}
	}
	dcall := &c08call{mode: ref.Parse, desc: "Parse with issues nine path segments deep (a[0].b[0].c[0].d[0].v)"}
	dcall.direct = func(opts ...z.ExecOption) string {
		var d lv0
		return dKeys(deepSch.Parse(deepData(), &d, opts...))
	}
	dcall.want = dcall.direct()
	out = append(out, dcall)
	ncall := &c08call{mode: ref.Parse, desc: "Parse whose TestFunc parses another (deep) record before it answers"}
	ncall.direct = func(opts ...z.ExecOption) string {
		var inner string
		sch := z.Struct(z.Schema{"name": z.String().TestFunc(func(v any, ctx z.Ctx) bool {
			var d lv0
			inner = dKeys(deepSch.Parse(deepData(), &d))
			return false
		}, z.Message("outer says no")), "zip": z.String().Min(5)})
		var d struct{ Name, Zip string }
		m := sch.Parse(map[string]any{"name": "n", "zip": "1"}, &d, opts...)
		return dKeys(m) + " / inner: " + inner
	}
	ncall.want = ncall.direct()
	out = append(out, ncall)
	// lists of lengths nobody has parsed before in this process (each call of the first few dozen is longer than the one before): the
	// position segments of the issue paths are known in advance
	var lenCtr int64
	longSch := z.Slice(z.String().Min(2))
	lcall := &c08call{mode: ref.Parse, desc: "Parse of a list longer than any parsed before (every item failing): issue keys [0] … [n-1]"}
	lcall.direct = func(opts ...z.ExecOption) string {
		k := atomic.AddInt64(&lenCtr, 1)
		n := 12
		if k <= 48 {
			n = 140 + int(k)*67
		}
		in := make([]any, n)
		for i := range in {
			in[i] = "x"
		}
		var d []string
		m := longSch.Parse(in, &d, opts...)
		if len(m) != n+1 {
			return fmt.Sprintf("%d keys for %d failing items", len(m)-1, n)
		}
		for i := 0; i < n; i++ {
			if l := m[fmt.Sprintf("[%d]", i)]; len(l) != 1 || l[0].Path != fmt.Sprintf("[%d]", i) {
				return fmt.Sprintf("item %d of %d: %d issue(s) under its key", i, n, len(l))
			}
		}
		return "every item under its own key"
	}
	lcall.want = "every item under its own key"
	out = append(out, lcall)
	// top-level calls of the schema types that have no children of their own: a custom schema, a Preprocess in front of a slice / a struct,
	// plain primitives - each with issues whose paths and messages are its own
	customSch := z.CustomFunc(func(v *int, ctx z.Ctx) bool { return *v > 10 }, z.Message("custom says no"))
	preSlice := z.Preprocess(func(d any, ctx z.Ctx) ([]string, error) { return strings.Split(d.(string), ","), nil }, z.Slice(z.String().Min(2)))
	type preRec struct{ Name string }
	preStruct := z.Preprocess(func(d any, ctx z.Ctx) (preRec, error) { return preRec{Name: d.(string)}, nil }, z.Struct(z.Schema{"Name": z.String().Min(4)}))
	plainStr := z.String().Min(5).Email()
	for _, which := range []string{"custom", "custom-ok", "pre-slice", "pre-struct", "string", "int-with-ctx"} {
		which := which
		tc := &c08call{mode: ref.Parse, desc: "top-level call: " + which}
		tc.direct = func(opts ...z.ExecOption) string {
			rl := func(l z.ZogIssueList) string {
				var o []string
				for _, e := range l {
					o = append(o, e.Path+"|"+e.Code+"|"+e.Message)
				}
				sort.Strings(o)
				return strings.Join(o, "; ")
			}
			switch which {
			case "custom":
				var n int
				return rl(customSch.Parse(3, &n)) + fmt.Sprint(" n=", n)
			case "custom-ok":
				var n int
				return rl(customSch.Parse(30, &n)) + fmt.Sprint(" n=", n)
			case "pre-slice":
				var l []string
				return rl(preSlice.Parse("ab,c,def,g", &l)) + fmt.Sprint(" l=", l)
			case "pre-struct":
				var r preRec
				return rl(preStruct.Parse("abc", &r)) + fmt.Sprint(" r=", r)
			case "string":
				var sv string
				return rl(plainStr.Parse("ab", &sv)) + " s=" + sv
			}
			var n int
			seen := ""
			l := z.Int().TestFunc(func(v any, ctx z.Ctx) bool { seen = fmt.Sprint(ctx.Get("who")); return false }, z.Message("no")).Parse(5, &n, z.WithCtxValue("who", "int-call"))
			return rl(l) + " who=" + seen
		}
		tc.want = tc.direct()
		out = append(out, tc)
	}
	// messages in the language named by each call (i18n is installed for the whole round, see RunCase)
	for _, lang := range []string{"es", "en", ""} {
		lang := lang
		lc := &c08call{mode: ref.Parse, desc: fmt.Sprintf("String().Min(5).Parse with language %q in the context", lang)}
		lc.direct = func(opts ...z.ExecOption) string {
			var s string
			var o []z.ExecOption
			if lang != "" {
				o = append(o, z.WithCtxValue("lang", lang))
			}
			l := z.String().Min(5).Parse("ab", &s, o...)
			return obs.Multiset(obs.CanonList(l), func(ci obs.CI) string { return ci.Full() })
		}
		lc.want = lc.direct()
		out = append(out, lc)
	}
	out = append(out, c08Wave10Calls()...)
	return out
}

type c08CreateDTO struct {
	Name string
	Age  int
}
type c08UpdateDTO struct {
	Age   int
	Name  string
	Extra string
}
type c08DeepC struct {
	TheInnermostFieldOfTheDocument string `zog:"the_innermost_field_of_the_document"`
}
type c08DeepB struct {
	AnotherQuiteLongFieldName c08DeepC `zog:"another_quite_long_field_name"`
}
type c08DeepA struct {
	AVeryLongFieldNameAtTheTop c08DeepB `zog:"a_very_long_field_name_at_the_top"`
	Short                      string   `zog:"s"`
}

// c08Wave10Calls: shared schemas whose per-call decisions must not be remembered on the schema object: one Ptr(Struct) schema
// allocating nil destinations of two different struct types, one Time schema with a custom layout reading different texts, one
// nested struct whose issue paths are longer than any inline buffer next to calls with short paths. A recovered panic is
// rendered as a result (and a solo result that is a panic is reported by RunCase).
func c08Wave10Calls() []*c08call {
	var out []*c08call
	guard := func(f func() string) (res string) {
		defer func() {
			if r := recover(); r != nil {
				res = fmt.Sprint("PANIC: ", r)
			}
		}()
		return f()
	}
	psch := z.Ptr(z.Struct(z.Schema{"name": z.String().Min(3), "age": z.Int().GT(0)}))
	for _, which := range []string{"create", "update", "create-bad", "update-bad"} {
		which := which
		pc := &c08call{mode: ref.Parse, desc: "one shared Ptr(Struct{name, age}) schema parsed into a nil **" + which + " destination (two destination struct types take turns)"}
		pc.direct = func(opts ...z.ExecOption) string {
			return guard(func() string {
				data := map[string]any{"name": "alice", "age": 30}
				if strings.HasSuffix(which, "-bad") {
					data = map[string]any{"name": "al", "age": 0}
				}
				if strings.HasPrefix(which, "create") {
					var d *c08CreateDTO
					m := psch.Parse(data, &d, opts...)
					all, _ := obs.CanonMap(m)
					return fmt.Sprintf("%+v issues=%v", d, obs.Multiset(all, func(ci obs.CI) string { return ci.Full() }))
				}
				var d *c08UpdateDTO
				m := psch.Parse(data, &d, opts...)
				all, _ := obs.CanonMap(m)
				return fmt.Sprintf("%+v issues=%v", d, obs.Multiset(all, func(ci obs.CI) string { return ci.Full() }))
			})
		}
		pc.want = pc.direct()
		out = append(out, pc)
	}
	tsch := z.Struct(z.Schema{"day": z.Time(z.Time.Format("2006-01-02")).After(time.Date(2000, 1, 1, 0, 0, 0, 0, time.UTC))})
	for _, text := range []string{"2024-01-31", "2023-12-25", "1999-07-04", "2024-02-30", "2031-05-06"} {
		text := text
		tc := &c08call{mode: ref.Parse, desc: "one shared Time(Format(2006-01-02)) schema reading the text " + text}
		tc.direct = func(opts ...z.ExecOption) string {
			return guard(func() string {
				var d struct{ Day time.Time }
				m := tsch.Parse(map[string]any{"day": text}, &d, opts...)
				all, _ := obs.CanonMap(m)
				return d.Day.UTC().Format(time.RFC3339) + " " + obs.Multiset(all, func(ci obs.CI) string { return ci.Full() })
			})
		}
		tc.want = tc.direct()
		out = append(out, tc)
	}
	deep := z.Struct(z.Schema{"aVeryLongFieldNameAtTheTop": z.Struct(z.Schema{"anotherQuiteLongFieldName": z.Struct(z.Schema{"theInnermostFieldOfTheDocument": z.String().Min(5)})}), "short": z.String().Min(5)})
	for _, leaf := range []string{"ab", "abcdefg", "x"} {
		leaf := leaf
		dc := &c08call{mode: ref.Parse, desc: "one shared three-level struct schema whose issue path is 90 bytes long, leaf " + leaf}
		dc.direct = func(opts ...z.ExecOption) string {
			return guard(func() string {
				var d c08DeepA
				m := deep.Parse(map[string]any{"s": leaf, "a_very_long_field_name_at_the_top": map[string]any{"another_quite_long_field_name": map[string]any{"the_innermost_field_of_the_document": leaf}}}, &d, opts...)
				// the caller logs what it got, as a handler would: printing an issue is no business of any other call
				for _, l := range m {
					for _, i := range l {
						_ = i.Error()
						_ = fmt.Sprint(i)
					}
				}
				all, _ := obs.CanonMap(m)
				keys := make([]string, 0, len(m))
				for k := range m {
					if k != "$first" {
						keys = append(keys, k)
					}
				}
				sort.Strings(keys)
				return strings.Join(keys, ",") + " " + obs.Multiset(all, func(ci obs.CI) string { return ci.Full() })
			})
		}
		dc.want = dc.direct()
		out = append(out, dc)
	}
	return out
}

type c08shared struct {
	node     *spec.Node
	built    *spec.Built
	altType  reflect.Type
	inflight int32
}

func c08Result(o *run.Outcome) string {
	if o.Panicked {
		return "PANIC " + fmt.Sprint(o.Panic)
	}
	s := obs.Multiset(o.Issues, func(c obs.CI) string { return c.Full() })
	if len(o.Issues) == 0 {
		s += "\ndest=" + obs.Render(o.Dest)
	}
	return s + fmt.Sprintf("\nnil=%v", o.Nil)
}

func (c08) RunCase(c *core.Ctx) {
	// i18n is installed for the whole round (before the solo results are computed): every call names, or does not name, its language
	// (every second round; the other rounds run with the shipped formatter, one instance shared by all goroutines)
	savedFmt := conf.IssueFormatter
	i18nOn := c.Case%2 == 0
	if i18nOn {
		i18n.SetLanguagesErrsMap(map[string]zconst.LangMap{"en": en.Map, "es": es.Map}, "en")
	}
	defer func() { conf.IssueFormatter = savedFmt }()
	r := c.R
	G := tierN(c.Tier, 16, 48)
	N := tierN(c.Tier, 250, 600)
	var overlapHist [9]int64
	var active sync.Map // gid -> current call id
	var ctxMismatch int64
	var firstCtxMismatch atomic.Value
	shared := make([]*c08shared, c08Schemas)
	hooksFor := func(sh *c08shared) *spec.Hooks {
		check := func(ctx z.Ctx) {
			n := atomic.LoadInt32(&sh.inflight)
			b := int(n)
			if b > 8 {
				b = 8
			}
			atomic.AddInt64(&overlapHist[b], 1)
			gid := ctx.Get("gid")
			call := ctx.Get("call")
			if gid != nil {
				if cur, ok := active.Load(gid); !ok || cur != call {
					if atomic.AddInt64(&ctxMismatch, 1) == 1 {
						firstCtxMismatch.Store(fmt.Sprintf("callback saw gid=%v call=%v but goroutine %v is executing call %v", gid, call, gid, cur))
					}
				}
			}
			// widen interleavings between nodes
			switch x := uint32(time.Now().UnixNano()) % 16; {
			case x < 6:
				runtime.Gosched()
			case x == 6:
				time.Sleep(time.Microsecond * 20)
			}
		}
		return &spec.Hooks{
			OnTest: func(n *spec.Node, t *spec.Test, val any, ctx z.Ctx) { check(ctx) },
			OnPost: func(n *spec.Node, p *spec.Post, ptr any, ctx z.Ctx) { check(ctx) },
		}
	}
	var calls []*c08call
	for i := range shared {
		var n *spec.Node
		switch i % 4 {
		case 0:
			n = c12Schema(r) // every node instrumented with recording tests and post-transforms
			for n.Kind == spec.Pre {
				n = c12Schema(r)
			}
		case 1:
			fo := gen.FrontOpts{MaxDepth: 2, MaxFields: 5}
			n = gen.RecordSchema(r, fo)
			instrument(n, r)
		case 2:
			tagEl := str()
			tagEl.Witness = "tag"
			n = structOf("nick", ptrOf(&spec.Node{Kind: spec.String, Witness: "nickname", Tests: []spec.Test{{Op: spec.TMin, N: 4}}}), "age", ptrOf(&spec.Node{Kind: spec.Int, Witness: 33, Tests: []spec.Test{{Op: spec.TGT, Arg: 10}}}), "tags", sliceOf(tagEl))
			instrument(n, r)
		default:
			n = c02Schema(r)
			for n.Kind == spec.Pre {
				n = c02Schema(r)
			}
			instrument(n, r)
		}
		sh := &c08shared{node: n}
		sh.built = spec.Build(n, hooksFor(sh))
		if n.Kind == spec.Struct && len(n.Fields) >= 2 {
			t1 := n.GoType()
			var fs []reflect.StructField
			for j := t1.NumField() - 1; j >= 0; j-- {
				fs = append(fs, t1.Field(j))
			}
			sh.altType = reflect.StructOf(fs)
		}
		shared[i] = sh
		// the calls on this schema and their solo results (computed alone, before any goroutine starts)
		for k := 0; k < 6; k++ {
			data := gen.ParseInput(r, n, gen.InOpts{ValidPct: 55, AbsentPct: 15, WrongPct: 15, AltRep: true})
			val := gen.ValueTree(r, n, gen.InOpts{ValidPct: 55, AbsentPct: 20}, false)
			for _, mode := range []ref.Mode{ref.Parse, ref.Validate} {
				cl := &c08call{schema: i, mode: mode, data: data, val: val}
				if mode == ref.Parse {
					cl.desc = "Parse " + trunc(obs.Render(obs.Norm(data)), 160)
					cl.want = c08Result(run.Parse(sh.built, data, nil))
				} else {
					cl.desc = "Validate " + trunc(obs.Render(val), 160)
					cl.want = c08Result(run.Validate(sh.built, val))
				}
				calls = append(calls, cl)
				if mode == ref.Parse && sh.altType != nil {
					alt := *cl
					alt.alt = true
					alt.desc += " (destination type with reversed field order)"
					o := run.ParseInto(sh.built, data, reflect.New(sh.altType))
					alt.want = c08Result(o)
					calls = append(calls, &alt)
				}
			}
		}
	}
	// a solo result that is not reproducible alone (visit-order dependent) cannot be compared: verify stability first
	stable := calls[:0]
	for _, cl := range calls {
		sh := shared[cl.schema]
		ok := true
		for rep := 0; rep < 3 && ok; rep++ {
			var o *run.Outcome
			switch {
			case cl.mode == ref.Validate:
				o = run.Validate(sh.built, cl.val)
			case cl.alt:
				o = run.ParseInto(sh.built, cl.data, reflect.New(sh.altType))
			default:
				o = run.Parse(sh.built, cl.data, nil)
			}
			ok = c08Result(o) == cl.want
		}
		if ok {
			stable = append(stable, cl)
		}
	}
	c.Count("calls_unstable_alone_skipped", len(calls)-len(stable))
	calls = stable
	// requests whose body is the JSON literal null: the issue is created by the front end, formatted per call
	for i, sh := range shared {
		if sh.node.Kind == spec.Struct {
			for k := 0; k < 3; k++ {
				calls = append(calls, &c08call{schema: i, mode: ref.Parse, jsonNull: true, desc: "Parse(zjson.Decode(`null`)) with WithIssueFormatter stamping the call id"})
			}
			break
		}
	}
	calls = append(calls, c08DirectCalls()...)
	for _, cl := range calls {
		if cl.direct != nil && strings.HasPrefix(cl.want, "PANIC: ") {
			// the solo results are computed one after the other on the shared schema objects: a panic there is a call whose outcome
			// depends on what the schema object remembered from an earlier call
			c.Violation("call-on-shared-schema-panics-after-another-call|"+cl.mode.String(), map[string]any{"call": cl.desc, "result_alone": cl.want})
			return
		}
	}
	type diverge struct {
		call *c08call
		got  string
		gid  int
	}
	var mu sync.Mutex
	var diverged []diverge
	var overlapped sync.Map
	var total int64
	var wg sync.WaitGroup
	for g := 0; g < G; g++ {
		wg.Add(1)
		gr := r.Fork()
		go func(gid int, gr *rng.Rand) {
			defer wg.Done()
			for k := 0; k < N; k++ {
				ci := gr.Intn(len(calls))
				cl := calls[ci]
				if cl.direct != nil {
					got := cl.direct()
					atomic.AddInt64(&total, 1)
					if got != cl.want {
						mu.Lock()
						if len(diverged) < 5 {
							diverged = append(diverged, diverge{cl, got, gid})
						}
						mu.Unlock()
					}
					continue
				}
				sh := shared[cl.schema]
				callID := fmt.Sprintf("g%d-c%d", gid, k)
				active.Store(gid, callID)
				opts := []z.ExecOption{z.WithCtxValue("gid", gid), z.WithCtxValue("call", callID)}
				n := atomic.AddInt32(&sh.inflight, 1)
				var o *run.Outcome
				switch {
				case cl.jsonNull:
					stamp := "fmt:" + callID
					o = run.Parse(sh.built, zjson.Decode(strings.NewReader("null")), nil, append(opts, z.WithIssueFormatter(func(e *z.ZogIssue, cx z.Ctx) { e.SetMessage(stamp) }))...)
				case cl.mode == ref.Validate:
					o = run.Validate(sh.built, cl.val, opts...)
				case cl.alt:
					o = run.ParseInto(sh.built, cl.data, reflect.New(sh.altType), opts...)
				default:
					o = run.Parse(sh.built, cl.data, nil, opts...)
				}
				n2 := atomic.AddInt32(&sh.inflight, -1)
				atomic.AddInt64(&total, 1)
				if n >= 2 || n2 >= 1 {
					overlapped.Store(ci, true)
				}
				got := c08Result(o)
				if cl.jsonNull {
					ok := !o.Panicked && len(o.Issues) == 1 && o.Issues[0].Code == "invalid_json" && o.Issues[0].Message == "fmt:"+callID && o.Issues[0].Path == ""
					if !ok {
						mu.Lock()
						if len(diverged) < 5 {
							c2 := *cl
							c2.want = "exactly one invalid_json issue at $root whose message is fmt:" + callID
							diverged = append(diverged, diverge{&c2, got, gid})
						}
						mu.Unlock()
					}
				} else if got != cl.want {
					mu.Lock()
					if len(diverged) < 5 {
						diverged = append(diverged, diverge{cl, got, gid})
					}
					mu.Unlock()
				}
				// hand the result back to the pools, as request handlers do
				if !o.Panicked {
					switch gr.Intn(4) {
					case 0:
						if o.IsMap {
							z.Issues.CollectMap(o.RawMap)
						} else {
							z.Issues.CollectList(o.RawList)
						}
					case 1:
						if o.IsMap {
							_ = z.Issues.SanitizeMapAndCollect(o.RawMap)
						} else {
							_ = z.Issues.SanitizeListAndCollect(o.RawList)
						}
					}
				}
			}
		}(g, gr)
	}
	wg.Wait()
	c.Eval(int(total))
	maxOverlap := 0
	for b := range overlapHist {
		if overlapHist[b] > 0 {
			maxOverlap = b
		}
		c.Count(fmt.Sprintf("callbacks_sampled_with_%d_calls_in_flight_on_the_schema", b), int(overlapHist[b]))
	}
	// brand-new schema objects whose very first executions overlap (anything a schema builds lazily on first use is built then)
	{
		enum := make([]string, 3000)
		for i := range enum {
			enum[i] = fmt.Sprintf("v%05d", (i*7919)%3000)
		}
		var badFirst atomic.Value
		for round := 0; round < tierN(c.Tier, 12, 60); round++ {
			fresh := z.String().OneOf(enum).Min(2)
			numList := []int{5, 3, 9, 1, 7, 2, 8, 4, 6, 0, 15, 13, 19, 11, 17, 12, 18, 14, 16, 10, 25, 23, 29}
			nums := z.Int().OneOf(numList)
			start := make(chan struct{})
			var fw sync.WaitGroup
			for g := 0; g < 8; g++ {
				fw.Add(1)
				go func(g int) {
					defer fw.Done()
					<-start
					var s string
					var n int
					member := enum[(g*431+round)%len(enum)]
					if l := fresh.Parse(member, &s); len(l) != 0 {
						badFirst.CompareAndSwap(nil, fmt.Sprintf("OneOf(3000 values) rejected its member %q on a first, overlapping use: %v", member, z.Issues.SanitizeList(l)))
					}
					if l := fresh.Parse("not-a-member", &s); len(l) != 1 {
						badFirst.CompareAndSwap(nil, fmt.Sprintf("OneOf(3000 values) on a non-member: %d issues", len(l)))
					}
					if l := nums.Parse(numList[(g*5+round)%len(numList)], &n); len(l) != 0 {
						badFirst.CompareAndSwap(nil, fmt.Sprintf("Int.OneOf rejected its member %d on a first, overlapping use", numList[(g*5+round)%len(numList)]))
					}
				}(g)
			}
			close(start)
			fw.Wait()
		}
		c.Eval(tierN(c.Tier, 12, 60) * 8 * 3)
		if b := badFirst.Load(); b != nil {
			c.Violation("concurrent-result-differs-from-solo|first-use-of-a-new-schema", map[string]any{"first": b})
		}
	}
	// a short burst of nothing but calls that name different languages: each message must be in the caller's language
	{
		var bad atomic.Value
		var n int64
		var hw sync.WaitGroup
		for g := 0; g < 8; g++ {
			hw.Add(1)
			go func(g int) {
				defer hw.Done()
				var s string
				for k := 0; k < tierN(c.Tier, 1500, 6000); k++ {
					lang := []string{"es", "en", ""}[(g+k)%3]
					var o []z.ExecOption
					if lang != "" {
						o = append(o, z.WithCtxValue("lang", lang))
					}
					l := z.String().Min(5).Parse("ab", &s, o...)
					want := en.Map[zconst.TypeString][zconst.IssueCodeMin]
					if lang == "es" && i18nOn {
						want = es.Map[zconst.TypeString][zconst.IssueCodeMin]
					}
					want = strings.ReplaceAll(want, "{{min}}", "5")
					atomic.AddInt64(&n, 1)
					if len(l) != 1 || l[0].Message != want {
						got := fmt.Sprintf("%d issues", len(l))
						if len(l) == 1 {
							got = l[0].Message
						}
						bad.CompareAndSwap(nil, fmt.Sprintf("language %q: message %q, want %q", lang, got, want))
					}
				}
			}(g)
		}
		hw.Wait()
		c.Eval(int(n))
		c.Count("language_burst_calls", int(n))
		if b := bad.Load(); b != nil {
			c.Violation("concurrent-result-differs-from-solo|language", map[string]any{"first": b, "goroutines": 8})
		}
	}
	for _, d := range diverged {
		src := "schema built directly on the API (see c08DirectCalls)"
		if d.call.direct == nil {
			src = shared[d.call.schema].node.Source()
		}
		c.Violation("concurrent-result-differs-from-solo|"+d.call.mode.String(), map[string]any{"schema": src, "call": d.call.desc, "goroutine": d.gid,
			"result_alone": d.call.want, "result_concurrently": d.got, "goroutines": G})
	}
	if ctxMismatch > 0 {
		c.Violation("callback-saw-another-calls-context", map[string]any{"count": ctxMismatch, "first": firstCtxMismatch.Load()})
	}
	if maxOverlap < 2 {
		c.Count("rounds_without_overlap", 1)
		return
	}
	keys := []int{}
	overlapped.Range(func(k, v any) bool { keys = append(keys, k.(int)); return true })
	sort.Ints(keys)
	for _, k := range keys {
		c.NonTrivial(fpf("round%d|%d", c.Case, k))
	}
	if c.WantSample() {
		c.Sample(map[string]any{"round": c.Case, "goroutines": G, "calls_per_goroutine": N, "shared_schemas": len(shared), "distinct_calls": len(calls), "calls_that_overlapped_on_their_schema": len(keys),
			"example_schema": trunc(shared[0].node.Source(), 400), "example_call": calls[0].desc})
	}
}
