package props

import (
	"fmt"
	"github.com/Oudwins/zog/zhttp"
	"net/http"
	"net/url"
	"reflect"
	"sort"
	"strings"

	z "github.com/Oudwins/zog"

	"zogverif/internal/core"
	"zogverif/internal/obs"
	"zogverif/internal/rng"
)

// C16: Pick, Omit, Extend and Merge build independent schemas with set semantics.
type c16 struct{}

func init() { core.Register(c16{}) }

func (c16) ID() string { return "C16" }

func (c16) Info(t core.Tier) core.Info {
	return core.Info{
		Level: "exploration",
		Rule: "each case = one random history over a base struct schema (3-6 fields, 0-9 struct-level tests and 0-3 post-transforms, so spare slice capacity occurs) of 4-10 steps drawn from Pick / Omit (string and map[string]bool arguments, mixed, overlapping, false entries) / Extend / Merge (2-3 operands) / .TestFunc / .Test / .PostTransform on ANY schema created so far. " +
			"every struct-level test and post-transform carries a unique id and records its invocation. the history is evaluated twice: on the real schemas and in a model (ordered field map, ordered test and post-transform lists) that is compiled into a hand-built z.Struct with the same children, tests and transforms. " +
			"after EVERY step ALL schemas created so far (base included) are executed on 3 inputs (Parse and Validate) and compared with their hand-built equivalents: issues (path, code, message), destination, and the sequence of struct-level test / post-transform ids that ran; operands are snapshot-hashed (deep, incl. unexported fields, len and cap) before and after each helper call. " +
			"non-trivial: history with >= 2 derivatives of one schema and a later .Test*/.PostTransform; distinct by history.",
		Assumptions: commonAssumptions,
		MinDistinct: 50,
	}
}

func (c16) NumCases(t core.Tier) int { return tierN(t, 5000, 150000) }

// the destination universe: every field any schema of a history may name
type c16Dest struct {
	Name, Email, Note, City string
	Age, Count, Zip         int
	Tags                    []string
	Ok                      bool
	Score                   float64
	Addr                    struct {
		Street string
		Zipx   int
	}
}

var c16Keys = []string{"name", "email", "note", "city", "age", "count", "zip", "tags", "ok", "score", "addr"}

// c16Cap sometimes writes a key with a capital first letter ("Name"): another key of the schema that happens to address the same Go
// field as "name". Fields are keyed by their schema key; a union holds both.
func c16Cap(r *rng.Rand, k string) string {
	if r.Intn(4) == 0 && k != "tags" && k != "ok" && k != "score" && k != "addr" {
		return strings.ToUpper(k[:1]) + k[1:]
	}
	return k
}

func c16Child(key string, variant int) z.ZogSchema {
	key = strings.ToLower(key[:1]) + key[1:]
	switch key {
	case "name", "email", "note", "city":
		switch variant % 3 {
		case 0:
			return z.String().Min(3)
		case 1:
			return z.String().Required().Max(6)
		}
		return z.String().Contains("a")
	case "age", "count", "zip":
		switch variant % 3 {
		case 0:
			return z.Int().GT(5)
		case 1:
			return z.Int().Required()
		}
		return z.Int().LT(100)
	case "tags":
		if variant%2 == 0 {
			return z.Slice(z.String()).Min(1)
		}
		return z.Slice(z.String().Min(2)).Required()
	case "ok":
		return z.Bool().True()
	case "addr":
		// nested struct schemas with different fields: on a key conflict the later operand's schema replaces the earlier one as a whole
		switch variant % 3 {
		case 0:
			return z.Struct(z.Schema{"street": z.String().Min(3)})
		case 1:
			return z.Struct(z.Schema{"street": z.String().Required(), "zipx": z.Int().GT(5)})
		}
		return z.Struct(z.Schema{"zipx": z.Int().Required()}).TestFunc(func(any, z.Ctx) bool { return false }, z.Message("addr rule"))
	}
	return z.Float64().GTE(0.5)
}

type c16Model struct {
	fields   map[string]z.ZogSchema
	tests    []int // ids
	posts    []int // ids
	real     *z.StructSchema
	desc     string
	parent   int
	extended bool // a .Test/.PostTransform was added after creation
}

type c16Run struct {
	r      *rng.Rand
	calls  *[]string // invocation log of the currently executing schema
	tests  map[int]z.Test
	posts  map[int]z.PostTransform
	failID map[int]bool
	paths  map[int]string // IssuePath option of a test (if any)
	nextID int
}

func (h *c16Run) newTest() (int, z.Test) {
	id := h.nextID
	h.nextID++
	fail := h.r.Intn(4) == 0
	h.failID[id] = fail
	opts := []z.TestOption{z.Message(fmt.Sprintf("test %d failed", id))}
	if h.r.Intn(4) == 0 {
		// a cross-field rule that files its issue under one of the field keys (which a later Pick / Omit may remove: the rule stays)
		h.paths[id] = c16Keys[h.r.Intn(len(c16Keys))]
		opts = append(opts, z.IssuePath(h.paths[id]))
	}
	t := z.TestFunc(fmt.Sprintf("t%d", id), func(val any, ctx z.Ctx) bool {
		*h.calls = append(*h.calls, fmt.Sprintf("test%d(%T)", id, val))
		return !fail
	}, opts...)
	h.tests[id] = t
	return id, t
}

func (h *c16Run) newPost() (int, z.PostTransform) {
	id := h.nextID
	h.nextID++
	files := h.r.Intn(6) == 0
	p := func(ptr any, ctx z.Ctx) error {
		*h.calls = append(*h.calls, fmt.Sprintf("post%d(%T)", id, ptr))
		if files {
			// a transform that records an issue itself and returns nil: the transforms after it do not run
			ctx.AddIssue(ctx.Issue().SetCode("noted").SetMessage(fmt.Sprintf("post %d noted a problem", id)))
		}
		return nil
	}
	h.posts[id] = p
	return id, p
}

func copyFields(m map[string]z.ZogSchema) map[string]z.ZogSchema {
	out := map[string]z.ZogSchema{}
	for k, v := range m {
		out[k] = v
	}
	return out
}

// handBuilt compiles the model into a schema written out by hand.
func (h *c16Run) handBuilt(m *c16Model) *z.StructSchema {
	sch := z.Schema{}
	for k, v := range m.fields {
		sch[k] = v
	}
	s := z.Struct(sch)
	for _, id := range m.tests {
		s = s.Test(h.tests[id])
	}
	for _, id := range m.posts {
		s = s.PostTransform(h.posts[id])
	}
	return s
}

type c16Obs struct {
	issues string
	dest   string
	calls  string
	panic  string
}

func (h *c16Run) exec(s *z.StructSchema, data map[string]any, val c16Dest, validate bool) (o c16Obs) {
	var log []string
	h.calls = &log
	defer func() {
		if r := recover(); r != nil {
			o.panic = fmt.Sprint(r)
		}
		o.calls = strings.Join(log, ",")
	}()
	var m z.ZogIssueMap
	d := val
	if validate {
		m = s.Validate(&d)
	} else {
		d = c16Dest{}
		m = s.Parse(data, &d)
	}
	all, _ := obs.CanonMap(m)
	o.issues = obs.Multiset(all, func(c obs.CI) string { return c.Path + "|" + c.Code + "|" + c.Message })
	o.dest = fmt.Sprintf("%+v", d)
	return
}

func (h *c16Run) execQuery(s *z.StructSchema, data map[string]any) (o c16Obs) {
	var log []string
	h.calls = &log
	defer func() {
		if r := recover(); r != nil {
			o.panic = fmt.Sprint(r)
		}
		o.calls = strings.Join(log, ",")
	}()
	vals := url.Values{}
	for k, v := range data {
		switch x := v.(type) {
		case []string:
			for _, e := range x {
				vals.Add(k, e)
			}
		case map[string]any:
			for kk, vv := range x {
				vals.Set(kk, fmt.Sprint(vv))
			}
		default:
			vals.Set(k, fmt.Sprint(v))
		}
	}
	rq, _ := http.NewRequest("GET", "/x?"+vals.Encode(), nil)
	var d c16Dest
	m := s.Parse(zhttp.Request(rq), &d)
	all, _ := obs.CanonMap(m)
	o.issues = obs.Multiset(all, func(c obs.CI) string { return c.Path + "|" + c.Code + "|" + c.Message })
	o.dest = fmt.Sprintf("%+v", d)
	return
}

func (h *c16Run) randomInput() (map[string]any, c16Dest) {
	r := h.r
	data := map[string]any{}
	var d c16Dest
	pick := func(vals ...any) any { return vals[r.Intn(len(vals))] }
	for _, k := range c16Keys {
		if r.Intn(5) == 0 {
			continue
		}
		switch k {
		case "name", "email", "note", "city":
			v := pick("ab", "abcd", "banana split", "", "xyz").(string)
			data[k] = v
			reflect.ValueOf(&d).Elem().FieldByName(strings.ToUpper(k[:1]) + k[1:]).SetString(v)
		case "age", "count", "zip":
			v := pick(0, 3, 7, 50, 500).(int)
			data[k] = v
			reflect.ValueOf(&d).Elem().FieldByName(strings.ToUpper(k[:1]) + k[1:]).SetInt(int64(v))
		case "tags":
			v := pick([]string{}, []string{"a"}, []string{"ab", "cd"}).([]string)
			data[k] = v
			d.Tags = v
		case "ok":
			v := r.Bool()
			data[k] = v
			d.Ok = v
		case "score":
			v := pick(0.1, 0.5, 2.5).(float64)
			data[k] = v
			d.Score = v
		case "addr":
			st, zp := pick("ab", "main street", "").(string), pick(0, 3, 70).(int)
			data[k] = map[string]any{"street": st, "zipx": zp}
			d.Addr.Street, d.Addr.Zipx = st, zp
		}
	}
	// the capitalised spelling of a key carries the same value (both spellings fill the same Go field)
	for _, k := range c16Keys {
		if v, ok := data[k]; ok && k != "tags" && k != "ok" && k != "score" && k != "addr" {
			data[strings.ToUpper(k[:1])+k[1:]] = v
		}
	}
	return data, d
}

func selArgs(r *rng.Rand, keys []string) (args []any, desc string, set map[string]bool) {
	set = map[string]bool{}
	n := r.Range(1, 3)
	var parts []string
	for i := 0; i < n; i++ {
		if r.Bool() {
			k := keys[r.Intn(len(keys))]
			args = append(args, k)
			set[k] = true
			parts = append(parts, fmt.Sprintf("%q", k))
		} else {
			m := map[string]bool{}
			var mp []string
			for j := 0; j < r.Range(1, 3); j++ {
				k := keys[r.Intn(len(keys))]
				b := r.Intn(3) != 0
				if old, ok := m[k]; ok {
					b = old
				}
				m[k] = b
			}
			ks := make([]string, 0, len(m))
			for k := range m {
				ks = append(ks, k)
			}
			sort.Strings(ks)
			for _, k := range ks {
				if m[k] {
					set[k] = true // false entries are ignored; strings and true entries form a union
				}
				mp = append(mp, fmt.Sprintf("%q:%v", k, m[k]))
			}
			args = append(args, m)
			parts = append(parts, "map{"+strings.Join(mp, ",")+"}")
		}
	}
	return args, strings.Join(parts, ", "), set
}

func (c16) RunCase(c *core.Ctx) {
	if c.Case%97 == 23 && !w10(c, "C16") {
		return
	}
	r := c.R
	h := &c16Run{r: r, tests: map[int]z.Test{}, posts: map[int]z.PostTransform{}, failID: map[int]bool{}, paths: map[int]string{}}
	var log []string
	h.calls = &log
	// base schema
	nf := r.Range(3, 6)
	perm := r.Perm(len(c16Keys))
	base := &c16Model{fields: map[string]z.ZogSchema{}, parent: -1}
	sch := z.Schema{}
	var baseKeys []string
	for _, i := range perm[:nf] {
		k := c16Keys[i]
		ch := c16Child(k, r.Intn(3))
		base.fields[k] = ch
		sch[k] = ch
		baseKeys = append(baseKeys, k)
	}
	sort.Strings(baseKeys)
	base.real = z.Struct(sch)
	base.desc = fmt.Sprintf("S0 = z.Struct(%v)", baseKeys)
	for i := 0; i < []int{0, 0, 0, 1, 2, 3, 5, 6, 7, 9}[r.Intn(10)]; i++ {
		id, t := h.newTest()
		base.real = base.real.Test(t)
		base.tests = append(base.tests, id)
	}
	for i := 0; i < r.Intn(4); i++ {
		id, p := h.newPost()
		base.real = base.real.PostTransform(p)
		base.posts = append(base.posts, id)
	}
	base.desc += fmt.Sprintf(" with tests %v posts %v", base.tests, base.posts)
	schemas := []*c16Model{base}
	history := []string{base.desc}
	derivCount := map[int]int{}
	nontrivial := false

	probeAll := func(step int) bool {
		for k := 0; k < 3; k++ {
			data, val := h.randomInput()
			for si, m := range schemas {
				hb := h.handBuilt(m)
				for _, validate := range []bool{false, true} {
					got := h.exec(m.real, data, val, validate)
					want := h.exec(hb, data, val, validate)
					c.Eval(2)
					mode := "Parse"
					if validate {
						mode = "Validate"
					} else if got == want && k == 0 {
						// the same record as a query string (a flat source: nested fields are read from the same parameters)
						got, want = h.execQuery(m.real, data), h.execQuery(hb, data)
						mode = "Parse (query string)"
						c.Eval(2)
					}
					if got != want {
						cls := "issues-or-destination"
						if got.panic != want.panic {
							cls = "panic"
						} else if got.issues == want.issues && got.dest == want.dest {
							cls = "tests-or-transforms-that-ran"
						}
						c.Violation("derived-schema-differs-from-hand-built|"+cls, map[string]any{"history": history, "after_step": step, "schema": fmt.Sprintf("S%d", si), "mode": mode,
							"input": obs.Render(obs.Norm(data)), "model_fields": keysOfSchema(m.fields), "model_tests": m.tests, "model_posts": m.posts,
							"observed":   map[string]string{"issues": got.issues, "destination": got.dest, "callbacks_in_order": got.calls, "panic": got.panic},
							"hand_built": map[string]string{"issues": want.issues, "destination": want.dest, "callbacks_in_order": want.calls, "panic": want.panic}})
						return false
					}
				}
			}
		}
		return true
	}
	if !probeAll(0) {
		return
	}
	steps := r.Range(4, 10)
	for step := 1; step <= steps; step++ {
		src := r.Intn(len(schemas))
		sm := schemas[src]
		allKeys := append(keysOfSchema(sm.fields), c16Keys[r.Intn(len(c16Keys))])
		// snapshot every existing schema: helpers must not modify their operands (nor any other schema)
		before := make([]uint64, len(schemas))
		for i, m := range schemas {
			before[i] = obs.Snapshot(m.real)
		}
		var nm *c16Model
		mutated := -1
		op := []int{0, 1, 2, 3, 4, 5, 5, 5, 6, 6, 7, 8, 9, 10}[r.Intn(14)]
		switch op {
		case 10: // a rule is added to a nested field schema object that this schema (and everything derived from or merged with it) holds:
			// every schema holding the object - as the hand-written ones do - runs the rule from now on
			if child, ok := sm.fields["addr"].(*z.StructSchema); ok {
				id := h.nextID
				h.nextID++
				fail := r.Intn(3) == 0
				child.TestFunc(func(val any, ctx z.Ctx) bool {
					*h.calls = append(*h.calls, fmt.Sprintf("nested-rule%d(%T)", id, val))
					return !fail
				}, z.Message(fmt.Sprintf("nested rule %d failed", id)))
				history = append(history, fmt.Sprintf("a rule (nested-rule%d) is added to the addr field schema object of S%d", id, src))
				before = nil
				nontrivial = true
			}
		case 9: // composite: two rule-less schemas merged twice with one rule-only schema, then rules are added to several of the results
			mkPlain := func() *c16Model {
				m := &c16Model{fields: map[string]z.ZogSchema{}, parent: -1}
				sc := z.Schema{}
				k := c16Keys[r.Intn(len(c16Keys))]
				ch := c16Child(k, r.Intn(3))
				sc[k], m.fields[k] = ch, ch
				m.real = z.Struct(sc)
				m.desc = fmt.Sprintf("S%d = z.Struct(%v)", len(schemas), keysOfSchema(m.fields))
				schemas = append(schemas, m)
				history = append(history, m.desc)
				return m
			}
			a, b2 := mkPlain(), mkPlain()
			rules := &c16Model{fields: map[string]z.ZogSchema{}, parent: -1, real: z.Struct(z.Schema{})}
			for i := 0; i < []int{3, 5, 6, 7, 9}[r.Intn(5)]; i++ {
				id, t := h.newTest()
				rules.real = rules.real.Test(t)
				rules.tests = append(rules.tests, id)
				id2, pt := h.newPost()
				if i%2 == 0 {
					rules.real = rules.real.PostTransform(pt)
					rules.posts = append(rules.posts, id2)
				}
			}
			rules.desc = fmt.Sprintf("S%d = z.Struct({}) with tests %v posts %v", len(schemas), rules.tests, rules.posts)
			schemas = append(schemas, rules)
			history = append(history, rules.desc)
			var merged []*c16Model
			for k := 0; k < 2; k++ {
				m := &c16Model{fields: copyFields(a.fields), parent: -1}
				for kk, v := range b2.fields {
					m.fields[kk] = v
				}
				m.tests = append([]int{}, rules.tests...)
				m.posts = append([]int{}, rules.posts...)
				m.real = a.real.Merge(b2.real, rules.real)
				m.desc = fmt.Sprintf("S%d = S%d.Merge(S%d, S%d)", len(schemas), len(schemas)-3-k, len(schemas)-2-k, len(schemas)-1-k)
				schemas = append(schemas, m)
				history = append(history, m.desc)
				merged = append(merged, m)
			}
			for _, m := range append(merged, rules) {
				id, t := h.newTest()
				m.real = m.real.Test(t)
				m.tests = append(m.tests, id)
				id2, pt := h.newPost()
				m.real = m.real.PostTransform(pt)
				m.posts = append(m.posts, id2)
				history = append(history, fmt.Sprintf("(%s).Test(test%d).PostTransform(post%d)", strings.SplitN(m.desc, " ", 2)[0], id, id2))
			}
			nontrivial = true
			before = nil // several schemas were created and extended in this composite step: snapshots do not apply
		case 8: // a new, independent schema: no fields (or one), only struct-level rules (3, 5, 6, 7 or 9 of them leave spare capacity)
			nm = &c16Model{fields: map[string]z.ZogSchema{}, parent: -1}
			sc := z.Schema{}
			if r.Bool() {
				k := c16Cap(r, c16Keys[r.Intn(len(c16Keys))])
				ch := c16Child(k, r.Intn(3))
				sc[k] = ch
				nm.fields[k] = ch
			}
			if len(sc) == 0 && r.Bool() {
				sc = nil // a seed built from a nil Schema (var fields z.Schema) is as good as one built from an empty one
			}
			nm.real = z.Struct(sc)
			for i := 0; i < []int{0, 1, 3, 5, 6, 7, 9}[r.Intn(7)]; i++ {
				id, t := h.newTest()
				nm.real = nm.real.Test(t)
				nm.tests = append(nm.tests, id)
			}
			for i := 0; i < []int{0, 1, 3, 5}[r.Intn(4)]; i++ {
				id, pt := h.newPost()
				nm.real = nm.real.PostTransform(pt)
				nm.posts = append(nm.posts, id)
			}
			nm.desc = fmt.Sprintf("S%d = z.Struct(%v) with tests %v posts %v", len(schemas), keysOfSchema(nm.fields), nm.tests, nm.posts)
		case 0, 1: // Pick
			args, desc, set := selArgs(r, allKeys)
			nm = &c16Model{fields: map[string]z.ZogSchema{}, tests: append([]int{}, sm.tests...), posts: append([]int{}, sm.posts...), parent: src}
			for k := range set {
				if ch, ok := sm.fields[k]; ok {
					nm.fields[k] = ch
				}
			}
			// picking a key the schema does not have yields a nil child in zog; avoid such keys in the real call
			var clean []any
			for _, a := range args {
				switch x := a.(type) {
				case string:
					if _, ok := sm.fields[x]; ok {
						clean = append(clean, x)
					}
				case map[string]bool:
					mm := map[string]bool{}
					for k, v := range x {
						if _, ok := sm.fields[k]; ok {
							mm[k] = v
						}
					}
					clean = append(clean, mm)
				}
			}
			beforeSel := fmt.Sprint(clean...)
			nm.real = sm.real.Pick(clean...)
			nm.desc = fmt.Sprintf("S%d = S%d.Pick(%s)", len(schemas), src, desc)
			if after := fmt.Sprint(clean...); after != beforeSel {
				c.Violation("operand-modified|selection-argument", map[string]any{"call": nm.desc, "arguments_before": beforeSel, "arguments_after": after})
				return
			}
		case 2, 3: // Omit
			args, desc, set := selArgs(r, allKeys)
			nm = &c16Model{fields: copyFields(sm.fields), tests: append([]int{}, sm.tests...), posts: append([]int{}, sm.posts...), parent: src}
			for k := range set {
				delete(nm.fields, k)
			}
			beforeSel := fmt.Sprint(args...)
			nm.real = sm.real.Omit(args...)
			nm.desc = fmt.Sprintf("S%d = S%d.Omit(%s)", len(schemas), src, desc)
			if after := fmt.Sprint(args...); after != beforeSel {
				// the caller goes on using its selection maps (for the next Omit / Pick): they are what it made them
				c.Violation("operand-modified|selection-argument", map[string]any{"call": nm.desc, "arguments_before": beforeSel, "arguments_after": after})
				return
			}
		case 4: // Extend
			ext := z.Schema{}
			nm = &c16Model{fields: copyFields(sm.fields), tests: append([]int{}, sm.tests...), posts: append([]int{}, sm.posts...), parent: src}
			var ks []string
			for j := 0; j < r.Range(1, 3); j++ {
				k := c16Cap(r, c16Keys[r.Intn(len(c16Keys))])
				ch := c16Child(k, r.Intn(3))
				ext[k] = ch
				nm.fields[k] = ch
				ks = append(ks, k)
			}
			nm.real = sm.real.Extend(ext)
			nm.desc = fmt.Sprintf("S%d = S%d.Extend(%v)", len(schemas), src, ks)
			if r.Bool() {
				// the caller goes on using its z.Schema map (to build the next schema): the schema just built keeps the fields it was given
				delete(ext, ks[0])
				other := c16Keys[r.Intn(len(c16Keys))]
				ext[other] = c16Child(other, r.Intn(3))
				nm.desc += " (the argument map is changed afterwards)"
			}
		case 5: // Merge
			others := []int{r.Intn(len(schemas))}
			for r.Intn(10) < 6 && len(others) < 4 {
				others = append(others, r.Intn(len(schemas)))
			}
			nm = &c16Model{fields: copyFields(sm.fields), tests: append([]int{}, sm.tests...), posts: append([]int{}, sm.posts...), parent: src}
			var reals []*z.StructSchema
			for _, oi := range others {
				om := schemas[oi]
				for k, v := range om.fields {
					nm.fields[k] = v
				}
				nm.tests = append(nm.tests, om.tests...)
				nm.posts = append(nm.posts, om.posts...)
				reals = append(reals, om.real)
			}
			nm.real = sm.real.Merge(reals[0], reals[1:]...)
			nm.desc = fmt.Sprintf("S%d = S%d.Merge(S%v)", len(schemas), src, others)
		case 6: // add a test to an existing schema (builder on that schema only)
			id, t := h.newTest()
			if r.Bool() {
				sm.real = sm.real.Test(t)
			} else {
				fail := h.failID[id]
				o := []z.TestOption{z.Message(fmt.Sprintf("test %d failed", id)), z.IssueCode(fmt.Sprintf("t%d", id))}
				if p, ok := h.paths[id]; ok {
					o = append(o, z.IssuePath(p))
				}
				sm.real = sm.real.TestFunc(func(val any, ctx z.Ctx) bool {
					*h.calls = append(*h.calls, fmt.Sprintf("test%d(%T)", id, val))
					return !fail
				}, o...)
			}
			sm.tests = append(sm.tests, id)
			sm.extended = true
			mutated = src
			history = append(history, fmt.Sprintf("S%d.Test(test%d)", src, id))
		case 7:
			id, p := h.newPost()
			sm.real = sm.real.PostTransform(p)
			sm.posts = append(sm.posts, id)
			sm.extended = true
			mutated = src
			history = append(history, fmt.Sprintf("S%d.PostTransform(post%d)", src, id))
		}
		if nm != nil && nm.parent == -1 {
			schemas = append(schemas, nm)
			history = append(history, nm.desc)
			nm = nil
		}
		if nm != nil {
			derivCount[src]++
			schemas = append(schemas, nm)
			history = append(history, nm.desc)
		}
		if mutated >= 0 && derivCount[mutated] >= 1 || (mutated >= 0 && schemas[mutated].parent >= 0 && derivCount[schemas[mutated].parent] >= 2) {
			nontrivial = true
		}
		for i := range before {
			if i == mutated {
				continue
			}
			if after := obs.Snapshot(schemas[i].real); after != before[i] {
				c.Violation("helper-modified-another-schema", map[string]any{"history": history, "step": step, "modified_schema": fmt.Sprintf("S%d", i), "what": "deep snapshot (fields, tests, transforms, len and cap of their lists) changed although the step did not target this schema"})
				return
			}
		}
		if !probeAll(step) {
			return
		}
	}
	c.Count("schemas_probed", len(schemas))
	c.Count("steps", steps)
	if nontrivial {
		c.NonTrivial(strings.Join(history, ";"))
		if c.WantSample() {
			c.Sample(map[string]any{"history": history, "schemas": len(schemas)})
		}
	}
}

func keysOfSchema(m map[string]z.ZogSchema) []string {
	out := make([]string, 0, len(m))
	for k := range m {
		out = append(out, k)
	}
	sort.Strings(out)
	return out
}
