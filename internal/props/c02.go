package props

import (
	"fmt"
	"sort"
	"strings"

	z "github.com/Oudwins/zog"

	"zogverif/internal/core"
	"zogverif/internal/gen"
	"zogverif/internal/obs"
	"zogverif/internal/ref"
	"zogverif/internal/rng"
	"zogverif/internal/run"
	"zogverif/internal/spec"
)

// C02: the issues returned are exactly the violations (multiset of path|code|type against the reference), nil iff none.
type c02 struct{}

func init() { core.Register(c02{}) }

func (c02) ID() string { return "C02" }

func (c02) Info(t core.Tier) core.Info {
	return core.Info{
		Level: "exploration",
		Rule: "each case = one generated schema tree (all node kinds, modifiers, tests, nesting <= 3) x 6 failure-biased inputs x {Parse, Validate} x 3 rebuilds with permuted field insertion order; every 5th case instead 5 failure-biased records of a record schema presented through zjson, a zhttp JSON body, form, query and env (lists with blank occurrences included); " +
			"oracle: multiset of (path, code, type) of the returned issues == reference semantics, and result nil <=> no expected issue. " +
			"non-trivial: >= 2 expected issues at >= 2 distinct nodes, or a required/coerce/not_nil suppression on a node that has tests or children; distinct by (schema, input, mode).",
		Assumptions: commonAssumptions,
		MinDistinct: 50,
	}
}

func (c02) NumCases(t core.Tier) int { return tierN(t, 24000, 600000) }

// orderRecorder records the sequence in which nodes are reached (through probe tests) to fingerprint the field visit order.
type orderRecorder struct{ seq []string }

func (o *orderRecorder) hooks(r *rng.Rand) *spec.Hooks {
	return &spec.Hooks{
		OnTest: func(n *spec.Node, t *spec.Test, val any, ctx z.Ctx) {
			if t.PredName == "probe" {
				o.seq = append(o.seq, fmt.Sprint(n.ID))
			}
		},
		FieldOrder: permutedOrder(r),
	}
}

func addProbes(n *spec.Node) {
	n.Walk(func(x *spec.Node) {
		if x.Kind.IsPrimitive() {
			for _, t := range x.Tests {
				if t.PredName == "probe" {
					return
				}
			}
			x.Tests = append(x.Tests, spec.Test{Op: spec.TCustom, PredName: "probe", Pred: func(any) bool { return true }})
		}
	})
	n.Number()
}

func c02Schema(r *rng.Rand) *spec.Node {
	o := gen.DefaultOpts()
	o.ModChains = r.Intn(3) == 0
	o.Share = r.Intn(5) == 0
	o.Pre = r.Intn(4) == 0
	o.Coercers = r.Intn(4) == 0
	switch r.Intn(10) {
	case 0:
		o.TopKinds = []spec.Kind{spec.Slice}
	case 1:
		o.TopKinds = []spec.Kind{spec.Ptr}
	case 2:
		o.TopKinds = []spec.Kind{spec.String, spec.Int, spec.Float64, spec.Bool, spec.Time, spec.Int64}
	}
	n := gen.Schema(r, o)
	addProbes(n)
	return n
}

func nontrivialC02(res *ref.Result) bool {
	nodes := map[int]bool{}
	for _, x := range res.Issues {
		nodes[x.Node.ID] = true
		if x.Kind == "required" || x.Kind == "coerce" || x.Kind == "not_nil" {
			if len(x.Node.Tests) > 1 || x.Node.Elem != nil || len(x.Node.Fields) > 0 {
				return true
			}
		}
	}
	return len(res.Issues) >= 2 && len(nodes) >= 2
}

// c02Fronts: the same exactness oracle on records presented through every front end (what the front end presents is
// computed independently: decoded JSON, the documented presentation of URL parameters, trimmed environment values).
func c02Fronts(c *core.Ctx) {
	flat := c.R.Intn(10) < 6
	fo := gen.FrontOpts{Flat: flat, EnvOnly: flat && c.R.Intn(3) == 0, MaxDepth: 3, MaxFields: 4, KeepIssuePath: true}
	n := gen.RecordSchema(c.R, fo)
	fronts := []string{"zjson", "zhttp-json"}
	if flat {
		fronts = append(fronts, "form", "query")
		if fo.EnvOnly {
			fronts = append(fronts, "env")
		}
	}
	if c.R.Intn(4) == 0 {
		// the whole record behind a top-level pointer (the documented way to make a request body optional)
		n = &spec.Node{Kind: spec.Ptr, Elem: n}
		n.Number()
	}
	src := n.Source()
	for k := 0; k < 5; k++ {
		rec := gen.GenRecord(c.R, n, 50, fo)
		if m, ok := rec.(map[string]any); ok && len(m) == 0 {
			continue // the empty top-level JSON object is C10's recorded finding (keys of its issues)
		}
		for _, f := range fronts {
			b := spec.Build(n, &spec.Hooks{FieldOrder: permutedOrder(c.R)})
			o, env, data := frontExec(b, n, rec, f, nil, false)
			c.Eval(1)
			exp := ref.Eval(n, env, data, nil)
			if exp.Unknown != "" {
				c.Count("skipped_open_corner", 1)
				continue
			}
			det := map[string]any{"schema": src, "record": obs.Render(rec), "front_end": f, "json_document": gen.RecToJSON(n, rec)}
			if frontIsFlat(f) {
				det["flat_rendering"] = gen.RecToFlat(n, rec, frontTag(f)).Encode()
			}
			if o.Panicked {
				det["panic"], det["stack"] = fmt.Sprint(o.Panic), trunc(o.Stack, 2000)
				c.Violation("panic|"+f, det)
				return
			}
			want, got := expectedTriples(exp), actualTriples(o)
			onlyWant, onlyGot := obs.MultisetDiff(want, got)
			if len(onlyWant) > 0 || len(onlyGot) > 0 {
				cls := "missing"
				if len(onlyWant) == 0 {
					cls = "spurious"
				} else if len(onlyGot) > 0 {
					cls = "different"
				}
				det["expected_issues(path|code|type)"], det["observed_issues"], det["missing"], det["unexpected"] = want, issuesText(o), onlyWant, onlyGot
				c.Violation("issues-"+cls+"|"+f, det)
				return
			}
			if (len(want) == 0) != o.Nil {
				det["expected_issues"], det["result_nil"] = want, o.Nil
				c.Violation("nil-iff-no-violation|"+f, det)
				return
			}
			c.Distinct("front_ends", f)
			c.Count("expected_issues_total", len(exp.Issues))
			if nontrivialC02(exp) {
				c.NonTrivial(fpf("%s|%s|%s", src, f, obs.Render(rec)))
			}
		}
	}
}

func (c02) RunCase(c *core.Ctx) {
	if c.Case%97 == 23 && !w10(c, "C02") {
		return
	}
	if c.Case%100 == 41 {
		// a struct behind Preprocess is handed the field's own value and reports exactly the violations of what the function returned
		c.Eval(1)
		if problem := dPreprocessStruct(); problem != "" {
			c.Violation("issues-differ|Parse|preprocess-around-struct", map[string]any{"schema": "{order: Preprocess(fn -> Order{Qty, Paid, Note}, Struct{Qty: Int().GTE(1), Paid: Bool().True(), Note: String()}), ID: String()}", "observed": problem})
			return
		}
	}
	if c.Case%100 == 43 {
		c.Eval(30)
		if problem, _ := dNamedTypeTests(); problem != "" {
			c.Violation("issues-differ|schemas-over-named-types", map[string]any{"observed": problem})
			return
		}
	}
	if c.Case%100 == 44 {
		// a schema assembled from three operands: a key the second and third operand both define is the third's
		a := z.Struct(z.Schema{"name": z.String().Required()})
		b := z.Struct(z.Schema{"age": z.Int().GT(100), "role": z.String()})
		d := z.Struct(z.Schema{"age": z.Int().LT(18), "role": z.String().Required()})
		var dst struct {
			Name, Role string
			Age        int
		}
		m := a.Merge(b, d).Parse(map[string]any{"name": "n", "age": 50}, &dst)
		c.Eval(1)
		var got []string
		for k, l := range m {
			if k != "$first" {
				for _, e := range l {
					got = append(got, k+":"+e.Code)
				}
			}
		}
		sort.Strings(got)
		if strings.Join(got, ",") != "age:lt,role:required" {
			c.Violation("issues-differ|Parse|merged-schema", map[string]any{"schema": "{name: Required}.Merge({age: GT(100), role}, {age: LT(18), role: Required})", "input": "{name: n, age: 50}", "issues": got, "want": "age:lt, role:required"})
			return
		}
	}
	if c.Case%100 == 42 {
		// a schema built statement by statement: every test declared on the object is run and reported
		st := z.String()
		st.Min(2)
		st.Not().Email()
		st.Not().Contains("@")
		var d string
		l := st.Parse("a@b.co", &d)
		var codes []string
		for _, e := range l {
			codes = append(codes, e.Code)
		}
		sort.Strings(codes)
		c.Eval(1)
		if strings.Join(codes, ",") != "not_contained,not_email" {
			c.Violation("issues-differ|Parse|schema-built-in-statements", map[string]any{"schema": "s := z.String(); s.Min(2); s.Not().Email(); s.Not().Contains(\"@\")", "input": "a@b.co", "codes": codes, "want": "not_contained, not_email"})
			return
		}
	}
	if c.Case%5 == 4 {
		c02Fronts(c)
		return
	}
	n := c02Schema(c.R)
	src := n.Source()
	inOpts := gen.InOpts{ValidPct: 45, AbsentPct: 20, WrongPct: 15, AltRep: true, Decoys: true}
	for k := 0; k < 6; k++ {
		data := gen.ParseInput(c.R, n, inOpts)
		val := gen.ValueTree(c.R, n, gen.InOpts{ValidPct: 50, AbsentPct: 25}, false)
		for _, mode := range []ref.Mode{ref.Parse, ref.Validate} {
			env := &ref.Env{Mode: mode}
			var exp *ref.Result
			var input any
			if mode == ref.Parse {
				prior := gen.Prefill(c.R, n, false)
				exp = ref.Eval(n, env, data, prior)
				input = data
			} else {
				if n.Kind == spec.Pre {
					continue
				}
				exp = ref.Eval(n, env, nil, val)
				input = val
			}
			if exp.Unknown != "" {
				c.Count("skipped_open_corner", 1)
				continue
			}
			want := expectedTriples(exp)
			for rep := 0; rep < 3; rep++ {
				rec := &orderRecorder{}
				b := spec.Build(n, rec.hooks(c.R))
				if rep == 2 {
					warmAlt(c.R, b)
					rec.seq = nil
				}
				if rep == 1 && c.R.Intn(3) == 0 {
					prefillDirty(dirtyFields[c.R.Intn(len(dirtyFields))]) // recycled objects as earlier calls leave them
				}
				var o *run.Outcome
				if mode == ref.Parse {
					o = run.Parse(b, data, nil)
				} else {
					o = run.Validate(b, val)
				}
				c.Eval(1)
				c.Distinct("visit_orders", strings.Join(rec.seq, ","))
				if o.Panicked {
					c.Violation("panic|"+mode.String(), describeCase(n, mode, input, map[string]any{"panic": fmt.Sprint(o.Panic), "stack": trunc(o.Stack, 2500)}))
					break
				}
				got := actualTriples(o)
				onlyWant, onlyGot := obs.MultisetDiff(want, got)
				if len(onlyWant) > 0 || len(onlyGot) > 0 {
					cls := "missing"
					if len(onlyWant) == 0 {
						cls = "spurious"
					} else if len(onlyGot) > 0 {
						cls = "different"
					}
					c.Violation("issues-"+cls+"|"+mode.String(), describeCase(n, mode, input, map[string]any{
						"expected_issues(path|code|type)": want, "observed_issues": issuesText(o), "missing": onlyWant, "unexpected": onlyGot, "visit_order": rec.seq}))
					break
				}
				if (len(want) == 0) != o.Nil {
					c.Violation("nil-iff-no-violation|"+mode.String(), describeCase(n, mode, input, map[string]any{"expected_issues": want, "result_nil": o.Nil}))
					break
				}
			}
			if nontrivialC02(exp) {
				c.NonTrivial(fpf("%s|%s|%s", src, mode, obs.Render(obs.Norm(input))))
			}
			c.Count("expected_issues_total", len(exp.Issues))
			if len(exp.Issues) == 0 {
				c.Count("clean_runs", 1)
			}
			if c.WantSample() && nontrivialC02(exp) {
				c.Sample(describeCase(n, mode, input, map[string]any{"expected_issues(path|code|type)": want}))
			}
		}
	}
}
