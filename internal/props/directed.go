package props

import (
	"fmt"
	"reflect"
	"strings"

	z "github.com/Oudwins/zog"
	"github.com/Oudwins/zog/conf"
	"github.com/Oudwins/zog/zconst"

	"zogverif/internal/obs"
	"zogverif/internal/rng"
)

// Directed scenarios over statically typed schemas that the spec AST cannot express: Preprocess around containers, custom schemas
// of reference types below containers, string schemas over a named type, byte slices. Each function returns "" when everything is
// as the properties say, otherwise a description of what was observed (the calling monitor reports it under its own property).

type dMeta map[string]string

type dItem struct {
	Meta dMeta
	Nums []int
	N    int
}

func dCustomMeta() z.ZogSchema { return z.CustomFunc(func(p *dMeta, c z.Ctx) bool { return true }) }
func dCustomNums() z.ZogSchema { return z.CustomFunc(func(p *[]int, c z.Ctx) bool { return true }) }

// dDefaultSchemas: slice schemas whose Default holds reference-typed values that a custom schema hands to the destination as they
// are, at several depths and behind Preprocess. fresh() returns a new schema plus what a Parse of an absent value must produce.
type dDefaultCase struct {
	name  string
	parse func() (result any, mutate func(), schema any)
}

func dDefaultCases() []dDefaultCase {
	itemSchema := func() *z.StructSchema {
		return z.Struct(z.Schema{"Meta": dCustomMeta(), "Nums": dCustomNums(), "N": z.Int()}) // keys = Go field names: the default items are Go structs
	}
	return []dDefaultCase{
		{"Slice(Struct{custom map, custom []int}).Default", func() (any, func(), any) {
			s := z.Slice(itemSchema()).Default([]dItem{{Meta: dMeta{"env": "prod"}, Nums: []int{1, 2}, N: 1}})
			return dParseSliceTwice[dItem](s, func(d []dItem) { d[0].Meta["env"] = "dev"; d[0].Meta["extra"] = "1"; d[0].Nums[0] = 99 })
		}},
		{"Slice(Slice(custom []int)).Default", func() (any, func(), any) {
			s := z.Slice(z.Slice(dCustomNums())).Default([][][]int{{{1, 2}, {3}}})
			return dParseSliceTwice[[][]int](s, func(d [][][]int) { d[0][0][0] = 99; d[0][1][0] = 98 })
		}},
		{"Slice(Preprocess(fn, Struct{custom map})).Default", func() (any, func(), any) {
			pre := z.Preprocess(func(d any, c z.Ctx) (any, error) { return d, nil }, itemSchema())
			s := z.Slice(pre).Default([]dItem{{Meta: dMeta{"env": "prod"}, Nums: []int{5}, N: 2}})
			return dParseSliceTwice[dItem](s, func(d []dItem) { d[0].Meta["env"] = "dev"; d[0].Nums[0] = 99 })
		}},
		{"Slice(Preprocess(fn, Slice(custom []int))).Default", func() (any, func(), any) {
			pre := z.Preprocess(func(d any, c z.Ctx) (any, error) { return d, nil }, z.Slice(dCustomNums()))
			s := z.Slice(pre).Default([][][]int{{{7, 8}}})
			return dParseSliceTwice[[][]int](s, func(d [][][]int) { d[0][0][1] = 99 })
		}},
		{"Slice(Ptr(Struct{custom map})).Default (Validate)", func() (any, func(), any) {
			s := z.Slice(z.Ptr(itemSchema())).Default([]*dItem{{Meta: dMeta{"env": "prod"}, Nums: []int{4}}})
			var a, b []*dItem
			first := s.Validate(&a)
			if first != nil || len(a) != 1 {
				return fmt.Sprintf("first Validate: issues %v, value %v", z.Issues.SanitizeMap(first), a), nil, nil
			}
			a[0].Meta["env"] = "dev"
			a[0].Nums[0] = 99
			second := s.Validate(&b)
			if second != nil || len(b) != 1 || b[0].Meta["env"] != "prod" || b[0].Nums[0] != 4 {
				return fmt.Sprintf("second Validate after the caller edited its first result: issues %v, value %+v", z.Issues.SanitizeMap(second), *b[0]), nil, nil
			}
			return "", nil, nil
		}},
		{"Slice(custom struct{Primary, Fallback *T}).Default with one pointee reached twice (Validate, Parse)", func() (any, func(), any) {
			type group struct{ Primary, Fallback *dOrder }
			mk := func() (*z.SliceSchema, *dOrder) {
				shared := &dOrder{Qty: 1, Note: "shared"}
				return z.Slice(z.CustomFunc(func(p **group, c z.Ctx) bool { return true })).Default([]*group{{Primary: shared, Fallback: shared}, {Primary: shared}}), shared
			}
			for _, mode := range []string{"Validate", "Parse"} {
				s, shared := mk()
				var a []*group
				var is z.ZogIssueMap
				if mode == "Validate" {
					is = s.Validate(&a)
				} else {
					is = s.Parse(nil, &a)
				}
				if is != nil || len(a) != 2 || a[0] == nil || a[0].Primary == nil || a[0].Fallback == nil || a[1].Primary == nil {
					return fmt.Sprintf("%s: issues %v, value %v", mode, z.Issues.SanitizeMap(is), a), nil, nil
				}
				a[0].Primary.Qty, a[0].Fallback.Qty, a[1].Primary.Qty = 70, 80, 90
				a[0].Fallback.Note = "edited"
				if shared.Qty != 1 || shared.Note != "shared" {
					return fmt.Sprintf("%s: writing through the pointers of the value the default was copied to changed the default's own object: %+v", mode, *shared), nil, nil
				}
			}
			return "", nil, nil
		}},
		{"Slice(custom *tree).Default with a tree 20 levels deep (Validate, Parse)", func() (any, func(), any) {
			type tree struct {
				Label string
				Kids  []*tree
			}
			build := func() *tree {
				root := &tree{Label: "l0"}
				cur := root
				for i := 1; i < 20; i++ {
					k := &tree{Label: fmt.Sprintf("l%d", i)}
					cur.Kids = []*tree{k}
					cur = k
				}
				return root
			}
			for _, mode := range []string{"Validate", "Parse"} {
				def := build()
				s := z.Slice(z.CustomFunc(func(p **tree, c z.Ctx) bool { return true })).Default([]*tree{def})
				var a []*tree
				var is z.ZogIssueMap
				if mode == "Validate" {
					is = s.Validate(&a)
				} else {
					is = s.Parse(nil, &a)
				}
				if is != nil || len(a) != 1 || a[0] == nil {
					return fmt.Sprintf("%s: issues %v", mode, z.Issues.SanitizeMap(is)), nil, nil
				}
				depth := 0
				for cur := a[0]; cur != nil; depth++ {
					cur.Label = "seen:" + cur.Label
					if len(cur.Kids) == 0 {
						break
					}
					cur = cur.Kids[0]
				}
				lvl := 0
				for cur := def; cur != nil; lvl++ {
					if strings.HasPrefix(cur.Label, "seen:") {
						return fmt.Sprintf("%s: relabelling the tree the default was copied to changed the default itself at level %d (of %d)", mode, lvl, depth+1), nil, nil
					}
					if len(cur.Kids) == 0 {
						break
					}
					cur = cur.Kids[0]
				}
			}
			return "", nil, nil
		}},
		{"Slice(String()).Default([]string) validating a value of a named slice type", func() (any, func(), any) {
			type tags []string
			def := []string{"a", "b"}
			s := z.Slice(z.String()).Default(def)
			var v tags
			panicked := false
			func() {
				defer func() {
					if recover() != nil {
						panicked = true // refusing the mismatching types loudly is the library's choice; sharing memory is not
					}
				}()
				s.Validate(&v)
			}()
			if !panicked && len(v) == 2 {
				v[0], v[1] = "A", "B"
				if def[0] != "a" || def[1] != "b" {
					return fmt.Sprintf("the validated value (named slice type) was given the default's own backing array: writing to it changed the default to %v", def), nil, nil
				}
			}
			return "", nil, nil
		}},
		{"Slice(Struct{custom map}).Default holding an empty, non-nil map", func() (any, func(), any) {
			def := []dItem{{Meta: dMeta{}, Nums: []int{}, N: 1}}
			s := z.Slice(itemSchema()).Default(def)
			for _, mode := range []string{"Validate", "Parse"} {
				var a []dItem
				var is z.ZogIssueMap
				if mode == "Validate" {
					is = s.Validate(&a)
				} else {
					is = s.Parse(nil, &a)
				}
				if is != nil || len(a) != 1 || a[0].Meta == nil {
					return fmt.Sprintf("%s: issues %v, value %+v", mode, z.Issues.SanitizeMap(is), a), nil, nil
				}
				a[0].Meta["seen"] = "yes"
				if len(def[0].Meta) != 0 {
					return fmt.Sprintf("%s: a key added to the (empty) map of the value the default was copied to appeared in the default itself: %v", mode, def[0].Meta), nil, nil
				}
			}
			return "", nil, nil
		}},
		{"Slice(custom [2]*int).Default (Validate)", func() (any, func(), any) {
			x, y := 1, 2
			s := z.Slice(z.CustomFunc(func(p *[2]*int, c z.Ctx) bool { return true })).Default([][2]*int{{&x, &y}})
			var a [][2]*int
			if is := s.Validate(&a); is != nil || len(a) != 1 || a[0][0] == nil {
				return fmt.Sprintf("Validate: issues %v", z.Issues.SanitizeMap(is)), nil, nil
			}
			*a[0][0], *a[0][1] = 70, 80
			if x != 1 || y != 2 {
				return fmt.Sprintf("writing through the validated value changed the default's pointees: %d %d", x, y), nil, nil
			}
			return "", nil, nil
		}},
	}
}

// dParseSliceTwice: Parse(nil) -> the caller edits its result in place -> Parse(nil) again: the second result equals the first
// as it was when it was returned.
func dParseSliceTwice[T any](s *z.SliceSchema, edit func([]T)) (any, func(), any) {
	var a, b []T
	if is := s.Parse(nil, &a); is != nil {
		return fmt.Sprintf("first Parse(nil): issues %v", z.Issues.SanitizeMap(is)), nil, nil
	}
	before := fmt.Sprintf("%v", a)
	edit(a)
	if is := s.Parse(nil, &b); is != nil {
		return fmt.Sprintf("second Parse(nil): issues %v", z.Issues.SanitizeMap(is)), nil, nil
	}
	if after := fmt.Sprintf("%v", b); after != before {
		return fmt.Sprintf("the first Parse(nil) gave %s; after the caller edited that result in place the second Parse(nil) gives %s", before, after), nil, nil
	}
	return "", nil, nil
}

// dDefaultsIndependent runs one of the default cases (chosen by r) and returns (name, problem).
func dDefaultsIndependent(r *rng.Rand) (string, string) {
	cs := dDefaultCases()
	c := cs[r.Intn(len(cs))]
	res, _, _ := c.parse()
	msg, _ := res.(string)
	return c.name, msg
}

// ---- Preprocess around a struct (Parse): the function gets the node's own input value and its struct result is parsed like any other record

type dOrder struct {
	Qty  int
	Paid bool
	Note string
}

func dPreprocessStruct() string {
	var got any
	calls := 0
	inner := z.Struct(z.Schema{"Qty": z.Int().GTE(1), "Paid": z.Bool().True(), "Note": z.String()})
	pre := z.Preprocess(func(d any, c z.Ctx) (dOrder, error) {
		calls++
		got = d
		m, _ := d.(map[string]any)
		q, _ := m["q"].(int)
		return dOrder{Qty: q, Paid: false, Note: "n"}, nil
	}, inner)
	type outer struct {
		Order dOrder
		ID    string
	}
	var d outer
	raw := map[string]any{"q": 0}
	is := z.Struct(z.Schema{"order": pre, "ID": z.String()}).Parse(map[string]any{"order": raw, "ID": "x"}, &d)
	if calls != 1 || reflect.ValueOf(got).Kind() != reflect.Map || reflect.ValueOf(got).Pointer() != reflect.ValueOf(raw).Pointer() {
		return fmt.Sprintf("the Preprocess function of a struct field was called %d time(s) with %T instead of once with the field's own input map", calls, got)
	}
	keys := dKeys(is)
	if keys != "order.Paid, order.Qty" {
		return fmt.Sprintf("Preprocess returned {Qty:0 Paid:false}; in Parse 0 and false are present values and fail GTE(1) / True(): want issues at order.Paid and order.Qty, got [%s] (destination %+v)", keys, d)
	}
	return ""
}

// dPreprocessAbsent: a Preprocess function with a concrete input type below a struct field and a slice element whose input is absent
// (missing key, null element). nil is not an int: the function is not handed a made-up 0, and a Required node below it is not
// satisfied by a value nobody sent. Returns (problem about the callback's argument, problem about "no issues").
func dPreprocessAbsent() (argProblem, successProblem string) {
	var args []any
	mk := func() *z.PreprocessSchema[int, string] {
		return z.Preprocess(func(n int, c z.Ctx) (string, error) {
			args = append(args, n)
			return fmt.Sprintf("ORD-%04d", n), nil
		}, z.String().Required().Min(5))
	}
	type order struct {
		Code string
		Qty  int
	}
	var o order
	is := z.Struct(z.Schema{"code": mk(), "qty": z.Int().Required().GT(0)}).Parse(map[string]any{"qty": 3}, &o)
	if len(args) != 0 {
		argProblem = fmt.Sprintf("the key \"code\" is missing from the input, yet the Preprocess function (input type int) was called with %v", args)
	}
	if len(is) == 0 {
		successProblem = fmt.Sprintf("Parse of {qty: 3} returned no issues although the Required string below Preprocess[int, string] has no input (destination %+v)", o)
	}
	args = nil
	var codes []string
	is = z.Slice(mk()).Parse([]any{7, nil}, &codes)
	if len(args) != 1 || args[0] != 7 {
		argProblem = fmt.Sprintf("elements [7, null]: the Preprocess function (input type int) was called with %v, want one call with 7", args)
	}
	if len(is) == 0 {
		successProblem = fmt.Sprintf("Parse of [7, null] returned no issues although element [1] is null and its schema is Required (destination %q)", codes)
	}
	return
}

// dStructInputs: records given as Go structs - by value, through a pointer, as elements of a slice of pointers - whose type embeds a
// pointer to a struct that is nil, read by a schema that names a field promoted through it. Parse reads its input; it never writes
// to it (not even to allocate what it could not find).
type DAudit struct {
	Author string
	Rev    int
}
type dDoc struct {
	*DAudit
	Title string
	Tags  []string
}

func dStructInputs() string {
	sch := func() *z.StructSchema {
		return z.Struct(z.Schema{"Title": z.String().Required(), "Author": z.String().Default("nobody"), "Rev": z.Int(), "Tags": z.Slice(z.String())})
	}
	in := dDoc{Title: "t", Tags: []string{"a", "b"}}
	before := obs.Snapshot(&in)
	var d1, d2 dDoc
	sch().Parse(in, &d1)
	sch().Parse(&in, &d2)
	if in.DAudit != nil || obs.Snapshot(&in) != before {
		return fmt.Sprintf("Parse(&record, &dest) changed the record it was given to read: the nil embedded pointer is now %+v", in.DAudit)
	}
	if d1.DAudit == nil || d2.DAudit == nil || d1.Author != "nobody" || d2.Author != "nobody" || d2.Title != "t" || len(d2.Tags) != 2 {
		return fmt.Sprintf("destinations after Parse(record) / Parse(&record): %+v (%+v) / %+v (%+v), want Title t, Author nobody (the default), two tags", d1, d1.DAudit, d2, d2.DAudit)
	}
	list := []*dDoc{{Title: "x"}, {Title: "y", DAudit: &DAudit{Author: "me"}}}
	b2 := obs.Snapshot(list)
	var out []dDoc
	z.Slice(sch()).Parse(list, &out)
	if list[0].DAudit != nil || obs.Snapshot(list) != b2 {
		return fmt.Sprintf("Parse of a []*record changed its elements: element 0 now has the embedded pointer %+v", list[0].DAudit)
	}
	if len(out) != 2 || out[0].Author != "nobody" || out[1].Author != "me" {
		return fmt.Sprintf("Parse of a []*record gave %+v, want authors nobody (default) and me", out)
	}
	return ""
}

// dFormatterSetParams: one execution runs with an issue formatter that puts its own params on the issue (ZogIssue.SetParams) before it
// formats; the executions before and after it, run without options, give the same message and params: the test keeps its parameters.
func dFormatterSetParams() string {
	type rec struct{ Name string }
	type probe struct {
		name string
		run  func(opts ...z.ExecOption) string
	}
	str := z.String().Min(3)
	st := z.Struct(z.Schema{"name": z.String().Max(2).OneOf([]string{"ab", "cd"})})
	sl := z.Slice(z.Int().GT(5)).Max(1)
	render := func(l []*z.ZogIssue) string {
		var out []string
		for _, e := range l {
			out = append(out, fmt.Sprintf("%s|%s|%v", e.Path, e.Message, fmt.Sprint(e.Params)))
		}
		sortStrings(out)
		return strings.Join(out, "; ")
	}
	flat := func(m z.ZogIssueMap) []*z.ZogIssue {
		var l []*z.ZogIssue
		for k, v := range m {
			if k != "$first" {
				l = append(l, v...)
			}
		}
		return l
	}
	probes := []probe{
		{"String().Min(3) on ab", func(o ...z.ExecOption) string { var d string; return render(str.Parse("ab", &d, o...)) }},
		{"Struct{name: String().Max(2).OneOf(ab, cd)} on xyz", func(o ...z.ExecOption) string {
			var d rec
			return render(flat(st.Parse(map[string]any{"name": "xyz"}, &d, o...)))
		}},
		{"Slice(Int().GT(5)).Max(1) validating [1, 2]", func(o ...z.ExecOption) string { v := []int{1, 2}; return render(flat(sl.Validate(&v, o...))) }},
	}
	annotate := z.WithIssueFormatter(func(e *z.ZogIssue, ctx z.Ctx) {
		e.SetParams(map[string]any{"min": "three", "max": "two", "gt": "five", "field": "username"})
		conf.DefaultIssueFormatter(e, ctx)
	})
	for _, p := range probes {
		first := p.run()
		p.run(annotate)
		if later := p.run(); later != first {
			return fmt.Sprintf("%s: first use gave [%s]; after one execution whose formatter called e.SetParams(...) the same call gives [%s]", p.name, first, later)
		}
	}
	return ""
}

// dModesAgreeOnNames: a fully populated struct whose exported field names start with upper-case letters outside ASCII (written the same
// way in the schema) and one field keyed by the empty string (`zog:""`): Validate of the value and Parse of the map it would be decoded
// from report the same issues and leave equal values.
type dIntl struct {
	Ñame  string
	Émail string
	Дата  int
	Text  string `zog:""`
}

func dModesAgreeOnNames() (problem string) {
	defer func() {
		if r := recover(); r != nil {
			problem = fmt.Sprint("panic: ", r)
		}
	}()
	mk := func() *z.StructSchema {
		return z.Struct(z.Schema{"Ñame": z.String().Min(5), "Émail": z.String().Email(), "Дата": z.Int().GT(10), "text": z.String().Min(5)})
	}
	render := func(m z.ZogIssueMap) string {
		var out []string
		for k, l := range m {
			if k == "$first" {
				continue
			}
			for _, e := range l {
				out = append(out, fmt.Sprintf("%s|%s|%s|%s|%s", k, e.Path, e.Code, e.Dtype, e.Message))
			}
		}
		sortStrings(out)
		return strings.Join(out, "; ")
	}
	for _, val := range []dIntl{{Ñame: "abc", Émail: "nope", Дата: 5, Text: "tx"}, {Ñame: "abcdef", Émail: "a@b.co", Дата: 50, Text: "long text"}} {
		v := val
		iv := render(mk().Validate(&v))
		var d dIntl
		ip := render(mk().Parse(map[string]any{"Ñame": val.Ñame, "Émail": val.Émail, "Дата": val.Дата, "": val.Text}, &d))
		if iv != ip || d != v {
			return fmt.Sprintf("value %+v: Validate reports [%s] and leaves %+v; Parse of the same data reports [%s] and leaves %+v", val, iv, v, ip, d)
		}
	}
	return ""
}

// dValidateNilEmbedded: Validate of a value whose embedded pointer is nil, through a schema that names fields promoted through it (and,
// in the second schema, the embedded pointer itself). The library may refuse such a value loudly (the unchanged tree panics inside
// reflect); what it may not do is report success for required fields that do not exist, change the value, or answer differently from
// run to run. Returns the set of outcomes over `runs` runs and whether the value was changed.
type DStamp struct {
	Rev  int
	By   string
	Note string
}
type dStamped struct {
	*DStamp
	Title string
}

func dValidateNilEmbedded(runs int) (outcomes map[string]int, changed bool) {
	outcomes = map[string]int{}
	one := func(withPtrKey bool) {
		sc := z.Schema{"Rev": z.Int().Required(), "By": z.String().Required(), "title": z.String().Required()}
		if withPtrKey {
			sc = z.Schema{"Rev": z.Int(), "DStamp": z.Ptr(z.Struct(z.Schema{"Note": z.String().Required()})), "title": z.String()}
		}
		v := dStamped{Title: "t"}
		out := ""
		func() {
			defer func() {
				if r := recover(); r != nil {
					out = "panic"
				}
			}()
			m := z.Struct(sc).Validate(&v)
			out = "returned [" + dKeys(m) + "]"
		}()
		if v.DStamp != nil || v.Title != "t" {
			changed = true
		}
		outcomes[fmt.Sprintf("ptrKey=%v: %s", withPtrKey, out)]++
	}
	for i := 0; i < runs; i++ {
		one(false)
		one(true)
	}
	return
}

// dWideAndDeep: (a) Validate of a list of 150 pointers whose last items violate their test; (b) Parse of a record nested 70 levels deep
// (a recursive schema over a linked list) whose innermost node lacks a required field and has a defaulted one. Size is not a reason to
// skip a node. Returns a problem description or "".
type dNode struct {
	Val  int
	Tag  string
	Next *dNode
}

func dWideAndDeep() string {
	vals := make([]*int, 150)
	for i := range vals {
		x := i + 1
		if i >= 120 {
			x = -1
		}
		vals[i] = &x
	}
	m := z.Slice(z.Ptr(z.Int().GT(0))).Validate(&vals)
	n := 0
	for k := range m {
		if k != "$first" {
			n++
		}
	}
	if n != 30 {
		return fmt.Sprintf("Validate of 150 pointers, the last 30 pointing to -1 under Ptr(Int().GT(0)): %d item(s) reported, want 30", n)
	}
	rows := make([]struct{ A, B *int }, 80)
	bad := -5
	ok := 5
	for i := range rows {
		rows[i].A, rows[i].B = &ok, &ok
	}
	rows[79].B = &bad
	m = z.Slice(z.Struct(z.Schema{"A": z.Ptr(z.Int().GT(0)), "B": z.Ptr(z.Int().GT(0))})).Validate(&rows)
	if len(m) == 0 {
		return "Validate of 80 rows with two pointer fields each, the last B pointing to -5 under Ptr(Int().GT(0)): no issue"
	}
	node := z.Schema{"val": z.Int().Required(), "tag": z.String().Default("dflt")}
	sch := z.Struct(node)
	node["next"] = z.Ptr(sch)
	const depth = 70
	var data any = map[string]any{"tag": "leaf"} // innermost: val missing
	for i := 0; i < depth; i++ {
		data = map[string]any{"val": i, "next": data}
	}
	var d dNode
	m = sch.Parse(data, &d)
	keys := dKeys(m)
	if strings.Count(keys, "next") != depth || !strings.HasSuffix(keys, ".val") || strings.Contains(keys, ",") {
		return fmt.Sprintf("Parse of a list nested %d levels deep whose innermost node lacks the required val: issue keys [%s], want exactly one, at next(x%d).val", depth, trunc(keys, 200), depth)
	}
	cur := &d
	for i := 0; i < depth-1; i++ {
		if cur.Next == nil {
			return fmt.Sprintf("Parse of a list nested %d levels deep: level %d was not allocated", depth, i+1)
		}
		cur = cur.Next
	}
	if cur.Tag != "dflt" {
		return fmt.Sprintf("Parse of a list nested %d levels deep: the defaulted tag at level %d is %q, want dflt", depth, depth-1, cur.Tag)
	}
	return ""
}

// dRowTransforms: a list of rows, each row with its own PostTransform, one early row holding an invalid cell: Validate of the value and
// Parse of the same data report the same issues and leave equal values (the transforms of the later rows run in both modes or in neither).
func dRowTransforms() string {
	mk := func() *z.SliceSchema {
		return z.Slice(z.Slice(z.String().Min(2)).PostTransform(func(p any, ctx z.Ctx) error {
			row := p.(*[]string)
			for i := range *row {
				(*row)[i] = strings.ToUpper((*row)[i])
			}
			return nil
		}))
	}
	for _, rows := range [][][]string{{{"a"}, {"bb", "cc"}}, {{"aa"}, {"bb"}}, {{"aa", "b"}, {"cc"}, {"dd"}}} {
		val := make([][]string, len(rows))
		data := make([]any, len(rows))
		for i, r := range rows {
			val[i] = append([]string(nil), r...)
			cells := make([]any, len(r))
			for j := range r {
				cells[j] = r[j]
			}
			data[i] = cells
		}
		iv := dKeys(mk().Validate(&val))
		var d [][]string
		ip := dKeys(mk().Parse(data, &d))
		if iv != ip || fmt.Sprint(val) != fmt.Sprint(d) {
			return fmt.Sprintf("rows %v: Validate reports [%s] and leaves %v; Parse of the same data reports [%s] and leaves %v", rows, iv, val, ip, d)
		}
	}
	return ""
}

// dModesAgreeMore: populated values on which Parse and Validate must agree in issues (path, code, message) and values: a primitive whose
// failed test is caught and whose PostTransform then rewrites the catch value; a top-level pointer schema under an application-wide
// formatter; a field whose zog tag ends in a blank.
type dSpaced struct {
	Email string `zog:"email "`
	Name  string `zog:" name"`
}

func dModesAgreeMore() string {
	upper := func(p any, ctx z.Ctx) error { s := p.(*string); *s = strings.ToUpper(*s); return nil }
	mk := func() *z.StringSchema[string] { return z.String().Min(5).Catch("fallback").PostTransform(upper) }
	v := "abc"
	lv := mk().Validate(&v)
	var d string
	lp := mk().Parse("abc", &d)
	if len(lv) != 0 || len(lp) != 0 || v != d || v != "FALLBACK" {
		return fmt.Sprintf("String().Min(5).Catch(fallback).PostTransform(upper) on \"abc\": Validate leaves %q (%d issues), Parse leaves %q (%d issues); want FALLBACK from both", v, len(lv), d, len(lp))
	}
	type rec struct{ A string }
	st := func() *z.StructSchema { return z.Struct(z.Schema{"a": mk()}) }
	rv := rec{A: "abc"}
	st().Validate(&rv)
	var rp rec
	st().Parse(map[string]any{"a": "abc"}, &rp)
	if rv != rp {
		return fmt.Sprintf("the same as a struct field: Validate leaves %+v, Parse leaves %+v", rv, rp)
	}
	saved := conf.IssueFormatter
	// an application-wide language map whose text mentions the value: the same text in both modes
	conf.IssueFormatter = conf.NewDefaultFormatter(zconst.LangMap{zconst.TypeString: {zconst.IssueCodeMin: "'{{value}}' is shorter than {{min}}", zconst.IssueCodeFallback: "invalid"}})
	tv := "ab"
	l1 := z.String().Min(5).Validate(&tv)
	var td string
	l2 := z.String().Min(5).Parse("ab", &td)
	if len(l1) != 1 || len(l2) != 1 || l1[0].Message != l2[0].Message {
		conf.IssueFormatter = saved
		return fmt.Sprintf("String().Min(5) on \"ab\" under a language map whose min text is \"'{{value}}' is shorter than {{min}}\": Validate says %q, Parse says %q", z.Issues.SanitizeList(l1), z.Issues.SanitizeList(l2))
	}
	// an issue a custom test builds itself with ctx.Issue() refers to the value in both modes, wherever the node sits
	conf.IssueFormatter = conf.NewDefaultFormatter(zconst.LangMap{zconst.TypeString: {"banned": "{{value}} is banned", zconst.IssueCodeFallback: "invalid"}})
	banned := func() *z.StringSchema[string] {
		return z.String().TestFunc(func(v any, ctx z.Ctx) bool { ctx.AddIssue(ctx.Issue().SetCode("banned")); return true })
	}
	type holder struct {
		Direct string
		List   []string
		Ptr    *string
	}
	hs := func() *z.StructSchema {
		return z.Struct(z.Schema{"direct": banned(), "list": z.Slice(banned()), "ptr": z.Ptr(banned())})
	}
	word := "abc"
	hv := holder{Direct: "abc", List: []string{"abc", "xyz"}, Ptr: &word}
	mvv := hs().Validate(&hv)
	var hd holder
	mpp := hs().Parse(map[string]any{"direct": "abc", "list": []any{"abc", "xyz"}, "ptr": "abc"}, &hd)
	collect := func(m z.ZogIssueMap) string {
		var o []string
		for k, l := range m {
			if k != "$first" {
				for _, e := range l {
					o = append(o, k+": "+e.Message)
				}
			}
		}
		sortStrings(o)
		return strings.Join(o, "; ")
	}
	if collect(mvv) != collect(mpp) || !strings.Contains(collect(mvv), "list[1]: xyz is banned") {
		conf.IssueFormatter = saved
		return fmt.Sprintf("a custom test that files ctx.Issue() with code banned (template \"{{value}} is banned\") on a field, on list items and behind a pointer: Validate says [%s], Parse says [%s]", collect(mvv), collect(mpp))
	}
	conf.IssueFormatter = func(e *z.ZogIssue, ctx z.Ctx) { e.SetMessage("app:" + e.Code) }
	ps := "ab"
	pp := &ps
	mv := z.Ptr(z.String().Min(5)).Validate(&pp)
	var dp *string
	mp := z.Ptr(z.String().Min(5)).Parse("ab", &dp)
	conf.IssueFormatter = saved
	msg := func(m z.ZogIssueMap) string {
		var o []string
		for k, l := range m {
			if k != "$first" {
				for _, e := range l {
					o = append(o, k+"|"+e.Code+"|"+e.Message)
				}
			}
		}
		sortStrings(o)
		return strings.Join(o, "; ")
	}
	if msg(mv) != msg(mp) || msg(mv) != "$root|min|app:min" {
		return fmt.Sprintf("Ptr(String().Min(5)) under an application-wide formatter: Validate reports [%s], Parse reports [%s]; want [$root|min|app:min] from both", msg(mv), msg(mp))
	}
	sp := func() *z.StructSchema {
		return z.Struct(z.Schema{"email": z.String().Email(), "name": z.String().Min(5)})
	}
	sv := dSpaced{Email: "nope", Name: "abc"}
	m1 := sp().Validate(&sv)
	var sd dSpaced
	m2 := sp().Parse(map[string]any{"email ": "nope", " name": "abc"}, &sd)
	if msg(m1) != msg(m2) || sd != sv || len(m1) != 3 {
		return fmt.Sprintf("fields tagged `zog:\"email \"` / `zog:\" name\"`: Validate reports [%s] and leaves %+v; Parse of the map keyed the same way reports [%s] and leaves %+v", msg(m1), sv, msg(m2), sd)
	}
	// a custom schema whose function normalises the value through its pointer before it judges it: the same value in both modes
	norm := func() z.ZogSchema {
		return z.CustomFunc(func(p *string, ctx z.Ctx) bool { *p = strings.ToUpper(*p); return len(*p) == 2 }, z.Message("not a country code"))
	}
	type addrT struct {
		Country string
		Codes   []string
	}
	cs := func() *z.StructSchema { return z.Struct(z.Schema{"country": norm(), "codes": z.Slice(norm())}) }
	cv := addrT{Country: "es", Codes: []string{"fr", "deu"}}
	mc1 := cs().Validate(&cv)
	var cd addrT
	mc2 := cs().Parse(map[string]any{"country": "es", "codes": []any{"fr", "deu"}}, &cd)
	if msg(mc1) != msg(mc2) || fmt.Sprint(cv) != fmt.Sprint(cd) || cv.Country != "ES" {
		return fmt.Sprintf("CustomFunc(upper-cases *p, then checks its length) on a field and on list items: Validate reports [%s] and leaves %+v; Parse reports [%s] and leaves %+v", msg(mc1), cv, msg(mc2), cd)
	}
	// an issue a custom schema builds itself for a type that prints through a pointer-receiver String(): the same text in both modes
	conf.IssueFormatter = conf.NewDefaultFormatter(zconst.LangMap{"custom": {"insecure": "{{value}} must use https", zconst.IssueCodeFallback: "invalid"}, zconst.TypeStruct: {zconst.IssueCodeFallback: "invalid"}})
	link := func() z.ZogSchema {
		return z.CustomFunc(func(p *dLink, ctx z.Ctx) bool {
			if p.Scheme != "https" {
				ctx.AddIssue(ctx.Issue().SetCode("insecure"))
			}
			return true
		})
	}
	type page struct{ Home dLink }
	pgv := page{Home: dLink{Scheme: "http", Host: "example.com"}}
	ml1 := z.Struct(z.Schema{"home": link()}).Validate(&pgv)
	var ld page
	ml2 := z.Struct(z.Schema{"home": link()}).Parse(map[string]any{"home": dLink{Scheme: "http", Host: "example.com"}}, &ld)
	conf.IssueFormatter = saved
	if msg(ml1) != msg(ml2) || len(ml1) != 2 {
		return fmt.Sprintf("CustomFunc[Link] (Link has a pointer-receiver String()) filing ctx.Issue() under a template that uses {{value}}: Validate says [%s], Parse says [%s]", msg(ml1), msg(ml2))
	}
	return ""
}

type dLink struct{ Scheme, Host string }

func (l *dLink) String() string { return l.Scheme + "://" + l.Host }

// ---- schemas over named string / bool types (built like the repository's own custom-type tests: the zero schema plus a coercer)

type dColor string

func (c dColor) String() string { return "<" + strings.ToUpper(string(c)) + ">" }

type dFlag bool

func dColorSchema() *z.StringSchema[dColor] {
	s := &z.StringSchema[dColor]{}
	z.WithCoercer(func(x any) (any, error) {
		if c, ok := x.(dColor); ok {
			return c, nil
		}
		v, e := conf.DefaultCoercers.String(x)
		if e != nil {
			return nil, e
		}
		return dColor(v.(string)), nil
	})(s)
	return s
}

func dFlagSchema() *z.BoolSchema[dFlag] {
	s := &z.BoolSchema[dFlag]{}
	z.WithCoercer(func(x any) (any, error) {
		v, e := conf.DefaultCoercers.Bool(x)
		if e != nil {
			return nil, e
		}
		return dFlag(v.(bool)), nil
	})(s)
	return s
}

// dNamedTypeTests: the built-in tests of schemas over named types decide the same predicates and carry the parameters they were built
// with. Returns (problem for "which issues", problem for "what the issue carries").
func dNamedTypeTests() (issuesProblem, describedProblem string) {
	codes := func(l z.ZogIssueList) string {
		var o []string
		for _, e := range l {
			o = append(o, e.Code)
		}
		sortStrings(o)
		return strings.Join(o, ",")
	}
	type tc struct {
		name string
		mk   func() *z.StringSchema[dColor]
		in   string
		want string
	}
	for _, x := range []tc{
		{"ContainsSpecial on Abc1!", func() *z.StringSchema[dColor] { return dColorSchema().ContainsSpecial() }, "Abc1!", ""},
		{"ContainsSpecial on Abc1", func() *z.StringSchema[dColor] { return dColorSchema().ContainsSpecial() }, "Abc1", "contains_special"},
		{"ContainsUpper.ContainsDigit on abc", func() *z.StringSchema[dColor] { return dColorSchema().ContainsUpper().ContainsDigit() }, "abc", "contains_digit,contains_upper"},
		{"Not().ContainsSpecial on a!", func() *z.StringSchema[dColor] { return dColorSchema().Not().ContainsSpecial() }, "a!", "not_contains_special"},
		{"HasSuffix(ed).Contains(gre) on blue", func() *z.StringSchema[dColor] { return dColorSchema().HasSuffix("ed").Contains("gre") }, "blue", "contained,suffix"},
		{"Email.URL.UUID on x", func() *z.StringSchema[dColor] { return dColorSchema().Email().URL().UUID() }, "x", "email,url,uuid"},
		{"OneOf(red, green) on blue", func() *z.StringSchema[dColor] { return dColorSchema().OneOf([]dColor{"red", "green"}) }, "blue", "one_of_options"},
		{"OneOf(red, green) on red", func() *z.StringSchema[dColor] { return dColorSchema().OneOf([]dColor{"red", "green"}) }, "red", ""},
	} {
		var d dColor
		gp := codes(x.mk().Parse(x.in, &d))
		v := dColor(x.in)
		gv := codes(x.mk().Validate(&v))
		if gp != x.want || gv != x.want {
			issuesProblem = fmt.Sprintf("StringSchema[Color] %s: Parse reports [%s], Validate reports [%s], want [%s]", x.name, gp, gv, x.want)
		}
	}
	for _, val := range []bool{true, false} {
		for _, which := range []string{"True", "False", "EQ(true)"} {
			mk := func() *z.BoolSchema[dFlag] {
				switch which {
				case "True":
					return dFlagSchema().True()
				case "False":
					return dFlagSchema().False()
				}
				return dFlagSchema().EQ(true)
			}
			holds := (which == "False") != val
			var d dFlag
			l := mk().Parse(val, &d)
			if (len(l) == 0) != holds {
				issuesProblem = fmt.Sprintf("BoolSchema[Flag].%s on %v: %d issue(s), predicate holds: %v", which, val, len(l), holds)
			}
			if val { // false is the zero value: absent in Validate
				v := dFlag(val)
				if l := mk().Validate(&v); (len(l) == 0) != holds {
					issuesProblem = fmt.Sprintf("BoolSchema[Flag].%s validating %v: %d issue(s), predicate holds: %v", which, val, len(l), holds)
				}
			}
		}
	}
	var d dColor
	l := dColorSchema().HasSuffix("ed").Contains("gre").Not().HasPrefix("bl").Parse("blue", &d)
	for _, e := range l {
		for k, p := range e.Params {
			if _, ok := p.(dColor); !ok {
				describedProblem = fmt.Sprintf("StringSchema[Color]: the %s issue's parameter %q is a %T, the test was built with a Color", e.Code, k, p)
			}
		}
		if e.Code == "suffix" && e.Message != "string must end with <ED>" {
			describedProblem = fmt.Sprintf("StringSchema[Color].HasSuffix(ed): message %q, want the parameter as %%v prints it: string must end with <ED>", e.Message)
		}
	}
	if len(l) != 3 {
		issuesProblem = fmt.Sprintf("StringSchema[Color].HasSuffix(ed).Contains(gre).Not().HasPrefix(bl) on blue: %d issues, want 3", len(l))
	}
	return
}

func dKeys(m z.ZogIssueMap) string {
	var ks []string
	for k := range m {
		if k != "$first" {
			ks = append(ks, k)
		}
	}
	sortStrings(ks)
	return strings.Join(ks, ", ")
}

// ---- string schema over a named type: TestFuncs receive a value of that type

type dEnv string

func dNamedStringTests() string {
	mk := func() *z.StringSchema[dEnv] {
		s := &z.StringSchema[dEnv]{}
		z.WithCoercer(func(x any) (any, error) {
			v, e := conf.DefaultCoercers.String(x)
			if e != nil {
				return nil, e
			}
			return dEnv(v.(string)), e
		})(s)
		return s
	}
	for _, mode := range []string{"Parse", "Validate"} {
		var seen []string
		s := mk().TestFunc(func(val any, ctx z.Ctx) bool {
			seen = append(seen, fmt.Sprintf("%T", val))
			_, ok := val.(dEnv)
			return ok
		})
		var is z.ZogIssueList
		if mode == "Parse" {
			var d dEnv
			is = s.Parse("prod", &d)
		} else {
			d := dEnv("prod")
			is = s.Validate(&d)
		}
		if len(is) != 0 || len(seen) != 1 || seen[0] != "props.dEnv" {
			return fmt.Sprintf("%s: the TestFunc of a StringSchema[dEnv] received %v (issues %v), want one call with a props.dEnv", mode, seen, z.Issues.SanitizeList(is))
		}
	}
	return ""
}

// ---- a []byte field described by Slice(Custom[byte]): Parse of the value presented as a map and Validate agree

func dByteSlice() string {
	type blob struct{ Payload []byte }
	sch := func() *z.StructSchema {
		return z.Struct(z.Schema{"payload": z.Slice(z.CustomFunc(func(p *byte, c z.Ctx) bool { return *p < 200 })).Min(2)})
	}
	for _, payload := range [][]byte{{1, 2, 3}, {1, 250}, {9}} {
		v := blob{Payload: append([]byte{}, payload...)}
		iv := sch().Validate(&v)
		var d blob
		ip := sch().Parse(map[string]any{"payload": payload}, &d)
		if dKeys(iv) != dKeys(ip) || (iv == nil && fmt.Sprint(v.Payload) != fmt.Sprint(d.Payload)) {
			return fmt.Sprintf("payload %v: Validate issues at [%s], value %v; Parse issues at [%s], value %v", payload, dKeys(iv), v.Payload, dKeys(ip), d.Payload)
		}
	}
	return ""
}
