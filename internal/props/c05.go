package props

import (
	"errors"
	"fmt"
	"sort"
	"strings"
	"time"

	z "github.com/Oudwins/zog"

	"zogverif/internal/core"
	"zogverif/internal/gen"
	"zogverif/internal/obs"
	"zogverif/internal/ref"
	"zogverif/internal/rng"
	"zogverif/internal/run"
	"zogverif/internal/spec"
)

// C05: Catch replaces any failure of its own node and only of its own node. Metamorphic differential on the real
// code: schema S (with Catch) against S' (the same builder calls without the Catch calls) on the same input.
type c05 struct{}

func init() { core.Register(c05{}) }

func (c05) ID() string { return "C05" }

func (c05) Info(t core.Tier) core.Info {
	return core.Info{
		Level: "exploration",
		Rule: "each case = one generated schema S with 1+ catching primitives (struct fields next to slice/ptr/struct/custom siblings, slice elements, behind pointers, top level) and its twin S' without the Catch calls, x 6 inputs x {Parse, Validate} x 3 rebuilds with permuted field order. " +
			"oracle (no reference model): issues(S) == issues(S') minus the issues attributed to catching node instances (unique issue codes for their tests/required, path for coerce); a catching instance that failed in S' holds exactly its catch value in S, otherwise the same value as in S'; every other leaf is equal in S and S'. " +
			"in addition, when the catch fired and no issue remains: S' on the input with valid values at the caught positions invokes exactly the same tests and post-transforms of all other nodes as S (a catch must not change what runs elsewhere). " +
			"non-trivial: a catching instance failed in S' and another node also failed or holds a value; distinct by (schema, input, mode).",
		Assumptions: commonAssumptions,
		MinDistinct: 50,
	}
}

func (c05) NumCases(t core.Tier) int { return tierN(t, 20000, 400000) }

func c05Schema(r *rng.Rand) *spec.Node {
	for try := 0; ; try++ {
		o := gen.DefaultOpts()
		o.CatchPct = 45
		o.NoIssuePath = true
		o.Posts = r.Intn(3) == 0
		o.ModChains = r.Intn(4) == 0
		o.Pre = r.Intn(4) == 0 // Preprocess around catching nodes (its function turns the input into the wrapped schema's input)
		o.PreWeight = 8
		switch r.Intn(10) {
		case 0:
			o.TopKinds = []spec.Kind{spec.Slice}
		case 1:
			o.TopKinds = []spec.Kind{spec.Ptr}
		case 2:
			o.TopKinds = []spec.Kind{spec.String, spec.Int, spec.Float64, spec.Bool, spec.Time}
		}
		n := gen.Schema(r, o)
		has := false
		n.Walk(func(x *spec.Node) {
			if x.Kind.IsPrimitive() && x.Eff().HasCatch {
				has = true
			}
		})
		if has || try > 20 {
			addProbes(n)
			return n
		}
	}
}

// markCatching gives every issue a catching node can raise (tests, required) a unique code, so it can be attributed.
func markCatching(n *spec.Node, r *rng.Rand) {
	seen := map[*spec.Node]bool{}
	n.Walk(func(x *spec.Node) {
		if seen[x] || !x.Kind.IsPrimitive() || !x.Eff().HasCatch {
			return
		}
		seen[x] = true
		for i := range x.Tests {
			code := fmt.Sprintf("cc_%d_%d", x.ID, i)
			x.Tests[i].Opts.Path = nil
			if x.Tests[i].PredName != "probe" && r.Intn(5) == 0 {
				// a test that files its issue elsewhere (IssuePath) is still a test of this node: code cp_<node>_<test>
				code = fmt.Sprintf("cp_%d_%d", x.ID, i)
				path := fmt.Sprintf("redirected_%d", x.ID)
				x.Tests[i].Opts.Path = &path
			}
			x.Tests[i].Opts.Code = &code
		}
		for i := range x.Mods {
			if x.Mods[i].Op == spec.MRequired {
				code := fmt.Sprintf("cr_%d", x.ID)
				x.Mods[i].Opts.Code = &code
				x.Mods[i].Opts.Path = nil
			}
		}
	})
}

// withoutCatch clones the tree without the Catch calls (shared nodes stay shared).
func withoutCatch(n *spec.Node, memo map[*spec.Node]*spec.Node) *spec.Node {
	if c, ok := memo[n]; ok {
		return c
	}
	c := *n
	memo[n] = &c
	c.Mods = nil
	for _, m := range n.Mods {
		if m.Op != spec.MCatch {
			c.Mods = append(c.Mods, m)
		}
	}
	if n.Elem != nil {
		c.Elem = withoutCatch(n.Elem, memo)
	}
	c.Fields = nil
	for _, f := range n.Fields {
		f.Node = withoutCatch(f.Node, memo)
		c.Fields = append(c.Fields, f)
	}
	return &c
}

type step struct {
	field string // Go field name ("#" = slice position)
	key   string // key of the field in Parse input
	index int
	deref bool
}

type catchInst struct {
	path  string
	steps []step
	node  *spec.Node
}

// catchInstances enumerates the instances of catching nodes reached for this input (shape only: keys, indices, pointers).
func catchInstances(n *spec.Node, mode ref.Mode, data any, val any, path string, steps []step, out *[]catchInst) {
	cp := func(s step) []step { return append(append([]step{}, steps...), s) }
	switch n.Kind {
	case spec.Struct:
		vm, _ := val.(map[string]any)
		var rec map[string]any
		if mode == ref.Parse {
			m, ok := data.(map[string]any)
			if !ok && data != nil {
				return
			}
			rec = m
		}
		for i := range n.Fields {
			f := &n.Fields[i]
			key := f.DataKey("")
			p := key
			if path != "" {
				p = path + "." + key
			}
			var fd any
			if rec != nil {
				fd = rec[key]
			}
			catchInstances(f.Node, mode, fd, vm[f.GoName], p, cp(step{field: f.GoName, key: key}), out)
		}
	case spec.Slice:
		if mode == ref.Parse {
			var elems []any
			if ref.IsAbsentParse(data) {
				if e := n.Eff(); e.HasDefault {
					elems, _ = ref.SliceElems(e.Default)
				} else {
					return
				}
			} else {
				elems, _ = ref.SliceElems(data)
			}
			for i, el := range elems {
				catchInstances(n.Elem, mode, el, nil, fmt.Sprintf("%s[%d]", path, i), cp(step{index: i, field: "#"}), out)
			}
		} else {
			vs, _ := val.([]any)
			if len(vs) == 0 {
				if e := n.Eff(); e.HasDefault {
					vs, _ = obs.Norm(e.Default).([]any)
				}
			}
			for i, el := range vs {
				catchInstances(n.Elem, mode, nil, el, fmt.Sprintf("%s[%d]", path, i), cp(step{index: i, field: "#"}), out)
			}
		}
	case spec.Ptr:
		if mode == ref.Parse {
			if ref.IsAbsentParse(data) {
				return
			}
			catchInstances(n.Elem, mode, data, nil, path, cp(step{deref: true}), out)
		} else {
			p, ok := val.(obs.PtrV)
			if !ok || p.Nil {
				return
			}
			catchInstances(n.Elem, mode, nil, p.V, path, cp(step{deref: true}), out)
		}
	case spec.Pre:
		// transparent in the destination; the wrapped node is reached whenever the function does not refuse
		catchInstances(n.Elem, mode, data, val, path, steps, out)
	case spec.Custom:
	default:
		if n.Eff().HasCatch {
			*out = append(*out, catchInst{path: path, steps: steps, node: n})
		}
	}
}

func fetch(tree any, steps []step) (any, bool) {
	cur := tree
	for _, s := range steps {
		switch {
		case s.deref:
			p, ok := cur.(obs.PtrV)
			if !ok || p.Nil {
				return nil, false
			}
			cur = p.V
		case s.field == "#":
			sl, ok := cur.([]any)
			if !ok || s.index >= len(sl) {
				return nil, false
			}
			cur = sl[s.index]
		default:
			m, ok := cur.(map[string]any)
			if !ok {
				return nil, false
			}
			cur = m[s.field]
		}
	}
	return cur, true
}

// mask replaces the value at steps by a marker (copy-on-write).
func mask(tree any, steps []step) any {
	if len(steps) == 0 {
		return "<catching>"
	}
	s := steps[0]
	switch {
	case s.deref:
		p, ok := tree.(obs.PtrV)
		if !ok || p.Nil {
			return tree
		}
		return obs.PtrV{V: mask(p.V, steps[1:])}
	case s.field == "#":
		sl, ok := tree.([]any)
		if !ok || s.index >= len(sl) {
			return tree
		}
		c := append([]any{}, sl...)
		c[s.index] = mask(sl[s.index], steps[1:])
		return c
	default:
		m, ok := tree.(map[string]any)
		if !ok {
			return tree
		}
		c := map[string]any{}
		for k, v := range m {
			c[k] = v
		}
		c[s.field] = mask(m[s.field], steps[1:])
		return c
	}
}

// substitute returns the tree with the value at steps replaced (copy-on-write). byKey: tree is Parse input (maps keyed by
// data key, pointers transparent); otherwise a value tree (maps keyed by Go field name, PtrV for pointers). ok=false: the
// position does not exist in this tree in that shape.
func substitute(tree any, steps []step, v any, byKey bool) (any, bool) {
	if len(steps) == 0 {
		return v, true
	}
	s := steps[0]
	switch {
	case s.deref:
		if byKey {
			return substitute(tree, steps[1:], v, byKey)
		}
		p, ok := tree.(obs.PtrV)
		if !ok || p.Nil {
			return nil, false
		}
		in, ok := substitute(p.V, steps[1:], v, byKey)
		return obs.PtrV{V: in}, ok
	case s.field == "#":
		sl, ok := tree.([]any)
		if !ok || s.index >= len(sl) {
			return nil, false
		}
		c := append([]any{}, sl...)
		in, ok := substitute(sl[s.index], steps[1:], v, byKey)
		c[s.index] = in
		return c, ok
	default:
		m, ok := tree.(map[string]any)
		if !ok {
			return nil, false
		}
		k := s.field
		if byKey {
			k = s.key
		}
		if _, has := m[k]; !has {
			return nil, false
		}
		c := map[string]any{}
		for kk, vv := range m {
			c[kk] = vv
		}
		in, ok := substitute(m[k], steps[1:], v, byKey)
		c[k] = in
		return c, ok
	}
}

// eventRecorder counts the callbacks (tests, post-transforms) of every node that is not a catching primitive.
type eventRecorder struct {
	n        map[string]int
	catching map[int]bool // node IDs of the catching primitives of S (the twin's nodes have the same IDs)
}

func (e *eventRecorder) hooks(r *rng.Rand) *spec.Hooks {
	e.n = map[string]int{}
	skip := func(n *spec.Node) bool { return e.catching[n.ID] }
	return &spec.Hooks{
		OnTest: func(n *spec.Node, t *spec.Test, val any, ctx z.Ctx) {
			if !skip(n) {
				e.n[fmt.Sprintf("test:%d:%s", n.ID, t.PredName)]++
			}
		},
		OnPost: func(n *spec.Node, p *spec.Post, ptr any, ctx z.Ctx) {
			if !skip(n) {
				e.n[fmt.Sprintf("post:%d:%s", n.ID, p.Name)]++
			}
		},
		FieldOrder: permutedOrder(r),
	}
}

func (e *eventRecorder) list() []string {
	var out []string
	for k, v := range e.n {
		out = append(out, fmt.Sprintf("%s x%d", k, v))
	}
	sort.Strings(out)
	return out
}

// c05Succeeding: "as if the catching node were an ordinary node" when that ordinary node succeeds. S on the input (the catch
// fires, no issue remains) against S' on the input in which every caught instance carries a valid value instead: both runs are
// then issue-free, so every reached node runs all of its tests and post-transforms exactly once in both.
func c05Succeeding(c *core.Ctx, S, Sp *spec.Node, mode ref.Mode, data, val any, insts []catchInst, failed map[string]bool) bool {
	fixedData, fixedVal := data, val
	for i := range insts {
		in := &insts[i]
		if !failed[in.path] {
			continue
		}
		for _, t := range in.node.Tests {
			if holds, known := ref.TestHolds(&t, in.node.Witness); !known || holds == t.Not {
				return true // no valid value known for this node
			}
		}
		var ok bool
		if mode == ref.Parse {
			fixedData, ok = substitute(fixedData, in.steps, in.node.Witness, true)
		} else {
			fixedVal, ok = substitute(fixedVal, in.steps, in.node.Witness, false)
		}
		if !ok {
			return true
		}
	}
	catching := map[int]bool{}
	S.Walk(func(x *spec.Node) {
		if x.Kind.IsPrimitive() && x.Eff().HasCatch {
			catching[x.ID] = true
		}
	})
	eS, eP := &eventRecorder{catching: catching}, &eventRecorder{catching: catching}
	bS, bP := spec.Build(S, eS.hooks(c.R)), spec.Build(Sp, eP.hooks(c.R))
	var oS, oP *run.Outcome
	if mode == ref.Parse {
		prior := gen.Prefill(c.R, S, false)
		oS, oP = run.Parse(bS, data, prior), run.Parse(bP, fixedData, prior)
	} else {
		oS, oP = run.Validate(bS, val), run.Validate(bP, fixedVal)
	}
	c.Eval(2)
	if oS.Panicked || oP.Panicked || !oS.NoIssues() || !oP.NoIssues() {
		return true // not the situation this relation speaks about
	}
	a, b := eS.list(), eP.list()
	if onlyS, onlyP := obs.MultisetDiff(a, b); len(onlyS) > 0 || len(onlyP) > 0 {
		input, fixed := data, fixedData
		if mode == ref.Validate {
			input, fixed = val, fixedVal
		}
		c.Violation("catch-changed-callbacks-of-other-nodes|"+mode.String(), describeCase(S, mode, input, map[string]any{
			"input_with_valid_values_at_caught_nodes":          obs.Render(obs.Norm(fixed)),
			"callbacks_only_with_catch(kind:node:name xcount)": onlyS, "callbacks_only_with_ordinary_succeeding_node": onlyP,
			"dest_with_catch": obs.Render(oS.Dest), "dest_ordinary": obs.Render(oP.Dest)}))
		return false
	}
	c.Count("succeeding_twin_runs_compared", 1)
	return true
}

func isCatchCode(code string) bool {
	return strings.HasPrefix(code, "cc_") || strings.HasPrefix(code, "cr_")
}

// c05OwnIssue: a custom test of a catching node that files its own issue (built with ctx.Issue(), carrying an error, a code, a
// message or another path) has failed like any other test: no issue, destination == catch value.
func c05OwnIssue(c *core.Ctx) bool {
	variant := c.R.Intn(4)
	file := func(v any, ctx z.Ctx) {
		is := ctx.Issue()
		switch variant {
		case 0:
			is.SetError(errors.New("lookup failed"))
		case 1:
			is.SetCode("app_code").SetMessage("the application's message")
		case 2:
			is.SetPath("elsewhere").SetError(fmt.Errorf("wrapped: %w", errors.New("inner")))
		default:
			is.SetParams(map[string]any{"k": 1})
		}
		ctx.AddIssue(is)
	}
	leaf := func() *z.StringSchema[string] { return z.String().Test(z.Test{Func: file}).Catch("CAUGHT") }
	type rec struct {
		A string
		B string
		L []string
		P *string
	}
	sch := z.Struct(z.Schema{"a": leaf(), "b": z.String().Min(1), "l": z.Slice(leaf()), "p": z.Ptr(leaf())})
	for _, mode := range []string{"Parse", "Validate"} {
		var d rec
		var issues z.ZogIssueMap
		if mode == "Parse" {
			issues = sch.Parse(map[string]any{"a": "value", "b": "ok", "l": []any{"x", "y"}, "p": "z"}, &d)
		} else {
			pv := "z"
			d = rec{A: "value", B: "ok", L: []string{"x", "y"}, P: &pv}
			issues = sch.Validate(&d)
		}
		c.Eval(1)
		ok := issues == nil && d.A == "CAUGHT" && d.B == "ok" && len(d.L) == 2 && d.L[0] == "CAUGHT" && d.L[1] == "CAUGHT" && d.P != nil && *d.P == "CAUGHT"
		if !ok {
			pval := "<nil>"
			if d.P != nil {
				pval = *d.P
			}
			c.Violation("catching-schema-has-extra-issue|"+mode, map[string]any{"schema": "{a: String().Test(files its own issue).Catch(CAUGHT), b: String().Min(1), l: Slice(same leaf), p: Ptr(same leaf)}",
				"what_the_test_files": []string{"issue with an error", "issue with code and message", "issue with another path and a wrapped error", "issue with params"}[variant],
				"issues":              fmt.Sprint(z.Issues.SanitizeMap(issues)), "destination": fmt.Sprintf("A=%q B=%q L=%q P=%q", d.A, d.B, d.L, pval)})
			return false
		}
	}
	c.Count("own_issue_scenarios", 2)
	return true
}

// c05Directed: (a) a failing custom test of a catching node that files an issue of its own AND returns false (two issues from one call):
// none of them is contributed, the destination is the catch value; (b) a custom coercer whose error is a *ZogIssue: a coercion failure
// like any other, the destination is the catch value; (c) a time Catch value taken from time.Now() is handed out as it is.
func c05Directed(c *core.Ctx) bool {
	type rec struct {
		A string
		B string
	}
	for _, mode := range []string{"Parse", "Validate"} {
		st := z.Struct(z.Schema{
			"a": z.String().TestFunc(func(v any, ctx z.Ctx) bool {
				ctx.AddIssue(ctx.Issue().SetCode("explained").SetMessage("why it failed"))
				return false
			}).Catch("caught"),
			"b": z.String().Min(5),
		})
		d := rec{A: "abc", B: "b"}
		var m z.ZogIssueMap
		if mode == "Parse" {
			d = rec{}
			m = st.Parse(map[string]any{"a": "abc", "b": "b"}, &d)
		} else {
			m = st.Validate(&d)
		}
		c.Eval(1)
		if keys := dKeys(m); keys != "b" || d.A != "caught" {
			c.Violation("catching-node-contributed-an-issue|custom-test-filing-two-issues|"+mode, map[string]any{"schema": "{a: String().TestFunc(files ctx.AddIssue(...) and returns false).Catch(caught), b: String().Min(5)}", "issue_keys": keys, "a_after": d.A, "want": "one issue at b, a == caught"})
			return false
		}
	}
	refuse := func(d any) (any, error) {
		if d == "bad" {
			return nil, &z.ZogIssue{Code: "not_a_number", Message: "refused by the coercer"}
		}
		return 7, nil
	}
	n := 3
	l := z.Int(z.WithCoercer(refuse)).GT(100).Catch(50).Parse("bad", &n)
	n2 := 3
	l2 := z.Int(z.WithCoercer(refuse)).Catch(50).Parse("fine", &n2)
	c.Eval(2)
	if len(l) != 0 || n != 50 || len(l2) != 0 || n2 != 7 {
		c.Violation("catch-value-not-placed|coercer-error-is-a-ZogIssue", map[string]any{"schema": "Int(WithCoercer(returns a *ZogIssue as its error for \"bad\", 7 otherwise)).GT(100).Catch(50)", "input": "bad / fine", "issues": fmt.Sprint(z.Issues.SanitizeList(l), z.Issues.SanitizeList(l2)), "destinations": fmt.Sprint(n, n2), "want": "no issues; 50 / 7"})
		return false
	}
	v := time.Now()
	for _, mode := range []string{"Parse", "Validate"} {
		var t time.Time
		var li z.ZogIssueList
		if mode == "Parse" {
			li = z.Time().Catch(v).Parse("not a time", &t)
		} else {
			t = time.Date(2001, 1, 1, 0, 0, 0, 0, time.UTC)
			li = z.Time().After(time.Date(2020, 1, 1, 0, 0, 0, 0, time.UTC)).Catch(v).Validate(&t)
		}
		c.Eval(1)
		if len(li) != 0 || t != v {
			c.Violation("catch-value-not-placed|time-value|"+mode, map[string]any{"schema": "Time().Catch(v) with v := time.Now()", "destination == v": t == v, "destination.Equal(v)": t.Equal(v), "issues": fmt.Sprint(z.Issues.SanitizeList(li))})
			return false
		}
	}
	// (d) Default x Catch: a Default that fails the node's own tests is replaced by the catch value (both modes); an un-coercible input
	// on a node with a Default and a Catch ends in the catch value; (e) a typed-nil element of a []*T input is an element like any other
	for _, mode := range []string{"Parse", "Validate"} {
		sch := func() *z.StringSchema[string] { return z.String().Default("ab").Min(5).Catch("fallback") }
		var d string
		var li z.ZogIssueList
		if mode == "Parse" {
			li = sch().Parse(nil, &d)
		} else {
			li = sch().Validate(&d)
		}
		c.Eval(1)
		if len(li) != 0 || d != "fallback" {
			c.Violation("catch-value-not-placed|default-that-fails-its-tests|"+mode, map[string]any{"schema": "String().Default(ab).Min(5).Catch(fallback)", "input": "absent / zero value", "destination": d, "issues": fmt.Sprint(z.Issues.SanitizeList(li)), "want": "fallback, no issue"})
			return false
		}
	}
	nd := 5
	ln := z.Int().Default(1).Catch(9).Parse("abc", &nd)
	var td time.Time
	lt := z.Time().Default(time.Unix(0, 0)).Catch(time.Unix(99, 0)).Parse("yesterday", &td)
	c.Eval(2)
	if len(ln) != 0 || nd != 9 || len(lt) != 0 || !td.Equal(time.Unix(99, 0)) {
		c.Violation("catch-value-not-placed|uncoercible-input-with-default-and-catch", map[string]any{"schema": "Int().Default(1).Catch(9) on \"abc\"; Time().Default(epoch).Catch(epoch+99s) on \"yesterday\"", "destinations": fmt.Sprint(nd, " ", td.Unix()), "issues": fmt.Sprint(z.Issues.SanitizeList(ln), z.Issues.SanitizeList(lt)), "want": "9 / 99, no issues"})
		return false
	}
	seven := 7
	var nilInt *int
	var outInts []int
	mi := z.Slice(z.Int().GT(5).Catch(7)).Parse([]*int{nilInt, &seven, nilInt}, &outInts)
	c.Eval(1)
	if len(mi) != 0 || fmt.Sprint(outInts) != "[7 7 7]" {
		c.Violation("catch-value-not-placed|typed-nil-list-element", map[string]any{"schema": "Slice(Int().GT(5).Catch(7))", "input": "[]*int{nil, &7, nil}", "destination": fmt.Sprint(outInts), "issues": fmt.Sprint(z.Issues.SanitizeMap(mi)), "want": "[7 7 7], no issue (a nil *int is not an int: un-coercible, caught)"})
		return false
	}
	c.Count("directed_catch_scenarios", 1)
	return true
}

func (c05) RunCase(c *core.Ctx) {
	if c.Case%97 == 23 && !w10(c, "C05") {
		return
	}
	if c.Case%40 == 5 && !c05OwnIssue(c) {
		return
	}
	if c.Case%40 == 6 && !c05Directed(c) {
		return
	}
	S := c05Schema(c.R)
	markCatching(S, c.R)
	Sp := withoutCatch(S, map[*spec.Node]*spec.Node{})
	src := S.Source()
	inOpts := gen.InOpts{ValidPct: 45, AbsentPct: 20, WrongPct: 18, AltRep: true}
	for k := 0; k < 6; k++ {
		data := gen.ParseInput(c.R, S, inOpts)
		val := gen.ValueTree(c.R, S, gen.InOpts{ValidPct: 45, AbsentPct: 25}, false)
		for _, mode := range []ref.Mode{ref.Parse, ref.Validate} {
			if S.Kind == spec.Pre && mode == ref.Validate {
				continue
			}
			var insts []catchInst
			var input any
			if mode == ref.Parse {
				catchInstances(S, mode, data, nil, "", nil, &insts)
				input = data
			} else {
				catchInstances(S, mode, nil, val, "", nil, &insts)
				input = val
			}
			instByPath := map[string]*catchInst{}
			for i := range insts {
				instByPath[insts[i].path] = &insts[i]
			}
			nontrivial := false
			for rep := 0; rep < 3; rep++ {
				recA, recB := &orderRecorder{}, &orderRecorder{}
				bS := spec.Build(S, recA.hooks(c.R))
				bP := spec.Build(Sp, recB.hooks(c.R))
				var oS, oP *run.Outcome
				if mode == ref.Parse {
					prior := gen.Prefill(c.R, S, false)
					oS = run.Parse(bS, data, prior)
					oP = run.Parse(bP, data, prior)
				} else {
					oS = run.Validate(bS, val)
					oP = run.Validate(bP, val)
				}
				c.Eval(2)
				if oS.Panicked || oP.Panicked {
					c.Violation("panic|"+mode.String(), describeCase(S, mode, input, map[string]any{"panic_S": fmt.Sprint(oS.Panic), "panic_S'": fmt.Sprint(oP.Panic), "stack": trunc(oS.Stack+oP.Stack, 2500)}))
					break
				}
				// attribute the issues of S'
				failed := map[string]bool{}
				maybeFailed := map[string]bool{}
				var others []string
				for _, ci := range oP.Issues {
					if strings.HasPrefix(ci.Code, "cp_") {
						// redirected issue: the path does not say which instance failed; exact when the node has one instance
						var id, ti int
						fmt.Sscanf(ci.Code, "cp_%d_%d", &id, &ti)
						var of []*catchInst
						for i := range insts {
							if insts[i].node.ID == id {
								of = append(of, &insts[i])
							}
						}
						for _, in := range of {
							if len(of) == 1 {
								failed[in.path] = true
							} else {
								maybeFailed[in.path] = true
							}
						}
						continue
					}
					if isCatchCode(ci.Code) {
						failed[ci.Path] = true
						continue
					}
					if inst, ok := instByPath[ci.Path]; ok && ci.Dtype == inst.node.DType() {
						// coerce issues and the bool tests (which take no options, so cannot be given a unique code) are attributed by path
						// (the type-mismatch issue of a Preprocess wrapper around the node is the wrapper's, not the catching node's)
						if (ci.Code == "coerce" && !strings.HasPrefix(ci.Err, "preprocess expected")) || (inst.node.Kind == spec.Bool && ci.Code == "eq") {
							failed[ci.Path] = true
							continue
						}
					}
					others = append(others, ci.Triple()+"|"+ci.Message)
				}
				var got []string
				for _, ci := range oS.Issues {
					got = append(got, ci.Triple()+"|"+ci.Message)
				}
				sort.Strings(others)
				sort.Strings(got)
				onlyP, onlyS := obs.MultisetDiff(others, got)
				detail := func(extra map[string]any) map[string]any {
					m := describeCase(S, mode, input, map[string]any{
						"issues_with_catch": issuesText(oS), "issues_without_catch": issuesText(oP),
						"dest_with_catch": obs.Render(oS.Dest), "dest_without_catch": obs.Render(oP.Dest),
						"visit_order_with_catch": recA.seq, "visit_order_without_catch": recB.seq})
					for k, v := range extra {
						m[k] = v
					}
					return m
				}
				if len(onlyP) > 0 {
					c.Violation("catch-swallowed-foreign-issue|"+mode.String(), detail(map[string]any{"issues_of_non_catching_nodes_lost": onlyP}))
					break
				}
				if len(onlyS) > 0 {
					c.Violation("catching-schema-has-extra-issue|"+mode.String(), detail(map[string]any{"unexpected_with_catch": onlyS}))
					break
				}
				// values of catching instances
				bad := false
				mS, mP := oS.Dest, oP.Dest
				for i := range insts {
					in := &insts[i]
					vS, okS := fetch(oS.Dest, in.steps)
					vP, okP := fetch(oP.Dest, in.steps)
					if !okS || !okP {
						continue // position does not exist (e.g. enclosing node failed); nothing to compare
					}
					catchV := in.node.Eff().Catch
					if failed[in.path] {
						if !obs.Equal(vS, catchV) {
							c.Violation("failed-node-does-not-hold-catch-value|"+mode.String(), detail(map[string]any{"node_path": in.path, "holds": obs.Render(vS), "catch_value": obs.Render(catchV)}))
							bad = true
							break
						}
						if len(oP.Issues) > 1 || len(insts) > 1 || len(S.Fields) > 1 {
							nontrivial = true
						}
					} else if maybeFailed[in.path] && obs.Equal(vS, catchV) {
						// one of several instances of this node failed a redirected test: either outcome is consistent
					} else if !obs.Equal(vS, vP) {
						c.Violation("catch-applied-although-node-did-not-fail|"+mode.String(), detail(map[string]any{"node_path": in.path, "with_catch": obs.Render(vS), "without_catch": obs.Render(vP)}))
						bad = true
						break
					}
					mS, mP = mask(mS, in.steps), mask(mP, in.steps)
				}
				if bad {
					break
				}
				if d := obs.Diff(mS, mP, "$"); d != "" {
					c.Violation("other-node-value-differs|"+mode.String(), detail(map[string]any{"difference(with vs without catch)": d}))
					break
				}
				c.Count("catch_instances_failed", len(failed))
				if rep == 0 && len(failed) > 0 && len(oS.Issues) == 0 {
					if !c05Succeeding(c, S, Sp, mode, data, val, insts, failed) {
						break
					}
				}
			}
			if nontrivial {
				c.NonTrivial(fpf("%s|%s|%s", src, mode, obs.Render(obs.Norm(input))))
				if c.WantSample() {
					c.Sample(describeCase(S, mode, input, map[string]any{"catching_instances": len(insts)}))
				}
			}
		}
	}
}
