package props

import (
	"fmt"
	z "github.com/Oudwins/zog"
	"math"
	"reflect"
	"regexp"
	"strings"
	"time"

	"zogverif/internal/core"
	"zogverif/internal/gen"
	"zogverif/internal/obs"
	"zogverif/internal/ref"
	"zogverif/internal/run"
	"zogverif/internal/spec"
)

// C20: built-in tests decide exactly their documented predicate. Single-test schemas against independent predicates,
// exhaustively over small alphabets / ranges, both modes, plain and Not() forms.
type c20 struct{}

func init() { core.Register(c20{}) }

func (c20) ID() string { return "C20" }

type c20cfg struct {
	pre      []spec.Test // tests declared before the judged one; they hold for every subject (a passing test must not end the node)
	kind     spec.Kind
	elem     *spec.Node // slices
	test     spec.Test
	subjects func(t core.Tier) []any // values of the node's Go type (slices: Go slices)
	name     string
}

var c20Alphabet = []string{"a", "Z", "0", "9", "@", "[", "`", "{", "~", "/", ":", "!", " ", "\x7f", "é", "世"}

func stringsUpTo(alpha []string, maxLen int) []any {
	out := []any{""}
	level := []string{""}
	for l := 1; l <= maxLen; l++ {
		var next []string
		for _, p := range level {
			for _, a := range alpha {
				next = append(next, p+a)
			}
		}
		for _, s := range next {
			out = append(out, s)
		}
		level = next
	}
	return out
}

var alphaCache = map[int][]any{}

func alphaSubjects(t core.Tier) []any {
	l := tierN(t, 3, 4)
	if s, ok := alphaCache[l]; ok {
		return s
	}
	s := stringsUpTo(c20Alphabet, l)
	// a few longer subjects around multi-byte boundaries
	s = append(s, "ééééé", "世世", "aaaaaa", "Zzzzzzz9!", "\xc3", "\xe4\xb8", "a\xc3(", "é世a", strings.Repeat("x", 70), "\u017f", "\u212a", "a\u212a9!", "\u0130\u0131")
	// characters of the Unicode classes next to the ASCII ones the character-class tests are documented with: decimal digits of
	// other scripts, other numbers, Latin-1 and general punctuation / symbols, upper-, title- and lower-case letters outside ASCII
	for _, r := range []string{"٣", "３", "५", "²", "½", "Ⅷ", "¡", "¢", "£", "§", "©", "«", "¬", "®", "°", "±", "·", "»", "¿", "×", "÷", "€", "—", "…", "ǅ", "ß", "İ", "ᾈ", "Ａ", "ａ", "É", "Д", "µ", "ª"} {
		s = append(s, r, "a"+r+"b", r+r)
	}
	alphaCache[l] = s
	return s
}

var emailCache = map[int][]any{}

func emailSubjects(t core.Tier) []any {
	l := tierN(t, 5, 6)
	if s, ok := emailCache[l]; ok {
		return s
	}
	s := stringsUpTo([]string{"a", "1", ".", "-", "@", "_", "+", " "}, l)
	lab := func(n int) string { return strings.Repeat("a", n) }
	for _, n := range []int{1, 62, 63, 64, 65} {
		s = append(s, "x@"+lab(n), "x@"+lab(n)+".com", "x@b."+lab(n), "x@-"+lab(n), "x@"+lab(n)+"-")
	}
	s = append(s, "a@b.co", "A.B!#$%&'*+/=?^_`{|}~-@Z9.example", "a@b..c", "a@.b", "a@b.", "a b@c.d", "a@b c.d", "é@b.c", "a@é.c", "a@b.c\n", "\na@b.c", "a@@b.c", "@b.c", "a@", "a(b)@c.d", "\"a\"@c.d", "a@[1.2.3.4]", "a@b_c.d",
		// letters outside ASCII that Unicode case folding maps onto ASCII letters (long s, Kelvin sign): not part of the grammar
		"ma\u017fter@doe.com", "john@\u212aelvin.com", "\u212a@b.co", "a@b.\u017fo", "a@\u017f.co", "a@b.c\u017f", "\u017f@\u017f.\u017f\u017f")
	// grammatical addresses of 255 bytes and more (the grammar bounds labels, not the whole)
	l63 := strings.Repeat("a", 63)
	s = append(s, "user@"+l63+"."+l63+"."+l63+".example.com", strings.Repeat("u", 250)+"@b.co", "x@"+l63+"."+l63+"."+l63+"."+l63+".org", strings.Repeat("u", 243)+"@example.com")
	emailCache[l] = s
	return s
}

func uuidSubjects(core.Tier) []any {
	base := "123e4567-e89b-12d3-a456-426614174000"
	out := []any{base, strings.ToUpper(base), "00000000-0000-0000-0000-000000000000", "ffffffff-ffff-ffff-ffff-ffffffffffff", "", "123e4567e89b12d3a456426614174000", base + "0", "0" + base, base + "\n", " " + base, "{" + base + "}"}
	for i := 0; i < len(base); i++ {
		for _, r := range []string{"g", "-", "0", "F", " ", "é", "G", "_"} {
			out = append(out, base[:i]+r+base[i+1:])
		}
		out = append(out, base[:i]+base[i+1:], base[:i]+"0"+base[i:], base[:i]+"-"+base[i:])
		if i+1 < len(base) {
			out = append(out, base[:i]+base[i+1:i+2]+base[i:i+1]+base[i+2:]) // neighbours swapped (a group boundary moves)
		}
		// double edits keep the length: an even number of stray dashes / digits in wrong places
		for j := i + 1; j < len(base); j++ {
			for _, r := range [][2]string{{"-", "-"}, {"0", "0"}, {"-", "0"}, {"0", "-"}} {
				out = append(out, base[:i]+r[0]+base[i+1:j]+r[1]+base[j+1:])
			}
		}
	}
	return out
}

func urlSubjects(core.Tier) []any {
	var out []any
	for _, k := range ref.URLPoolKeys() {
		out = append(out, k)
	}
	return out
}

func numSubjects(k spec.Kind, n any) []any {
	var out []any
	switch k {
	case spec.Int, spec.Int32, spec.Int64:
		v := reflect.ValueOf(n).Int()
		lo, hi := int64(math.MinInt64), int64(math.MaxInt64)
		if k == spec.Int32 {
			lo, hi = math.MinInt32, math.MaxInt32
		}
		for _, d := range []int64{-2, -1, 0, 1, 2} {
			x := v + d
			if (d > 0 && x < v) || (d < 0 && x > v) || x < lo || x > hi {
				continue
			}
			out = append(out, reflect.ValueOf(x).Convert(reflect.TypeOf(n)).Interface())
		}
		for _, x := range []int64{0, 1, -1, lo, hi} {
			out = append(out, reflect.ValueOf(x).Convert(reflect.TypeOf(n)).Interface())
		}
	case spec.Float64:
		v := n.(float64)
		out = append(out, v, math.Nextafter(v, math.Inf(1)), math.Nextafter(v, math.Inf(-1)), v+1, v-1, 0.0, math.Copysign(0, -1), math.NaN(), math.Inf(1), math.Inf(-1), math.MaxFloat64, -math.MaxFloat64, math.SmallestNonzeroFloat64)
	case spec.Float32:
		v := n.(float32)
		out = append(out, v, math.Nextafter32(v, float32(math.Inf(1))), math.Nextafter32(v, float32(math.Inf(-1))), v+1, v-1, float32(0), float32(math.Copysign(0, -1)), float32(math.NaN()), float32(math.Inf(1)), float32(math.Inf(-1)), float32(math.MaxFloat32))
	}
	return out
}

func numParams(k spec.Kind) []any {
	switch k {
	case spec.Int:
		return []any{0, 5, -5, math.MaxInt, math.MinInt, 1 << 53}
	case spec.Int32:
		return []any{int32(0), int32(5), int32(-5), int32(math.MaxInt32), int32(math.MinInt32)}
	case spec.Int64:
		return []any{int64(0), int64(5), int64(-5), int64(math.MaxInt64), int64(math.MinInt64)}
	case spec.Float32:
		return []any{float32(0), float32(5), float32(-5.5), float32(math.MaxFloat32), float32(math.NaN()), float32(math.Inf(1)), float32(1 << 24)}
	case spec.Float64:
		return []any{0.0, 5.0, -5.5, 0.1, math.MaxFloat64, math.NaN(), math.Inf(1), math.Inf(-1), float64(1 << 53)}
	}
	return nil
}

var c20Configs = buildC20Configs()

func buildC20Configs() []c20cfg {
	var out []c20cfg
	addS := func(name string, t spec.Test, subj func(core.Tier) []any, withNot bool) {
		out = append(out, c20cfg{kind: spec.String, test: t, subjects: subj, name: name})
		if withNot {
			t.Not = true
			out = append(out, c20cfg{kind: spec.String, test: t, subjects: subj, name: "Not()." + name})
		}
	}
	for n := 0; n <= 5; n++ {
		addS(fmt.Sprintf("String.Min(%d)", n), spec.Test{Op: spec.TMin, N: n}, alphaSubjects, false)
		addS(fmt.Sprintf("String.Max(%d)", n), spec.Test{Op: spec.TMax, N: n}, alphaSubjects, false)
		addS(fmt.Sprintf("String.Len(%d)", n), spec.Test{Op: spec.TLen, N: n}, alphaSubjects, true)
	}
	addS("String.ContainsUpper", spec.Test{Op: spec.TContainsUpper}, alphaSubjects, true)
	addS("String.ContainsDigit", spec.Test{Op: spec.TContainsDigit}, alphaSubjects, true)
	addS("String.ContainsSpecial", spec.Test{Op: spec.TContainsSpecial}, alphaSubjects, true)
	// every single byte / rune as a one-character subject for the class tests
	allChars := func(core.Tier) []any {
		var s []any
		for b := 0; b < 256; b++ {
			s = append(s, string([]byte{byte(b)}), "x"+string([]byte{byte(b)})+"y")
		}
		for _, r := range []rune{0x100, 0x391, 0xff21, 0xff10, 0x2019, 0x1F600, 0x00c0, 0x0660} {
			s = append(s, string(r))
		}
		// every code point of Latin-1 Supplement and Latin Extended-A as text (the bytes above are not valid UTF-8 on their own)
		for r := rune(0x80); r < 0x180; r++ {
			s = append(s, string(r), "x"+string(r)+"y")
		}
		return s
	}
	addS("String.ContainsUpper/allbytes", spec.Test{Op: spec.TContainsUpper}, allChars, true)
	addS("String.ContainsDigit/allbytes", spec.Test{Op: spec.TContainsDigit}, allChars, true)
	addS("String.ContainsSpecial/allbytes", spec.Test{Op: spec.TContainsSpecial}, allChars, true)
	for _, p := range []string{"", "a", "Z0", "é", "\xc3", "世", "a@", " ", "aa"} {
		addS(fmt.Sprintf("String.HasPrefix(%q)", p), spec.Test{Op: spec.THasPrefix, Arg: p}, alphaSubjects, true)
		addS(fmt.Sprintf("String.HasSuffix(%q)", p), spec.Test{Op: spec.THasSuffix, Arg: p}, alphaSubjects, true)
		addS(fmt.Sprintf("String.Contains(%q)", p), spec.Test{Op: spec.TContains, Arg: p}, alphaSubjects, true)
	}
	for _, l := range [][]string{{}, {"a"}, {"a", "Z0", ""}, {"é", "世", " "}, {"A", "z"}} {
		addS(fmt.Sprintf("String.OneOf(%q)", l), spec.Test{Op: spec.TOneOf, Arg: l}, alphaSubjects, true)
	}
	addS("String.Email", spec.Test{Op: spec.TEmail}, emailSubjects, true)
	addS("String.UUID", spec.Test{Op: spec.TUUID}, uuidSubjects, true)
	addS("String.URL", spec.Test{Op: spec.TURL}, urlSubjects, true)
	for _, e := range ref.RegexCatalogue {
		subj := func(t core.Tier) []any {
			s := append([]any{}, alphaSubjects(t)...)
			return append(s, "foo", "xfoox", "abc", "a\nc", "a世c", "123", "1234", "abcz", "ab1", "yes", "oh yes", "yes!", "ok", "look", "ok\n", "v1.0", "v1x0", "xv1.0", "v1.00", "abcé", "éabc", "yes\nyes")
		}
		addS(fmt.Sprintf("String.Match(/%s/)", e.Pattern), spec.Test{Op: spec.TMatch, Re: regexp.MustCompile(e.Pattern)}, subj, true)
	}
	// numbers
	for _, k := range []spec.Kind{spec.Int, spec.Int32, spec.Int64, spec.Float32, spec.Float64} {
		for _, n := range numParams(k) {
			n := n
			k := k
			for _, op := range []spec.TestOp{spec.TEQ, spec.TLT, spec.TLTE, spec.TGT, spec.TGTE} {
				out = append(out, c20cfg{kind: k, test: spec.Test{Op: op, Arg: n}, subjects: func(core.Tier) []any { return numSubjects(k, n) }, name: fmt.Sprintf("%s.%s(%v)", k, op, n)})
			}
			list := reflect.MakeSlice(reflect.SliceOf(reflect.TypeOf(n)), 0, 2)
			list = reflect.Append(list, reflect.ValueOf(n))
			list = reflect.Append(list, reflect.Zero(reflect.TypeOf(n)))
			out = append(out, c20cfg{kind: k, test: spec.Test{Op: spec.TOneOf, Arg: list.Interface()}, subjects: func(core.Tier) []any { return numSubjects(k, n) }, name: fmt.Sprintf("%s.OneOf(%v)", k, list.Interface())})
		}
	}
	// bool
	bools := func(core.Tier) []any { return []any{true, false} }
	out = append(out, c20cfg{kind: spec.Bool, test: spec.Test{Op: spec.TTrue}, subjects: bools, name: "Bool.True"},
		c20cfg{kind: spec.Bool, test: spec.Test{Op: spec.TFalse}, subjects: bools, name: "Bool.False"},
		c20cfg{kind: spec.Bool, test: spec.Test{Op: spec.TEQ, Arg: true}, subjects: bools, name: "Bool.EQ(true)"},
		c20cfg{kind: spec.Bool, test: spec.Test{Op: spec.TEQ, Arg: false}, subjects: bools, name: "Bool.EQ(false)"})
	// time
	zones := []*time.Location{time.UTC, time.FixedZone("east", 5*3600+1800), time.FixedZone("west", -8*3600)}
	for zi, z := range zones {
		p := gen.BaseTime.In(z)
		subj := func(core.Tier) []any {
			var s []any
			for _, d := range []time.Duration{-time.Hour, -time.Second, -1, 0, 1, time.Second, time.Hour} {
				for _, z2 := range zones {
					s = append(s, gen.BaseTime.Add(d).In(z2))
				}
			}
			s = append(s, time.Unix(0, 0).UTC(), time.Date(1, 1, 1, 0, 0, 0, 1, time.UTC), time.Date(9999, 12, 31, 23, 59, 59, 999999999, time.UTC),
				// the year-1 instant carried in a zone: the same instant as time.Time{} but not the zero value of the type
				time.Time{}.In(zones[1]), time.Time{}.In(zones[2]), time.Date(1, 1, 1, 5, 30, 0, 0, zones[1]), time.Unix(-62135596800, 0))
			return s
		}
		for _, op := range []spec.TestOp{spec.TAfter, spec.TBefore, spec.TEQ} {
			out = append(out, c20cfg{kind: spec.Time, test: spec.Test{Op: op, Arg: p}, subjects: subj, name: fmt.Sprintf("Time.%s(base in zone %d)", op, zi)})
			if zi == 0 {
				// the zero instant is a bound like any other (also when it is carried in a zone)
				out = append(out, c20cfg{kind: spec.Time, test: spec.Test{Op: op, Arg: time.Time{}}, subjects: subj, name: fmt.Sprintf("Time.%s(zero time)", op)},
					c20cfg{kind: spec.Time, test: spec.Test{Op: op, Arg: time.Time{}.In(zones[1])}, subjects: subj, name: fmt.Sprintf("Time.%s(zero instant in a zone)", op)})
			}
		}
	}
	// slices: lengths
	strElem := &spec.Node{Kind: spec.String}
	lens := func(core.Tier) []any {
		var s []any
		for l := 0; l <= 6; l++ {
			sl := make([]string, l)
			for i := range sl {
				sl[i] = "e"
			}
			s = append(s, sl)
		}
		s = append(s, []string(nil))
		return s
	}
	for n := 0; n <= 5; n++ {
		out = append(out, c20cfg{kind: spec.Slice, elem: strElem, test: spec.Test{Op: spec.TMin, N: n}, subjects: lens, name: fmt.Sprintf("Slice.Min(%d)", n)},
			c20cfg{kind: spec.Slice, elem: strElem, test: spec.Test{Op: spec.TMax, N: n}, subjects: lens, name: fmt.Sprintf("Slice.Max(%d)", n)},
			c20cfg{kind: spec.Slice, elem: strElem, test: spec.Test{Op: spec.TLen, N: n}, subjects: lens, name: fmt.Sprintf("Slice.Len(%d)", n)})
	}
	// the judged test is not the first one declared on the slice: an always-true test comes first
	for n := 0; n <= 3; n++ {
		always := []spec.Test{{Op: spec.TMin, N: 0}}
		out = append(out, c20cfg{kind: spec.Slice, elem: strElem, pre: always, test: spec.Test{Op: spec.TMax, N: n}, subjects: lens, name: fmt.Sprintf("Slice.Min(0).Max(%d)", n)},
			c20cfg{kind: spec.Slice, elem: strElem, pre: always, test: spec.Test{Op: spec.TLen, N: n}, subjects: lens, name: fmt.Sprintf("Slice.Min(0).Len(%d)", n)},
			c20cfg{kind: spec.Slice, elem: strElem, pre: append(always, spec.Test{Op: spec.TMax, N: 99}), test: spec.Test{Op: spec.TMin, N: n + 1}, subjects: lens, name: fmt.Sprintf("Slice.Min(0).Max(99).Min(%d)", n+1)})
	}
	// slices: Contains by deep equality
	strSets := func(core.Tier) []any {
		return []any{[]string{}, []string{"a"}, []string{"b", "a"}, []string{"A"}, []string{"a "}, []string{"", "x"}, []string{"é"}, []string{"é"}}
	}
	for _, p := range []any{"a", "", "é", 1, nil, []byte("a")} {
		out = append(out, c20cfg{kind: spec.Slice, elem: strElem, test: spec.Test{Op: spec.TContains, Arg: p}, subjects: strSets, name: fmt.Sprintf("Slice(String).Contains(%#v)", p)})
	}
	intElem := &spec.Node{Kind: spec.Int}
	intSets := func(core.Tier) []any { return []any{[]int{}, []int{1}, []int{2, 1}, []int{0}, []int{-1, 3}} }
	for _, p := range []any{1, int64(1), 1.0, "1", 0} {
		out = append(out, c20cfg{kind: spec.Slice, elem: intElem, test: spec.Test{Op: spec.TContains, Arg: p}, subjects: intSets, name: fmt.Sprintf("Slice(Int).Contains(%#v)", p)})
	}
	f64Elem := &spec.Node{Kind: spec.Float64}
	fSets := func(core.Tier) []any {
		return []any{[]float64{math.NaN()}, []float64{1.5, 0}, []float64{math.Copysign(0, -1)}}
	}
	for _, p := range []any{math.NaN(), 1.5, 0.0} {
		out = append(out, c20cfg{kind: spec.Slice, elem: f64Elem, test: spec.Test{Op: spec.TContains, Arg: p}, subjects: fSets, name: fmt.Sprintf("Slice(Float64).Contains(%v)", p)})
	}
	// slice tests decide on the slice whatever its items do: some items violate the item schema
	posElem := &spec.Node{Kind: spec.Int, Tests: []spec.Test{{Op: spec.TGT, Arg: 0}}}
	mixedSets := func(core.Tier) []any {
		return []any{[]int{1, -1, 3}, []int{-1}, []int{1, 2}, []int{-5, -6, -7}, []int{1, 2, 3}, []int{-1, 1}, []int{4, -4, 4, -4}}
	}
	for _, t := range []spec.Test{{Op: spec.TMax, N: 2}, {Op: spec.TMin, N: 2}, {Op: spec.TLen, N: 3}, {Op: spec.TContains, Arg: 1}, {Op: spec.TContains, Arg: -1}} {
		name := fmt.Sprintf("Slice(Int.GT(0)).%s(%d)", t.Op, t.N)
		if t.Op == spec.TContains {
			name = fmt.Sprintf("Slice(Int.GT(0)).Contains(%v)", t.Arg)
		}
		out = append(out, c20cfg{kind: spec.Slice, elem: posElem, test: t, subjects: mixedSets, name: name})
	}
	// time elements: a time.Time holds a pointer to its location; deep equality looks through it, so two separately built
	// but identical zones make equal values (and the same instant in another zone does not)
	tElem := &spec.Node{Kind: spec.Time}
	zoneA := func() *time.Location { return time.FixedZone("A", 3600) }
	tt := gen.BaseTime
	tSets := func(core.Tier) []any {
		return []any{[]time.Time{tt.In(zoneA())}, []time.Time{tt, tt.In(zoneA())}, []time.Time{tt.In(time.FixedZone("B", 3600))}, []time.Time{tt.UTC()}, []time.Time{}, []time.Time{tt.Add(time.Nanosecond).In(zoneA())}}
	}
	for _, p := range []any{tt.In(zoneA()), tt, tt.In(time.FixedZone("A", 7200))} {
		out = append(out, c20cfg{kind: spec.Slice, elem: tElem, test: spec.Test{Op: spec.TContains, Arg: p}, subjects: tSets, name: fmt.Sprintf("Slice(Time).Contains(%s)", p.(time.Time).Format(time.RFC3339))})
	}
	// pointer elements: deep equality follows pointers
	ptrElem := &spec.Node{Kind: spec.Ptr, Elem: &spec.Node{Kind: spec.Int}}
	mk := func(vs ...int) []*int {
		out := make([]*int, len(vs))
		for i := range vs {
			v := vs[i]
			out[i] = &v
		}
		return out
	}
	one, two := 1, 2
	pSets := func(core.Tier) []any { return []any{mk(1, 2), mk(3), mk(), mk(2)} }
	for _, p := range []any{&one, &two, 1, (*int)(nil)} {
		out = append(out, c20cfg{kind: spec.Slice, elem: ptrElem, test: spec.Test{Op: spec.TContains, Arg: p}, subjects: pSets, name: fmt.Sprintf("Slice(Ptr(Int)).Contains(%s)", obs.Render(obs.Norm(p)))})
	}
	return out
}

func (c20) Info(t core.Tier) core.Info {
	return core.Info{
		Level: "exploration",
		Rule: fmt.Sprintf("%d single-test schemas (every built-in test of String, Int, Int32, Int64, Float32, Float64, Bool, Time, Slice with boundary parameters; Not() forms where the API offers them), each executed on its whole subject set in Parse and Validate: "+
			"EXHAUSTIVE over all strings of length <= %d over the alphabet %q (plus all 256 single bytes for the character-class tests), all strings of length <= %d over the e-mail grammar alphabet plus 62/63/64/65-byte labels, ~400 single-edit and ~2500 double-edit UUID mutants, URLs labelled by construction, "+
			"numbers at n-1/n/n+1/nextafter/min/max/NaN/Inf for every width, times at t +- 1ns in three zones, slice lengths 0..6 and Contains over small universes including deep-equal-but-different-type, NaN and pointer elements. "+
			"oracle: issue present <=> independent predicate false (negated for Not()), with the documented code. one case = one schema with all its subjects. non-trivial: subject within one step of the parameter boundary, multi-byte, NaN or a deep-equality corner (every evaluated pair is counted; distinct by (test, subject, mode)).",
			len(c20Configs), tierN(t, 3, 4), c20Alphabet, tierN(t, 5, 6)),
		Assumptions: commonAssumptions,
		MinDistinct: 1000,
		Exhaustive:  true,
	}
}

func (c20) NumCases(t core.Tier) int { return len(c20Configs) }

func c20ZeroOrBlank(k spec.Kind, subj any, mode ref.Mode) bool {
	tree := obs.Norm(subj)
	if mode == ref.Validate {
		if sl, ok := tree.([]any); ok {
			return len(sl) == 0
		}
		return ref.IsZeroValidate(tree)
	}
	if s, ok := subj.(string); ok {
		return ref.IsAbsentParse(s)
	}
	return false
}

// c20SameCodeTwice: two tests of one node that share a code (and, through a Message option or a text that names no parameter, a
// message) but not their argument each decide their own predicate: a value failing both yields both issues.
// c20ItemsRewritten: the slice's own tests decide on the slice the caller ends up with - after item schemas with Default / Catch
// rewrote absent or failing items - in Parse and in Validate.
func c20ItemsRewritten(c *core.Ctx) bool {
	type sc struct {
		name   string
		mk     func() *z.SliceSchema
		vals   [][]string
		needle string
	}
	scs := []sc{
		{`Slice(String.Default("x")).Contains("x")`, func() *z.SliceSchema { return z.Slice(z.String().Default("x")).Contains("x") }, [][]string{{"", "a"}, {"a", "b"}, {"x"}, {"", ""}, {"a", " "}}, "x"},
		{`Slice(String.Default("x")).Contains("")`, func() *z.SliceSchema { return z.Slice(z.String().Default("x")).Contains("") }, [][]string{{"", "a"}, {"a", "b"}, {"x"}}, ""},
		{`Slice(String.Min(3).Catch("zzz")).Contains("zzz")`, func() *z.SliceSchema { return z.Slice(z.String().Min(3).Catch("zzz")).Contains("zzz") }, [][]string{{"ab", "abcd"}, {"abcd"}, {"zzz"}, {"a", "b"}}, "zzz"},
		{`Slice(String.Min(3).Catch("zzz")).Contains("ab")`, func() *z.SliceSchema { return z.Slice(z.String().Min(3).Catch("zzz")).Contains("ab") }, [][]string{{"ab", "abcd"}, {"abcd"}}, "ab"},
		{`Slice(String.Required().Catch("c")).Contains("c")`, func() *z.SliceSchema { return z.Slice(z.String().Required().Catch("c")).Contains("c") }, [][]string{{"", "q"}, {"q"}}, "c"},
	}
	for _, x := range scs {
		for _, val := range x.vals {
			for _, mode := range []string{"Parse", "Validate"} {
				var final []string
				var m z.ZogIssueMap
				if mode == "Parse" {
					in := make([]any, len(val))
					for i := range val {
						in[i] = val[i]
					}
					m = x.mk().Parse(in, &final)
				} else {
					final = append([]string(nil), val...)
					m = x.mk().Validate(&final)
				}
				c.Eval(1)
				member := false
				for _, e := range final {
					if e == x.needle {
						member = true
					}
				}
				failed, others := 0, 0
				for k, l := range m {
					if k == "$first" {
						continue
					}
					for _, e := range l {
						if e.Code == "contains" {
							failed++
						} else {
							others++
						}
					}
				}
				if others > 0 {
					continue
				}
				if member == (failed > 0) || failed > 1 {
					c.Violation("test-decides-on-another-value|Slice.Contains-with-rewriting-items", map[string]any{"schema": x.name, "mode": mode, "slice_before": val, "slice_the_caller_ends_up_with": final, "needle": x.needle, "is_member": member, "contains_issues": failed})
					return false
				}
				c.NonTrivial(fpf("rewritten|%s|%v|%s", x.name, val, mode))
			}
		}
	}
	c.Count("slice_tests_after_item_rewrites", 1)
	return true
}

// c20Regexps: Match passes iff the expression it was given matches - the expression as the caller compiled it (Perl or POSIX flavour,
// leftmost-longest or not); c20BigEnum: OneOf is membership in the list it was given, before and after a failure was reported (and its
// message built) for that list.
func c20Regexps(c *core.Ctx) bool {
	longest := regexp.MustCompile(`a+|a+b`)
	longest.Longest()
	res := []*regexp.Regexp{regexp.MustCompilePOSIX(`^abc$`), regexp.MustCompilePOSIX(`a[^b]c`), regexp.MustCompilePOSIX(`x.z`), regexp.MustCompile(`^abc$`), regexp.MustCompile(`(?m)^abc$`), regexp.MustCompile(`(?s)a.c`), regexp.MustCompile(`(?i)ABC`), longest}
	subjects := []string{"abc", "x\nabc\ny", "abc\n", "a\nc", "axc", "x\nz", "xyz", "ABC", "aab", "ab"}
	for _, re := range res {
		for _, subj := range subjects {
			for _, mode := range []string{"Parse", "Validate"} {
				var l z.ZogIssueList
				if mode == "Parse" {
					var d string
					l = z.String().Match(re).Parse(subj, &d)
				} else {
					v := subj
					l = z.String().Match(re).Validate(&v)
				}
				c.Eval(1)
				if want := re.MatchString(subj); (len(l) == 0) != want {
					c.Violation("test-decides-another-predicate|String.Match", map[string]any{"expression": re.String(), "compiled_as": fmt.Sprintf("%#v", re.String()), "subject": subj, "mode": mode, "expression_matches": want, "issues": len(l)})
					return false
				}
				c.NonTrivial(fpf("re|%s|%q|%s", re.String(), subj, mode))
			}
		}
	}
	opts := []string{"o0", "o1", "o2", "o3", "o4", "o5", "o6", "o7", "o8", "o9", "o10", "o11", "o12"}
	sch := z.String().OneOf(opts)
	nums := []int{0, 1, 2, 3, 4, 5, 6, 7, 8, 9, 10, 11, 12}
	nsch := z.Int().OneOf(nums)
	for round := 0; round < 3; round++ {
		var d string
		var n int
		if len(sch.Parse("nope", &d)) != 1 || len(nsch.Parse(99, &n)) != 1 {
			c.Violation("test-passes-although-predicate-false|OneOf", map[string]any{"schema": "OneOf(13 options)", "input": "nope / 99"})
			return false
		}
		for i, o := range []string{"o0", "o1", "o2", "o3", "o4", "o5", "o6", "o7", "o8", "o9", "o10", "o11", "o12"} {
			c.Eval(2)
			if l := sch.Parse(o, &d); len(l) != 0 {
				c.Violation("test-fails-although-predicate-holds|OneOf-after-a-reported-failure", map[string]any{"schema": "String().OneOf(o0 … o12)", "input": o, "round": round, "issues": fmt.Sprint(z.Issues.SanitizeList(l))})
				return false
			}
			if l := nsch.Parse(i, &n); len(l) != 0 && i != 0 {
				c.Violation("test-fails-although-predicate-holds|OneOf-after-a-reported-failure", map[string]any{"schema": "Int().OneOf(0 … 12)", "input": i, "round": round})
				return false
			}
		}
		for _, o := range []string{"... (3 more)", "...", "o13"} {
			if l := sch.Parse(o, &d); len(l) != 1 {
				c.Violation("test-passes-although-predicate-false|OneOf-after-a-reported-failure", map[string]any{"schema": "String().OneOf(o0 … o12)", "input": o, "round": round})
				return false
			}
		}
	}
	if fmt.Sprint(opts) != "[o0 o1 o2 o3 o4 o5 o6 o7 o8 o9 o10 o11 o12]" {
		c.Violation("test-decides-another-predicate|OneOf-list-edited-by-the-library", map[string]any{"callers_list_now": fmt.Sprint(opts)})
		return false
	}
	// Contains on a list of pointers is membership by deep equality of the items - pointers - with the value given
	a, b := "a", "b"
	var nilS *string
	for _, needle := range []any{"b", &b, nilS, nil, 1} {
		for _, mode := range []string{"Parse", "Validate"} {
			items := []*string{&a, &b}
			want := false
			for _, it := range items {
				if reflect.DeepEqual(it, needle) {
					want = true
				}
			}
			sch := z.Slice(z.Ptr(z.String())).Contains(needle)
			var m z.ZogIssueMap
			if mode == "Parse" {
				var d []*string
				m = sch.Parse([]any{"a", "b"}, &d)
			} else {
				m = sch.Validate(&items)
			}
			c.Eval(1)
			if (len(m) == 0) != want {
				c.Violation("test-decides-another-predicate|Slice(Ptr).Contains", map[string]any{"schema": "Slice(Ptr(String())).Contains(needle)", "items": "[&\"a\", &\"b\"]", "needle": fmt.Sprintf("%#v", needle), "mode": mode, "deeply_equal_to_an_item": want, "issues": len(m)})
				return false
			}
		}
	}
	c.Count("regexp_and_enum_scenarios", 1)
	return true
}

func c20SameCodeTwice(c *core.Ctx) bool {
	m := z.Message("not allowed here")
	type probe struct {
		name string
		run  func(mode string) int
		want int
	}
	var s string
	var l []string
	count := func(list z.ZogIssueList) int { return len(list) }
	countMap := func(mm z.ZogIssueMap) int {
		n := 0
		for k, li := range mm {
			if k != "$first" {
				n += len(li)
			}
		}
		return n
	}
	lower, digit := regexp.MustCompile("[a-z]"), regexp.MustCompile("[0-9]")
	probes := []probe{
		{"String.Not().Contains(<, m).Not().Contains(>, m) on <b>", func(mode string) int {
			sch := z.String().Not().Contains("<", m).Not().Contains(">", m)
			if mode == "Parse" {
				return count(sch.Parse("<b>", &s))
			}
			v := "<b>"
			return count(sch.Validate(&v))
		}, 2},
		{"String.Match(lower).Match(digit) on --", func(mode string) int {
			sch := z.String().Match(lower).Match(digit)
			if mode == "Parse" {
				return count(sch.Parse("--", &s))
			}
			v := "--"
			return count(sch.Validate(&v))
		}, 2},
		{"String.HasPrefix(a, m).HasPrefix(b, m).HasSuffix(c, m) on zzz", func(mode string) int {
			sch := z.String().HasPrefix("a", m).HasPrefix("b", m).HasSuffix("c", m)
			if mode == "Parse" {
				return count(sch.Parse("zzz", &s))
			}
			v := "zzz"
			return count(sch.Validate(&v))
		}, 3},
		{"Slice(String).Contains(admin, m).Contains(owner, m) on [guest]", func(mode string) int {
			sch := z.Slice(z.String()).Contains("admin", m).Contains("owner", m)
			if mode == "Parse" {
				return countMap(sch.Parse([]any{"guest"}, &l))
			}
			v := []string{"guest"}
			return countMap(sch.Validate(&v))
		}, 2},
		{"Int.GT(5, m).GT(9, m).LT(0, m) on 3", func(mode string) int {
			var n int
			sch := z.Int().GT(5, m).GT(9, m).LT(0, m)
			if mode == "Parse" {
				return count(sch.Parse(3, &n))
			}
			n = 3
			return count(sch.Validate(&n))
		}, 3},
	}
	for _, p := range probes {
		for _, mode := range []string{"Parse", "Validate"} {
			got := p.run(mode)
			c.Eval(1)
			if got != p.want {
				c.Violation("test-passes-although-predicate-false|same-code-twice", map[string]any{"schema_and_value": p.name, "mode": mode, "issues_reported": got, "tests_whose_predicate_is_false": p.want})
				return false
			}
		}
	}
	c.Count("same_code_twice_probes", len(probes)*2)
	return true
}

func (c20) RunCase(c *core.Ctx) {
	if c.Case == 9 && !w10(c, "C20") {
		return
	}
	if c.Case == 5 && !c20SameCodeTwice(c) {
		return
	}
	if c.Case == 6 && !c20ItemsRewritten(c) {
		return
	}
	if c.Case == 7 && !c20Regexps(c) {
		return
	}
	if c.Case == 8 {
		c.Eval(30)
		if problem, _ := dNamedTypeTests(); problem != "" {
			c.Violation("test-decides-another-predicate|schemas-over-named-types", map[string]any{"observed": problem})
			return
		}
	}
	cfg := c20Configs[c.Case]
	subjects := cfg.subjects(c.Tier)
	mk := func(def any, hasDef bool) (*spec.Node, *spec.Built) {
		t := cfg.test
		n := &spec.Node{Kind: cfg.kind, Elem: cfg.elem, Tests: append(append([]spec.Test{}, cfg.pre...), t)}
		if hasDef {
			n.Mods = []spec.Mod{{Op: spec.MDefault, Val: def}}
		}
		n.Number()
		return n, spec.Build(n, nil)
	}
	plainN, plainB := mk(nil, false)
	evals, fails := 0, 0
	for _, subj := range subjects {
		holds, known := ref.TestHolds(&plainN.Tests[len(cfg.pre)], subj)
		if !known {
			c.Count("skipped_no_reference_verdict", 1)
			continue
		}
		if cfg.test.Not {
			holds = !holds
		}
		for _, mode := range []ref.Mode{ref.Parse, ref.Validate} {
			n, b := plainN, plainB
			var o *run.Outcome
			viaDefault := false
			if cfg.kind == spec.Slice && evals%3 == 0 {
				// the recycled context this call picks up was last used by a node whose Catch fired (what earlier calls leave behind)
				prefillDirty("SchemaCtx.Exit")
			}
			if c20ZeroOrBlank(cfg.kind, subj, mode) {
				// absent-looking subjects reach the test through Default(subject)
				if cfg.kind == spec.Slice && reflect.ValueOf(subj).IsNil() {
					continue // a nil default is "no default"
				}
				n, b = mk(subj, true)
				viaDefault = true
				if mode == ref.Parse {
					o = run.Parse(b, nil, nil)
				} else {
					o = run.Validate(b, nil)
				}
			} else if mode == ref.Parse {
				if f, ok := subj.(float32); ok && cfg.kind == spec.Float32 {
					subj2 := any(f)
					o = run.Parse(b, subj2, nil)
				} else {
					o = run.Parse(b, subj, nil)
				}
			} else {
				o = run.Validate(b, obs.Norm(subj))
			}
			c.Eval(1)
			evals++
			det := func(extra map[string]any) map[string]any {
				extra["test"] = cfg.name
				extra["subject"] = obs.Render(obs.Norm(subj))
				extra["predicate_holds(reference)"] = holds
				extra["via_default"] = viaDefault
				return describeCase(n, mode, subj, extra)
			}
			if o.Panicked {
				c.Violation("panic|"+cfg.test.Op.String(), det(map[string]any{"panic": fmt.Sprint(o.Panic), "stack": trunc(o.Stack, 2000)}))
				return
			}
			code := n.Tests[len(cfg.pre)].EffCode()
			cnt := 0
			for _, ci := range o.Issues {
				if ci.Code == code {
					cnt++
				}
			}
			other := 0
			for _, ci := range o.Issues {
				if ci.Code != code && (ci.Path == "" || ci.Code == "coerce" || ci.Code == "required" || ci.Code == "not_nil") {
					other++ // the subject (or one of its items) never arrived: the test saw something else than the subject
				}
				// failed tests of the items of a slice (deeper paths) do not keep the slice's own tests from deciding on the items placed
			}
			if other > 0 {
				// e.g. a coerce issue: the subject never reached the test in this mode (NaN into Int...). Not judged here.
				c.Count("subject_did_not_reach_test", 1)
				continue
			}
			if holds && cnt != 0 {
				c.Violation("test-fails-although-predicate-holds|"+testClass(cfg), det(map[string]any{"issues": issuesText(o)}))
				return
			}
			if !holds && cnt != 1 {
				c.Violation("test-passes-although-predicate-false|"+testClass(cfg), det(map[string]any{"issues": issuesText(o)}))
				return
			}
			if !holds {
				fails++
			}
			c.NonTrivial(fpf("%s|%s|%s", cfg.name, obs.Render(obs.Norm(subj)), mode))
		}
	}
	c.Count("subject_test_pairs", evals)
	c.Count("pairs_where_test_failed", fails)
	c.Distinct("tests", testClass(cfg))
	if c.WantSample() && c.Case%37 == 0 {
		c.Sample(map[string]any{"test": cfg.name, "subjects": len(subjects), "first_subjects": obs.Render(obs.Norm(firstN(subjects, 6))), "pairs_evaluated": evals, "pairs_failing_test": fails})
	}
}

func firstN(s []any, n int) []any {
	if len(s) > n {
		return s[:n]
	}
	return s
}

func testClass(cfg c20cfg) string {
	n := cfg.kind.String() + "." + cfg.test.Op.String()
	if cfg.test.Not {
		n = cfg.kind.String() + ".Not()." + cfg.test.Op.String()
	}
	return n
}
