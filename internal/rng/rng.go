// Package rng is a small deterministic PRNG (splitmix64 / xoshiro256**) that does not depend on the
// Go version, so the same (seed, property, case) regenerates the same case under every toolchain.
package rng

import "math"

type Rand struct{ s [4]uint64 }

func splitmix(x *uint64) uint64 {
	*x += 0x9e3779b97f4a7c15
	z := *x
	z = (z ^ (z >> 30)) * 0xbf58476d1ce4e5b9
	z = (z ^ (z >> 27)) * 0x94d049bb133111eb
	return z ^ (z >> 31)
}

// Hash mixes a string into a 64-bit value (FNV-1a followed by a splitmix finaliser).
func Hash(s string) uint64 {
	h := uint64(14695981039346656037)
	for i := 0; i < len(s); i++ {
		h ^= uint64(s[i])
		h *= 1099511628211
	}
	return splitmix(&h)
}

// New returns the generator for (seed, stream, index).
func New(seed int64, stream string, index int) *Rand {
	x := uint64(seed)*0x9e3779b97f4a7c15 ^ Hash(stream) ^ (uint64(index)+1)*0xd1342543de82ef95
	r := &Rand{}
	for i := range r.s {
		r.s[i] = splitmix(&x)
	}
	return r
}

func rotl(x uint64, k uint) uint64 { return (x << k) | (x >> (64 - k)) }

func (r *Rand) Uint64() uint64 {
	res := rotl(r.s[1]*5, 7) * 9
	t := r.s[1] << 17
	r.s[2] ^= r.s[0]
	r.s[3] ^= r.s[1]
	r.s[1] ^= r.s[2]
	r.s[0] ^= r.s[3]
	r.s[2] ^= t
	r.s[3] = rotl(r.s[3], 45)
	return res
}

// Intn returns a value in [0,n). n must be > 0.
func (r *Rand) Intn(n int) int {
	if n <= 0 {
		panic("rng: Intn with n<=0")
	}
	return int(r.Uint64() % uint64(n))
}

// Range returns a value in [lo,hi].
func (r *Rand) Range(lo, hi int) int { return lo + r.Intn(hi-lo+1) }

func (r *Rand) Bool() bool { return r.Uint64()&1 == 1 }

// Chance returns true with probability num/den.
func (r *Rand) Chance(num, den int) bool { return r.Intn(den) < num }

func (r *Rand) Float64() float64 { return float64(r.Uint64()>>11) / (1 << 53) }

// Int63 returns a non-negative int64.
func (r *Rand) Int63() int64 { return int64(r.Uint64() >> 1) }

// Bits64 returns a float64 with random bits (may be NaN/Inf/subnormal).
func (r *Rand) Bits64() float64 { return math.Float64frombits(r.Uint64()) }

// Perm returns a random permutation of [0,n).
func (r *Rand) Perm(n int) []int {
	p := make([]int, n)
	for i := range p {
		p[i] = i
	}
	for i := n - 1; i > 0; i-- {
		j := r.Intn(i + 1)
		p[i], p[j] = p[j], p[i]
	}
	return p
}

// Pick returns a random element index weighted by w.
func (r *Rand) Weighted(w []int) int {
	t := 0
	for _, x := range w {
		t += x
	}
	k := r.Intn(t)
	for i, x := range w {
		if k < x {
			return i
		}
		k -= x
	}
	return len(w) - 1
}

// Fork derives an independent generator.
func (r *Rand) Fork() *Rand {
	x := r.Uint64()
	n := &Rand{}
	for i := range n.s {
		n.s[i] = splitmix(&x)
	}
	return n
}
