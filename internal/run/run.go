// Package run executes real zog schemas at top level and reads back what happened.
package run

import (
	"fmt"
	"reflect"
	"runtime/debug"
	"time"

	z "github.com/Oudwins/zog"

	"zogverif/internal/obs"
	"zogverif/internal/spec"
)

// Outcome is everything observable about one Parse/Validate call.
type Outcome struct {
	IsMap    bool
	Nil      bool // the returned list/map was nil
	Empty    bool // len == 0
	Issues   []obs.CI
	Firsts   []obs.CI // the $first list (maps only)
	RawMap   z.ZogIssueMap
	RawList  z.ZogIssueList
	Dest     any // destination tree after the call
	DestVal  reflect.Value
	Panicked bool
	Panic    any
	Stack    string
}

func (o *Outcome) NoIssues() bool { return !o.Panicked && len(o.Issues) == 0 }

type mapParser interface {
	Parse(data any, dest any, options ...z.ExecOption) z.ZogIssueMap
}
type mapValidator interface {
	Validate(data any, options ...z.ExecOption) z.ZogIssueMap
}

func (o *Outcome) setMap(m z.ZogIssueMap) {
	o.IsMap = true
	o.RawMap = m
	o.Nil = m == nil
	o.Empty = len(m) == 0
	o.Issues, o.Firsts = obs.CanonMap(m)
}

func (o *Outcome) setList(l z.ZogIssueList) {
	o.RawList = l
	o.Nil = l == nil
	o.Empty = len(l) == 0
	o.Issues = obs.CanonList(l)
}

// NewDest allocates a destination of the node's Go type pre-filled from a tree (nil = zero value) and returns a pointer Value.
func NewDest(n *spec.Node, prefill any) reflect.Value {
	p := reflect.New(n.GoType())
	if prefill != nil {
		p.Elem().Set(obs.Make(n.GoType(), prefill))
	}
	return p
}

// Parse runs schema.Parse(data, &dest) where dest is pre-filled from the prefill tree.
func Parse(b *spec.Built, data any, prefill any, opts ...z.ExecOption) *Outcome {
	return ParseInto(b, data, NewDest(b.Node, prefill), opts...)
}

// ParseInto parses into an existing destination pointer.
func ParseInto(b *spec.Built, data any, destPtr reflect.Value, opts ...z.ExecOption) (o *Outcome) {
	o = &Outcome{DestVal: destPtr}
	defer func() {
		if r := recover(); r != nil {
			o.Panicked, o.Panic, o.Stack = true, r, string(debug.Stack())
		}
		o.Dest = obs.NormValue(destPtr.Elem())
	}()
	n := b.Node
	switch n.Kind {
	case spec.Struct, spec.Slice, spec.Ptr:
		o.setMap(b.Schema.(mapParser).Parse(data, destPtr.Interface(), opts...))
	case spec.String:
		o.setList(b.Schema.(*z.StringSchema[string]).Parse(data, destPtr.Interface().(*string), opts...))
	case spec.Int:
		o.setList(b.Schema.(*z.NumberSchema[int]).Parse(data, destPtr.Interface().(*int), opts...))
	case spec.Int32:
		o.setList(b.Schema.(*z.NumberSchema[int32]).Parse(data, destPtr.Interface().(*int32), opts...))
	case spec.Int64:
		o.setList(b.Schema.(*z.NumberSchema[int64]).Parse(data, destPtr.Interface().(*int64), opts...))
	case spec.Float32:
		o.setList(b.Schema.(*z.NumberSchema[float32]).Parse(data, destPtr.Interface().(*float32), opts...))
	case spec.Float64:
		o.setList(b.Schema.(*z.NumberSchema[float64]).Parse(data, destPtr.Interface().(*float64), opts...))
	case spec.Bool:
		o.setList(b.Schema.(*z.BoolSchema[bool]).Parse(data, destPtr.Interface().(*bool), opts...))
	case spec.Time:
		o.setList(b.Schema.(*z.TimeSchema).Parse(data, destPtr.Interface().(*time.Time), opts...))
	case spec.Custom:
		switch n.CustomT.Name {
		case "int":
			o.setList(b.Schema.(*z.Custom[int]).Parse(data, destPtr.Interface().(*int), opts...))
		case "string":
			o.setList(b.Schema.(*z.Custom[string]).Parse(data, destPtr.Interface().(*string), opts...))
		case "CRec":
			o.setList(b.Schema.(*z.Custom[spec.CRec]).Parse(data, destPtr.Interface().(*spec.CRec), opts...))
		case "[]int":
			o.setList(b.Schema.(*z.Custom[[]int]).Parse(data, destPtr.Interface().(*[]int), opts...))
		}
	case spec.Pre:
		switch s := b.Schema.(type) {
		case *z.PreprocessSchema[any, string]:
			o.setList(s.Parse(data, destPtr.Interface().(*string), opts...))
		case *z.PreprocessSchema[any, int]:
			o.setList(s.Parse(data, destPtr.Interface().(*int), opts...))
		case *z.PreprocessSchema[any, float64]:
			o.setList(s.Parse(data, destPtr.Interface().(*float64), opts...))
		case *z.PreprocessSchema[any, bool]:
			o.setList(s.Parse(data, destPtr.Interface().(*bool), opts...))
		case *z.PreprocessSchema[any, []string]:
			o.setList(s.Parse(data, destPtr.Interface().(*[]string), opts...))
		case *z.PreprocessSchema[any, []int]:
			o.setList(s.Parse(data, destPtr.Interface().(*[]int), opts...))
		default:
			panic(fmt.Sprintf("run: unsupported preprocess schema %T", b.Schema))
		}
	default:
		panic("run: unsupported top-level kind " + n.Kind.String())
	}
	return o
}

// Validate runs schema.Validate(&value) on a value built from the tree.
func Validate(b *spec.Built, value any, opts ...z.ExecOption) *Outcome {
	return ValidatePtr(b, NewDest(b.Node, value), opts...)
}

func ValidatePtr(b *spec.Built, valPtr reflect.Value, opts ...z.ExecOption) (o *Outcome) {
	o = &Outcome{DestVal: valPtr}
	obs.AllocEmb(valPtr)
	defer func() {
		if r := recover(); r != nil {
			o.Panicked, o.Panic, o.Stack = true, r, string(debug.Stack())
		}
		o.Dest = obs.NormValue(valPtr.Elem())
	}()
	n := b.Node
	switch n.Kind {
	case spec.Struct, spec.Slice, spec.Ptr:
		o.setMap(b.Schema.(mapValidator).Validate(valPtr.Interface(), opts...))
	case spec.String:
		o.setList(b.Schema.(*z.StringSchema[string]).Validate(valPtr.Interface().(*string), opts...))
	case spec.Int:
		o.setList(b.Schema.(*z.NumberSchema[int]).Validate(valPtr.Interface().(*int), opts...))
	case spec.Int32:
		o.setList(b.Schema.(*z.NumberSchema[int32]).Validate(valPtr.Interface().(*int32), opts...))
	case spec.Int64:
		o.setList(b.Schema.(*z.NumberSchema[int64]).Validate(valPtr.Interface().(*int64), opts...))
	case spec.Float32:
		o.setList(b.Schema.(*z.NumberSchema[float32]).Validate(valPtr.Interface().(*float32), opts...))
	case spec.Float64:
		o.setList(b.Schema.(*z.NumberSchema[float64]).Validate(valPtr.Interface().(*float64), opts...))
	case spec.Bool:
		o.setList(b.Schema.(*z.BoolSchema[bool]).Validate(valPtr.Interface().(*bool), opts...))
	case spec.Time:
		o.setList(b.Schema.(*z.TimeSchema).Validate(valPtr.Interface().(*time.Time), opts...))
	case spec.Custom:
		switch n.CustomT.Name {
		case "int":
			o.setList(b.Schema.(*z.Custom[int]).Validate(valPtr.Interface().(*int), opts...))
		case "string":
			o.setList(b.Schema.(*z.Custom[string]).Validate(valPtr.Interface().(*string), opts...))
		case "CRec":
			o.setList(b.Schema.(*z.Custom[spec.CRec]).Validate(valPtr.Interface().(*spec.CRec), opts...))
		case "[]int":
			o.setList(b.Schema.(*z.Custom[[]int]).Validate(valPtr.Interface().(*[]int), opts...))
		}
	case spec.Pre:
		switch s := b.Schema.(type) {
		case *z.PreprocessSchema[any, string]:
			o.setList(s.Validate(valPtr.Interface().(*string), opts...))
		case *z.PreprocessSchema[any, int]:
			o.setList(s.Validate(valPtr.Interface().(*int), opts...))
		case *z.PreprocessSchema[any, float64]:
			o.setList(s.Validate(valPtr.Interface().(*float64), opts...))
		case *z.PreprocessSchema[any, bool]:
			o.setList(s.Validate(valPtr.Interface().(*bool), opts...))
		default:
			panic(fmt.Sprintf("run: unsupported preprocess schema %T", b.Schema))
		}
	default:
		panic("run: unsupported top-level kind for Validate " + n.Kind.String())
	}
	return o
}

// MustNotPanic re-raises a panic that happened inside the call (for callers that guard with their own recover).
func (o *Outcome) MustNotPanic() *Outcome {
	if o.Panicked {
		panic(fmt.Sprintf("%v\n%s", o.Panic, o.Stack))
	}
	return o
}
