package gen

import (
	"encoding/json"
	"fmt"
	"math"
	"net/url"
	"strconv"
	"strings"
	"time"
	"unicode/utf8"

	"zogverif/internal/rng"
	"zogverif/internal/spec"
)

// A logical record ("Rec") follows the schema: struct = map[GoName]Rec (missing key = absent), slice = []any of Rec,
// leaf = typed Go value of the node's kind | nil (absent) | RawText (text that is not a valid value of the kind).
type RawText string

// FrontOpts steer record schemas.
type FrontOpts struct {
	Flat          bool // restrict to what flat sources (form, query, env) can express
	EnvOnly       bool // additionally: lists have at most one element (env has no lists)
	MaxDepth      int
	MaxFields     int
	KeepIssuePath bool // keep IssuePath options (monitors that compare exact paths)
}

// RecordSchema generates a struct-rooted schema whose keys are globally unique (flat sources resolve nested fields
// against the same record) and whose leaves are the kinds every front end can carry.
func RecordSchema(r *rng.Rand, o FrontOpts) *spec.Node {
	g := &G{R: r, O: DefaultOpts()}
	g.O.Customs = false
	g.O.StructTests = true
	g.O.CatchPct = 15
	g.O.DefaultPct = 15
	counter := 0
	var mk func(depth int) *spec.Node
	dashUsed := false
	leaf := func() *spec.Node {
		k := []spec.Kind{spec.String, spec.Int, spec.Float64, spec.Bool, spec.Time, spec.Int64, spec.String}[r.Intn(7)]
		n := &spec.Node{Kind: k}
		g.primitive(n)
		n.Coercer, n.Layout = nil, ""
		return n
	}
	mk = func(depth int) *spec.Node {
		nf := r.Range(2, o.MaxFields)
		n := &spec.Node{Kind: spec.Struct}
		for i := 0; i < nf; i++ {
			counter++
			base := keyPool[r.Intn(len(keyPool))]
			key := fmt.Sprintf("%s%d", base, counter)
			var child *spec.Node
			c := r.Intn(100)
			switch {
			case depth < o.MaxDepth && c < 22:
				child = mk(depth + 1)
			case c < 38:
				child = &spec.Node{Kind: spec.Slice, Elem: leaf()}
				g.sliceMods(child)
				g.sliceTests(child)
				if child.Elem.Kind == spec.String && len(child.Tests) == 0 && r.Intn(5) == 0 {
					// a custom slice coercer (it replaces whatever list the source presents by its own, of 2 or 3 items)
					child.Coercer = &spec.CoercerSpec{Mark: [][]any{{"m1", "m2"}, {"m1", "m2", "m3"}}[r.Intn(2)]}
				}
			case c < 46:
				child = &spec.Node{Kind: spec.Ptr, Elem: leaf()}
				if r.Bool() {
					child.Mods = []spec.Mod{{Op: spec.MNotNil}}
				}
			case !o.Flat && depth < o.MaxDepth && c < 54:
				child = &spec.Node{Kind: spec.Slice, Elem: mk(depth + 1)}
			case !o.Flat && depth < o.MaxDepth && c < 60:
				child = &spec.Node{Kind: spec.Ptr, Elem: mk(depth + 1)}
			default:
				child = leaf()
			}
			f := spec.Field{Key: key, GoName: spec.UpperFirst(key), Node: child}
			// tag matrix: none, zog, source, zog+source, other source only
			lk := strings.ToLower(key)
			switch r.Intn(8) {
			case 6:
				f.Tags = map[string]string{"form": "f_" + lk} // the tag of one source means nothing to the others
			case 7:
				f.Tags = map[string]string{"json": "j_" + lk}
			case 1:
				f.Tags = map[string]string{"zog": "z_" + lk}
			case 2:
				f.Tags = map[string]string{"json": "j_" + lk, "form": "f_" + lk, "query": "q_" + lk, "env": "E_" + strings.ToUpper(lk)}
			case 3:
				f.Tags = map[string]string{"zog": "z_" + lk, "json": "j_" + lk, "form": "f_" + lk}
			case 4:
				f.Tags = map[string]string{"query": "q_" + lk}
			case 5:
				f.Tags = map[string]string{"zog": "z_" + lk, "env": "E_" + strings.ToUpper(lk)}
			}
			if !o.EnvOnly && !dashUsed && r.Intn(40) == 0 {
				// "-" is a key like any other (one per schema: flat sources resolve nested fields against the same source)
				dashUsed = true
				f.Tags = map[string]string{"json": "-", "form": "-", "query": "-"}
			}
			if o.KeepIssuePath && r.Intn(12) == 0 {
				// keys are arbitrary strings: dots, brackets and spaces inside a key must be kept verbatim in paths
				odd := []string{"m.[x]", "a b ", "x].", "p.q.", "k[0]x", "é."}[r.Intn(6)] + lk
				f.Tags = map[string]string{"zog": odd, "json": "j" + odd}
			}
			LookAlikeTags(r, &f)
			n.Fields = append(n.Fields, f)
		}
		if r.Intn(4) == 0 {
			n.Tests = append(n.Tests, g.fixedTest("st"))
		}
		return n
	}
	root := mk(0)
	// IssuePath options would collide with the path canonicalisation: drop them
	if !o.KeepIssuePath {
		root.Walk(func(x *spec.Node) {
			for i := range x.Tests {
				x.Tests[i].Opts.Path = nil
			}
			for i := range x.Mods {
				x.Mods[i].Opts.Path = nil
			}
		})
	}
	root.Number()
	return root
}

// GenRecord generates a logical record for the schema.
func GenRecord(r *rng.Rand, n *spec.Node, validPct int, o FrontOpts) any {
	switch n.Kind {
	case spec.Struct:
		m := map[string]any{}
		if r.Intn(12) == 0 {
			return m // an empty object (the JSON document carries {} here)
		}
		for i := range n.Fields {
			f := &n.Fields[i]
			if f.Node.Kind != spec.Struct && r.Intn(100) < 12 {
				continue // absent
			}
			m[f.GoName] = GenRecord(r, f.Node, validPct, o)
		}
		return m
	case spec.Slice:
		k := r.Range(1, 3)
		if o.EnvOnly {
			k = 1
		}
		out := make([]any, k)
		for i := range out {
			out[i] = GenRecord(r, n.Elem, validPct, o)
			if out[i] == nil {
				out[i] = n.Elem.Witness // flat sources cannot carry a missing element
			}
		}
		if k >= 2 && !o.EnvOnly && r.Intn(100) < 12 {
			// a blank occurrence of a repeated parameter / a blank list element: a missing element at that position
			out[r.Intn(k)] = RawText([]string{"", " "}[r.Intn(2)])
		}
		return out
	case spec.Ptr:
		if n.Elem.Kind.IsPrimitive() && r.Intn(100) < 25 {
			return nil
		}
		return GenRecord(r, n.Elem, validPct, o)
	}
	c := r.Intn(100)
	if n.Kind == spec.String && len(n.Tests) == 0 && r.Intn(6) == 0 {
		// text that looks like syntax of some source: quotes, escapes, separators
		return []string{`"quoted"`, `""`, `'single'`, `a=b&c`, `x;y`, `100%`, `a+b`, `C:\dir`, `{"j":1}`, `[1]`, `$HOME`, `#frag`, "line1\r\nline2", "a\rb\nc\r\n\r\nd", "tab\there", "C:\\"}[r.Intn(16)]
	}
	// a whole number for a float field, also one beyond 2^53 (a JSON document carries the digits; a Go map an int)
	if (n.Kind == spec.Float64 || n.Kind == spec.Float32) && r.Intn(10) == 0 {
		return []int{3, -40, 9007199254740993, -9007199254740995, 1152921504606846977}[r.Intn(5)]
	}
	// numbers standing for a bool (1 / 0) or a time (unix seconds): a JSON document carries them as float64, a Go map as int
	if n.Kind == spec.Bool && r.Intn(8) == 0 {
		if r.Intn(3) == 0 {
			// a fraction is not a bool in any source ("0.5" is not a bool spelling either)
			return []float64{0.5, 1.5, -0.5, 0.999}[r.Intn(4)]
		}
		return r.Intn(2)
	}
	if n.Kind == spec.Time && !o.Flat && r.Intn(8) == 0 {
		if t, ok := n.Witness.(time.Time); ok {
			if r.Intn(4) == 0 {
				// a number of seconds is a number of seconds however large it is (this one would be a plausible number of milliseconds)
				return int(t.UnixMilli()) + r.Intn(3)*3600
			}
			return int(t.Unix()) + r.Intn(3)*3600
		}
	}
	if c < validPct {
		return recLeaf(n, n.Witness)
	}
	if c < validPct+8 {
		return RawText([]string{"abc", "1x", "--", "maybe?", "2024-99-99"}[r.Intn(5)])
	}
	v := otherValue(r, n)
	if f, ok := toF64(v); ok && (math.IsNaN(f) || math.IsInf(f, 0)) {
		v = n.Witness // a record has to be expressible in JSON
	}
	return recLeaf(n, v)
}

func toF64(v any) (float64, bool) {
	switch x := v.(type) {
	case float64:
		return x, true
	case float32:
		return float64(x), true
	}
	return 0, false
}

func recLeaf(n *spec.Node, v any) any {
	switch x := v.(type) {
	case string:
		s := strings.TrimSpace(x)
		if s == "" || !utf8.ValidString(s) {
			return "x" // (a JSON document cannot carry invalid UTF-8)
		}
		return s
	case time.Time:
		return x.Truncate(time.Second)
	}
	// (integers beyond 2^53 are kept: a JSON document carries them exactly and the front end has to hand them over exactly)
	return v
}

// leafText is the text form of a leaf for string-typed sources.
func leafText(v any) string {
	switch x := v.(type) {
	case RawText:
		return string(x)
	case string:
		return x
	case time.Time:
		return x.Format(time.RFC3339)
	case float64:
		return strconv.FormatFloat(x, 'f', -1, 64)
	case float32:
		return strconv.FormatFloat(float64(x), 'f', -1, 32)
	case bool:
		return strconv.FormatBool(x)
	}
	return fmt.Sprint(v)
}

// RecToNested renders the record as nested maps keyed by the source tag (""=plain Go map). Leaves stay typed
// (jsonish=true: times become RFC3339 strings and RawText becomes a string, as a JSON document would carry them).
func RecToNested(n *spec.Node, rec any, tag string, jsonish bool) any {
	switch n.Kind {
	case spec.Struct:
		m := map[string]any{}
		rm, _ := rec.(map[string]any)
		for i := range n.Fields {
			f := &n.Fields[i]
			v, ok := rm[f.GoName]
			if !ok {
				continue
			}
			m[f.DataKey(tag)] = RecToNested(f.Node, v, tag, jsonish)
		}
		return m
	case spec.Slice:
		s, _ := rec.([]any)
		out := make([]any, len(s))
		for i := range s {
			out[i] = RecToNested(n.Elem, s[i], tag, jsonish)
		}
		return out
	case spec.Ptr:
		if rec == nil {
			return nil
		}
		return RecToNested(n.Elem, rec, tag, jsonish)
	}
	switch x := rec.(type) {
	case RawText:
		return string(x)
	case time.Time:
		if jsonish {
			return x.Format(time.RFC3339)
		}
	}
	return rec
}

// RecToJSON renders the record as a JSON document.
func RecToJSON(n *spec.Node, rec any) string {
	b, err := json.Marshal(RecToNested(n, rec, "json", true))
	if err != nil {
		panic(err)
	}
	return string(b)
}

// RecToFlat renders the record as flat key/values keyed by the given source tag (form, query, env).
func RecToFlat(n *spec.Node, rec any, tag string) url.Values {
	out := url.Values{}
	var walk func(n *spec.Node, rec any, key string)
	walk = func(n *spec.Node, rec any, key string) {
		switch n.Kind {
		case spec.Struct:
			rm, _ := rec.(map[string]any)
			for i := range n.Fields {
				f := &n.Fields[i]
				v, ok := rm[f.GoName]
				if !ok {
					continue
				}
				walk(f.Node, v, f.DataKey(tag))
			}
		case spec.Slice:
			s, _ := rec.([]any)
			for _, e := range s {
				out.Add(key, leafText(e))
			}
		case spec.Ptr:
			if rec != nil {
				walk(n.Elem, rec, key)
			}
		default:
			if rec != nil {
				out.Set(key, leafText(rec))
			}
		}
	}
	walk(n, rec, "")
	return out
}

// FlatKeysUnique reports whether all data keys under the tag are distinct (precondition for flat sources).
func FlatKeysUnique(n *spec.Node, tag string) bool {
	seen := map[string]bool{}
	ok := true
	var walk func(n *spec.Node)
	walk = func(n *spec.Node) {
		for i := range n.Fields {
			f := &n.Fields[i]
			k := f.DataKey(tag)
			if seen[k] {
				ok = false
			}
			seen[k] = true
			if f.Node.Kind == spec.Struct {
				walk(f.Node)
			}
		}
	}
	walk(n)
	return ok
}

// LookAlikeTags sometimes gives a field tags whose names merely end in the names zog reads (`azog:"..." ajson:"..."`), declared before
// the real ones: a struct tag is read by its exact name, tags of other libraries mean nothing.
func LookAlikeTags(r *rng.Rand, f *spec.Field) {
	if r.Intn(8) != 0 {
		return
	}
	if f.Tags == nil {
		f.Tags = map[string]string{}
	}
	for _, name := range []string{"zog", "json", "form", "query", "env"} {
		if r.Bool() {
			f.Tags["a"+name] = "wrong_" + name
		}
	}
}
