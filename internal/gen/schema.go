// Package gen generates schemas (Specs), inputs and values for the monitors.
package gen

import (
	"fmt"
	"reflect"
	"regexp"
	"strings"
	"time"

	"zogverif/internal/ref"
	"zogverif/internal/rng"
	"zogverif/internal/spec"
)

// Opts steer schema generation.
type Opts struct {
	MaxDepth     int
	MaxFields    int
	CatchPct     int  // % of primitives with Catch
	DefaultPct   int  // % of primitives/slices with Default
	RequiredPct  int  // % of nodes Required / NotNil
	TestOptsPct  int  // % of tests with options
	Posts        bool // allow (non-erroring, non-mutating) post-transforms
	Customs      bool // allow Custom[T] nodes
	Pre          bool // allow Preprocess wrappers
	StructTests  bool // allow struct-level custom tests (fixed outcome)
	Tags         bool // random struct tags
	TopKinds     []spec.Kind
	NoIssuePath  bool // do not generate IssuePath options
	Share        bool // allow the same node object at two places
	ModChains    bool // allow repeated modifier calls (last call wins)
	Coercers     bool // allow WithCoercer / Time.Format
	FailingTests int  // % of custom tests that always fail
	NoPtrPtr     bool
	IssuePathPct int // % of option sets with IssuePath (0: 20)
	TimeLayouts  bool // allow Time.Format(layout) (also allowed by Coercers)
	PreWeight    int // weight of Preprocess among the node kinds when Pre is allowed (0: 3)
	EmbedPct     int // % of struct nodes (>= 2 fields) whose destination type reaches every second field through an embedded struct
}

func DefaultOpts() Opts {
	return Opts{MaxDepth: 3, MaxFields: 4, CatchPct: 25, DefaultPct: 15, RequiredPct: 45, TestOptsPct: 20, Posts: true, Customs: true, StructTests: true, Tags: true, FailingTests: 15, EmbedPct: 12}
}

var BaseTime = time.Date(2024, 3, 10, 12, 0, 0, 0, time.UTC)

var wordPool = []string{"alpha", "Bravo7", "char-lie", "delta_x", "e", "Foxtrot!", "golf99", "Hotel", "in dia", "ju", "kilo@example.com", "LIMA", "mike.mike", "n0vember", "oscar?", "é世界", "pa pa", "Quebec1!", "zz", "x", "pass٣word", "５ive", "a£b", "se§ion×", "Éclair", "oh yes", "pa$$w0rd$1", "${HOME}/x"}

func Word(r *rng.Rand) string { return wordPool[r.Intn(len(wordPool))] }

var keyPool = []string{"name", "age", "email", "tags", "items", "addr", "active", "score", "when", "note", "ID", "userName", "count", "ratio", "flag", "meta", "list", "opt", "ref", "total", "Zip", "q", "kind", "level"}

type G struct {
	R *rng.Rand
	O Opts
}

func (g *G) pct(p int) bool { return g.R.Intn(100) < p }

// Schema generates a random schema tree.
func Schema(r *rng.Rand, o Opts) *spec.Node {
	g := &G{R: r, O: o}
	var n *spec.Node
	if len(o.TopKinds) > 0 {
		n = g.nodeOfKind(o.TopKinds[r.Intn(len(o.TopKinds))], 0)
	} else {
		n = g.nodeOfKind(spec.Struct, 0)
	}
	n.Number()
	return n
}

func (g *G) node(depth int) *spec.Node {
	w := []int{14, 10, 3, 3, 3, 5, 6, 5, 9, 9, 8, 4, 0}
	if depth >= g.O.MaxDepth {
		w[spec.Slice], w[spec.Struct], w[spec.Ptr] = 2, 0, 2
	}
	if !g.O.Customs {
		w[spec.Custom] = 0
	}
	if g.O.Pre {
		w[spec.Pre] = 3
		if g.O.PreWeight > 0 {
			w[spec.Pre] = g.O.PreWeight
		}
	}
	return g.nodeOfKind(spec.Kind(g.R.Weighted(w)), depth)
}

func (g *G) nodeOfKind(k spec.Kind, depth int) *spec.Node {
	n := &spec.Node{Kind: k}
	switch k {
	case spec.Slice:
		n.Elem = g.node(depth + 1)
		for n.Elem.Kind == spec.Pre {
			n.Elem = g.node(depth + 1)
		}
		g.sliceMods(n)
		if g.O.Coercers && defaultableElem(n.Elem) && g.pct(12) {
			// a custom coercer on the slice itself: whatever the input is, the items are read from this list
			mark := []any{n.Elem.Witness}
			if g.pct(40) {
				mark = append(mark, n.Elem.Witness)
			}
			n.Coercer = &spec.CoercerSpec{Mark: mark}
		}
		g.sliceTests(n)
		g.posts(n)
	case spec.Struct:
		nf := g.R.Range(1, g.O.MaxFields)
		used := map[string]bool{}
		var shared *spec.Node
		for i := 0; i < nf; i++ {
			key := keyPool[g.R.Intn(len(keyPool))]
			if used[strings.ToLower(key)] {
				continue
			}
			used[strings.ToLower(key)] = true
			var child *spec.Node
			if g.O.Share && shared != nil && g.pct(30) {
				child = shared
			} else {
				child = g.node(depth + 1)
				if g.O.Share && shared == nil && child.Kind.IsPrimitive() {
					shared = child
				}
			}
			f := spec.Field{Key: key, GoName: spec.UpperFirst(key), Node: child}
			if g.O.Tags && g.pct(35) {
				f.Tags = map[string]string{}
				if g.pct(50) {
					f.Tags["zog"] = "z_" + strings.ToLower(key)
					if g.pct(12) {
						f.Tags["zog"] += ",main" // a key is an arbitrary string: nothing after a comma is an option
					}
				}
				for _, src := range []string{"json", "form", "query", "env"} {
					if g.pct(30) {
						f.Tags[src] = src[:1] + "_" + strings.ToLower(key)
					}
				}
			}
			if g.O.Tags {
				LookAlikeTags(g.R, &f)
			}
			n.Fields = append(n.Fields, f)
		}
		if g.O.EmbedPct > 0 && len(n.Fields) >= 2 && g.pct(g.O.EmbedPct) {
			n.Embed = 1 + g.R.Intn(3)
		}
		// extra destination fields the schema does not name
		n.ExtraFields = []spec.ExtraField{{GoName: "XUntouchedS", Type: reflect.TypeOf("")}, {GoName: "XUntouchedI", Type: reflect.TypeOf(0)}}
		if g.O.StructTests && g.pct(6) {
			n.ViaMerge = true
			nt := g.R.Range(1, 4)
			if g.pct(50) {
				nt = g.R.Range(4, 9)
			}
			for i := 0; i < nt; i++ {
				n.Tests = append(n.Tests, g.fixedTest(fmt.Sprintf("mt%d", i)))
			}
			if g.O.Posts && g.pct(50) {
				for i := 0; i < g.R.Range(3, 8); i++ {
					n.Posts = append(n.Posts, spec.Post{Name: fmt.Sprintf("mnoop%d", i)})
				}
			}
		} else if g.O.StructTests && g.pct(25) {
			nt := g.R.Range(1, 2)
			for i := 0; i < nt; i++ {
				n.Tests = append(n.Tests, g.fixedTest(fmt.Sprintf("st%d", i)))
			}
		}
		g.posts(n)
		if n.ViaMerge {
			g.mergeCuts(n)
		}
		if g.O.StructTests && g.pct(8) {
			n.Derive = g.R.Range(1, 5)
		}
	case spec.Ptr:
		n.Elem = g.node(depth + 1)
		for n.Elem.Kind == spec.Pre || (g.O.NoPtrPtr && n.Elem.Kind == spec.Ptr) {
			n.Elem = g.node(depth + 1)
		}
		if g.pct(g.O.RequiredPct) {
			n.Mods = append(n.Mods, spec.Mod{Op: spec.MNotNil, Opts: g.testOpts(true)})
		}
	case spec.Custom:
		ct := spec.CustomTypes[g.R.Intn(len(spec.CustomTypes))]
		n.CustomT = &ct
		t := g.customPred(ct)
		n.Tests = []spec.Test{t}
	case spec.Pre:
		g.preNode(n, depth)
	default:
		g.primitive(n)
	}
	return n
}

// fixedTest is a custom test whose outcome is fixed at generation time.
func (g *G) fixedTest(name string) spec.Test {
	fail := g.pct(g.O.FailingTests)
	t := spec.Test{Op: spec.TCustom, PredName: fmt.Sprintf("%s:const(%v)", name, !fail), Pred: func(any) bool { return !fail }, ViaTest: g.pct(30)}
	t.Patch = t.ViaTest && g.pct(50)
	t.Opts = g.testOpts(false)
	if t.Patch && t.Opts.Message != nil && t.Opts.MsgFunc != nil {
		t.Opts.MsgFunc = nil
	}
	if t.Opts.Code == nil && g.pct(60) {
		c := "custom_" + name
		t.Opts.Code = &c
	}
	return t
}

func (g *G) testOpts(forRequired bool) spec.TestOpts {
	var o spec.TestOpts
	if !g.pct(g.O.TestOptsPct) {
		return o
	}
	if g.pct(50) {
		s := "msg-" + Word(g.R)
		o.Message = &s
	} else if g.pct(30) {
		s := "fmsg-" + Word(g.R)
		o.MsgFunc = &s
	}
	if g.pct(35) {
		s := "code_" + fmt.Sprint(g.R.Intn(50))
		o.Code = &s
	}
	ipp := 20
	if g.O.IssuePathPct > 0 {
		ipp = g.O.IssuePathPct
	}
	if !g.O.NoIssuePath && g.pct(ipp) {
		s := "custom.path" + fmt.Sprint(g.R.Intn(5))
		o.Path = &s
	}
	if g.pct(25) {
		o.Params = map[string]any{"p" + fmt.Sprint(g.R.Intn(3)): g.R.Intn(100)}
	}
	if g.pct(30) {
		o.Order = g.R.Perm(5)
	}
	return o
}

// mergeCuts chooses where the lists of a Merge-assembled struct are cut. Half of the time the first operand gets a list
// length that leaves spare capacity in its backing array (3, 5, 6, 7 appends) and the next operand fits into that room.
func (g *G) mergeCuts(n *spec.Node) {
	n.MergeTwo = g.pct(40)
	cut := func(l int) [2]int {
		a, b := 0, 0
		if l > 0 {
			a = g.R.Intn(l + 1)
			b = g.R.Range(a, l)
		}
		if g.pct(50) {
			room := map[int]int{3: 1, 5: 3, 6: 2, 7: 1}
			for _, c := range []int{7, 6, 5, 3} {
				if c < l && g.pct(60) {
					a = c
					b = a + g.R.Range(1, room[c])
					if b > l {
						b = l
					}
					if g.pct(50) && l-a <= room[c] {
						b = l // nothing left for the third operand
					}
					break
				}
			}
		}
		if n.MergeTwo {
			b = l
		}
		return [2]int{a, b}
	}
	n.MergeCuts = [3][2]int{cut(len(n.Fields)), cut(len(n.Tests)), cut(len(n.Posts))}
}

func (g *G) posts(n *spec.Node) {
	if !g.O.Posts || !g.pct(20) {
		return
	}
	k := g.R.Range(1, 2)
	for i := 0; i < k; i++ {
		n.Posts = append(n.Posts, spec.Post{Name: fmt.Sprintf("noop%d", i)})
	}
}

func (g *G) commonMods(n *spec.Node, mkVal func() any) {
	add := func(m spec.Mod) { n.Mods = append(n.Mods, m) }
	rounds := 1
	if g.O.ModChains && g.pct(30) {
		rounds = g.R.Range(2, 3)
	}
	for i := 0; i < rounds; i++ {
		if g.pct(g.O.RequiredPct) {
			add(spec.Mod{Op: spec.MRequired, Opts: g.testOpts(true)})
		} else if g.O.ModChains && g.pct(30) {
			add(spec.Mod{Op: spec.MOptional})
		}
		if g.pct(g.O.DefaultPct) {
			add(spec.Mod{Op: spec.MDefault, Val: mkVal()})
		}
		if n.Kind != spec.Slice && g.pct(g.O.CatchPct) {
			add(spec.Mod{Op: spec.MCatch, Val: mkVal()})
		}
	}
	// shuffle the order of calls: only the last of each kind matters
	if g.O.ModChains && len(n.Mods) > 1 {
		p := g.R.Perm(len(n.Mods))
		m2 := make([]spec.Mod, len(n.Mods))
		for i, j := range p {
			m2[i] = n.Mods[j]
		}
		n.Mods = m2
	}
}

func (g *G) primitive(n *spec.Node) {
	switch n.Kind {
	case spec.String:
		g.stringNode(n)
	case spec.Bool:
		n.Witness = g.R.Bool()
		g.commonMods(n, func() any { return g.R.Bool() })
		if g.pct(30) {
			if n.Witness.(bool) {
				n.Tests = append(n.Tests, spec.Test{Op: spec.TTrue})
			} else {
				n.Tests = append(n.Tests, spec.Test{Op: spec.TFalse})
			}
		} else if g.pct(15) {
			n.Tests = append(n.Tests, spec.Test{Op: spec.TEQ, Arg: n.Witness})
		}
		g.maybeCustomOnPrimitive(n)
	case spec.Time:
		w := BaseTime.Add(time.Duration(g.R.Range(-1000, 1000)) * time.Hour)
		n.Witness = w
		g.commonMods(n, func() any { return BaseTime.Add(time.Duration(g.R.Range(-2000, 2000)) * time.Hour) })
		nt := g.R.Intn(3)
		for i := 0; i < nt; i++ {
			d := time.Duration(g.R.Range(1, 500)) * time.Hour
			switch g.R.Intn(3) {
			case 0:
				n.Tests = append(n.Tests, spec.Test{Op: spec.TAfter, Arg: w.Add(-d), Opts: g.testOpts(false)})
			case 1:
				n.Tests = append(n.Tests, spec.Test{Op: spec.TBefore, Arg: w.Add(d), Opts: g.testOpts(false)})
			case 2:
				n.Tests = append(n.Tests, spec.Test{Op: spec.TEQ, Arg: w.In(time.FixedZone("x", 3600*g.R.Range(-5, 5))), Opts: g.testOpts(false)})
			}
		}
		if (g.O.Coercers || g.O.TimeLayouts) && g.pct(25) {
			n.Layout = []string{"2006-01-02", time.RFC1123, "02/01/2006 15:04", time.RFC3339Nano}[g.R.Intn(4)]
		}
		g.maybeCustomOnPrimitive(n)
	default:
		g.numberNode(n)
	}
	if g.O.Coercers && n.Coercer == nil && n.Layout == "" && g.pct(10) {
		n.Coercer = &spec.CoercerSpec{Mark: n.Witness}
		if g.pct(25) {
			// a coercer that accepts nothing: every present input, also one that already has the destination's type, is un-coercible
			n.Coercer = &spec.CoercerSpec{Fail: true}
		}
	}
	g.posts(n)
}

func (g *G) maybeCustomOnPrimitive(n *spec.Node) {
	if g.pct(15) {
		n.Tests = append(n.Tests, g.fixedTest("pt"))
	}
}

func numOf(k spec.Kind, v int64) any {
	switch k {
	case spec.Int:
		return int(v)
	case spec.Int32:
		return int32(v)
	case spec.Int64:
		return v
	case spec.Float32:
		return float32(v)
	case spec.Float64:
		return float64(v)
	}
	panic("numOf")
}

func (g *G) numberNode(n *spec.Node) {
	w := int64(g.R.Range(-50, 200))
	if w == 0 {
		w = 7
	}
	n.Witness = numOf(n.Kind, w)
	g.commonMods(n, func() any { return numOf(n.Kind, int64(g.R.Range(-60, 220))) })
	nt := g.R.Intn(4)
	for i := 0; i < nt; i++ {
		d := int64(g.R.Range(0, 30))
		var t spec.Test
		switch g.R.Intn(6) {
		case 0:
			t = spec.Test{Op: spec.TGT, Arg: numOf(n.Kind, w-d-1)}
		case 1:
			t = spec.Test{Op: spec.TGTE, Arg: numOf(n.Kind, w-d)}
		case 2:
			t = spec.Test{Op: spec.TLT, Arg: numOf(n.Kind, w+d+1)}
		case 3:
			t = spec.Test{Op: spec.TLTE, Arg: numOf(n.Kind, w+d)}
		case 4:
			t = spec.Test{Op: spec.TEQ, Arg: numOf(n.Kind, w)}
		case 5:
			list := reflect.MakeSlice(reflect.SliceOf(n.GoType()), 0, 3)
			list = reflect.Append(list, reflect.ValueOf(numOf(n.Kind, w)))
			for j := 0; j < g.R.Intn(3); j++ {
				list = reflect.Append(list, reflect.ValueOf(numOf(n.Kind, w+int64(g.R.Range(1, 9)))))
			}
			t = spec.Test{Op: spec.TOneOf, Arg: list.Interface()}
		}
		t.Opts = g.testOpts(false)
		n.Tests = append(n.Tests, t)
	}
	g.maybeCustomOnPrimitive(n)
}

var emailPool = []string{"a@b.co", "kilo@example.com", "x.y+z@sub.example.org"}
var uuidPool = []string{"123e4567-e89b-12d3-a456-426614174000", "00000000-0000-0000-0000-000000000000", "ABCDEF01-2345-6789-abcd-ef0123456789"}

func (g *G) stringNode(n *spec.Node) {
	// pick a witness family, then tests the witness satisfies
	fam := g.R.Intn(10)
	var w string
	switch {
	case fam == 0:
		w = emailPool[g.R.Intn(len(emailPool))]
	case fam == 1:
		w = uuidPool[g.R.Intn(len(uuidPool))]
	case fam == 2:
		urls := []string{}
		for _, k := range ref.URLPoolKeys() {
			if ok, _ := ref.URLLabel(k); ok {
				urls = append(urls, k)
			}
		}
		w = urls[g.R.Intn(len(urls))]
	default:
		w = Word(g.R)
	}
	n.Witness = w
	g.commonMods(n, func() any {
		if fam == 2 {
			keys := ref.URLPoolKeys()
			return keys[g.R.Intn(len(keys))]
		}
		return Word(g.R)
	})
	add := func(t spec.Test) {
		t.Opts = g.testOpts(false)
		n.Tests = append(n.Tests, t)
	}
	switch fam {
	case 0:
		add(spec.Test{Op: spec.TEmail})
	case 1:
		add(spec.Test{Op: spec.TUUID})
	case 2:
		add(spec.Test{Op: spec.TURL})
		n.Tests[len(n.Tests)-1].Opts.Path = nil
	}
	nt := g.R.Intn(4)
	for i := 0; i < nt; i++ {
		if fam == 2 {
			break // URL-tested nodes only see strings from the labelled pool
		}
		switch g.R.Intn(13) {
		case 0:
			add(spec.Test{Op: spec.TMin, N: g.R.Range(0, len(w))})
		case 1:
			add(spec.Test{Op: spec.TMax, N: len(w) + g.R.Intn(5)})
		case 2:
			add(spec.Test{Op: spec.TLen, N: len(w)})
		case 3:
			add(spec.Test{Op: spec.THasPrefix, Arg: w[:g.R.Intn(len(w)+1)]})
		case 4:
			add(spec.Test{Op: spec.THasSuffix, Arg: w[g.R.Intn(len(w)+1):]})
		case 5:
			a := g.R.Intn(len(w) + 1)
			b := a + g.R.Intn(len(w)-a+1)
			add(spec.Test{Op: spec.TContains, Arg: w[a:b]})
		case 6:
			if ok, _ := ref.TestHolds(&spec.Test{Op: spec.TContainsUpper}, w); ok {
				add(spec.Test{Op: spec.TContainsUpper})
			} else {
				add(spec.Test{Op: spec.TContainsUpper, Not: true})
			}
		case 7:
			if ok, _ := ref.TestHolds(&spec.Test{Op: spec.TContainsDigit}, w); ok {
				add(spec.Test{Op: spec.TContainsDigit})
			} else {
				add(spec.Test{Op: spec.TContainsDigit, Not: true})
			}
		case 8:
			if ok, _ := ref.TestHolds(&spec.Test{Op: spec.TContainsSpecial}, w); ok {
				add(spec.Test{Op: spec.TContainsSpecial})
			} else {
				add(spec.Test{Op: spec.TContainsSpecial, Not: true})
			}
		case 9:
			list := []string{w}
			for j := 0; j < g.R.Intn(3); j++ {
				list = append(list, Word(g.R))
			}
			add(spec.Test{Op: spec.TOneOf, Arg: list})
		case 10:
			// a negated test the witness satisfies: Not().HasPrefix(something else)
			other := "~" + Word(g.R)
			add(spec.Test{Op: spec.THasPrefix, Not: true, Arg: other})
		case 11:
			e := ref.RegexCatalogue[g.R.Intn(len(ref.RegexCatalogue))]
			holds := e.Pred(w)
			add(spec.Test{Op: spec.TMatch, Re: regexp.MustCompile(e.Pattern), Not: !holds})
		case 12:
			if !ref.IsEmail(w) {
				add(spec.Test{Op: spec.TEmail, Not: true})
			}
		}
	}
	// occasionally a negated test with an empty argument (always fails: every string contains / starts / ends with ""),
	// placed before the other tests so that a negation leaking onto the next builder call is visible
	if fam > 2 && g.pct(5) {
		op := []spec.TestOp{spec.TContains, spec.THasPrefix, spec.THasSuffix}[g.R.Intn(3)]
		t := spec.Test{Op: op, Not: true, Arg: ""}
		t.Opts = g.testOpts(false)
		n.Tests = append([]spec.Test{t}, n.Tests...)
	}
	g.maybeCustomOnPrimitive(n)
}

func (g *G) sliceMods(n *spec.Node) {
	if g.pct(g.O.RequiredPct) {
		n.Mods = append(n.Mods, spec.Mod{Op: spec.MRequired, Opts: g.testOpts(true)})
	}
	if g.pct(g.O.DefaultPct) && defaultableElem(n.Elem) {
		k := g.R.Range(1, 3)
		sl := reflect.MakeSlice(n.GoType(), 0, k)
		for i := 0; i < k; i++ {
			if g.pct(25) {
				// a zero-valued item (0, false, "", the zero time) inside a default: in Parse a present value unless it is a blank string
				sl = reflect.Append(sl, reflect.Zero(n.GoType().Elem()))
				continue
			}
			sl = reflect.Append(sl, reflect.ValueOf(n.Elem.Witness))
		}
		n.Mods = append(n.Mods, spec.Mod{Op: spec.MDefault, Val: sl.Interface()})
	}
}

func defaultableElem(e *spec.Node) bool { return e.Kind.IsPrimitive() && e.Witness != nil }

func (g *G) sliceTests(n *spec.Node) {
	nt := g.R.Intn(3)
	for i := 0; i < nt; i++ {
		var t spec.Test
		switch g.R.Intn(4) {
		case 0:
			t = spec.Test{Op: spec.TMin, N: g.R.Range(0, 3)}
		case 1:
			t = spec.Test{Op: spec.TMax, N: g.R.Range(1, 5)}
		case 2:
			t = spec.Test{Op: spec.TLen, N: g.R.Range(1, 3)}
		case 3:
			if infallible(n.Elem) && n.Elem.Witness != nil {
				t = spec.Test{Op: spec.TContains, Arg: n.Elem.Witness}
			} else {
				t = g.fixedTest("sl")
			}
		}
		if t.Op != spec.TCustom {
			t.Opts = g.testOpts(false)
		}
		n.Tests = append(n.Tests, t)
	}
}

// infallible: an element schema that can neither fail nor change the value (so slice Contains has a defined subject).
func infallible(e *spec.Node) bool {
	return e.Kind == spec.String && len(e.Tests) == 0 && len(e.Mods) == 0 && e.Coercer == nil
}

func (g *G) customPred(ct spec.CustomType) spec.Test {
	t := spec.Test{Op: spec.TCustom}
	switch ct.Name {
	case "int":
		lim := g.R.Range(0, 50)
		t.PredName, t.Pred = fmt.Sprintf("int>=%d", lim), func(v any) bool { return v.(int) >= lim }
	case "string":
		t.PredName, t.Pred = "nonempty", func(v any) bool { return v.(string) != "" }
	case "CRec":
		t.PredName, t.Pred = "A>0", func(v any) bool { return v.(spec.CRec).A > 0 }
	case "[]int":
		t.PredName, t.Pred = "len<3", func(v any) bool { return len(v.([]int)) < 3 }
	}
	t.Opts = g.testOpts(false)
	if t.Opts.Message == nil && t.Opts.MsgFunc == nil {
		s := "custom failed"
		t.Opts.Message = &s
	}
	return t
}

func (g *G) preNode(n *spec.Node, depth int) {
	// supported inners: String, Int, Float64, Bool primitives and Slice(String)
	kinds := []spec.Kind{spec.String, spec.Int, spec.Float64, spec.Bool}
	inner := &spec.Node{Kind: kinds[g.R.Intn(len(kinds))]}
	g.primitive(inner)
	inner.Coercer = nil
	n.Elem = inner
	switch g.R.Intn(3) {
	case 0:
		n.PreName, n.PreFn = "identity-typed", func(d any) (any, error) {
			return coerceForPre(inner, d)
		}
	case 1:
		n.PreName, n.PreFn = "fail-on-bang", func(d any) (any, error) {
			if s, ok := d.(string); ok && strings.HasPrefix(s, "!") {
				return nil, fmt.Errorf("preprocess refused %q", s)
			}
			if sp, ok := d.(*string); ok && sp != nil && strings.HasPrefix(*sp, "!") {
				return nil, fmt.Errorf("preprocess refused %q", *sp)
			}
			return coerceForPre(inner, d)
		}
	case 2:
		w := inner.Witness
		n.PreName, n.PreFn = "const-witness", func(d any) (any, error) { return w, nil }
	}
}

func coerceForPre(inner *spec.Node, d any) (any, error) {
	// in Validate the function is handed the pointer to the value: work on the pointee
	if rv := reflect.ValueOf(d); rv.IsValid() && rv.Kind() == reflect.Ptr && !rv.IsNil() {
		d = rv.Elem().Interface()
	}
	c := ref.CoercePrimitive(inner, d)
	if !c.OK {
		return nil, fmt.Errorf("cannot preprocess a %T", d)
	}
	return c.V, nil
}
