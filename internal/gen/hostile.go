package gen

import (
	"net/http"
	"net/url"
	"database/sql"
	"math"
	"reflect"
	"strings"
	"time"

	"zogverif/internal/rng"
)

type NamedMap map[string]any
type NamedMapS map[string]string
type NamedStr string
type NamedInt int
type NamedFloat float64
type NamedBool bool
type NamedSlice []any
type NamedStrSlice []string
type KeyStr string

type hInner struct {
	V string
	n int
}
type HEmb struct{ E string }
type hembPriv struct{ P string }
type HStruct struct {
	A     string
	b     int
	C     *int
	D     []string
	Inner hInner
	*HEmb
	hembPriv
	F func()
	G chan int
	H any
	I map[string]any
}

func ptrTo(v any) any {
	p := reflect.New(reflect.TypeOf(v))
	p.Elem().Set(reflect.ValueOf(v))
	return p.Interface()
}

func ptrChain(v any, depth int) any {
	for i := 0; i < depth; i++ {
		v = ptrTo(v)
	}
	return v
}

// HostileValues returns Go values of unusual dynamic types and shapes (all acyclic and finite).
func HostileValues() []any {
	one := 1
	var nilIntPtr *int
	var nilMap map[string]any
	var nilNamedMap NamedMap
	var nilSlice []any
	var nilStrSlice []string
	var nilStruct *HStruct
	var nilIface any
	var nilFunc func()
	var nilChan chan int
	bigStr := strings.Repeat("A", 1<<20)
	long := make([]any, 5000)
	for i := range long {
		long[i] = i
	}
	vals := []any{
		// maps of named / unusual types
		NamedMap{"a": "x", "f": 1}, NamedMapS{"a": "x"}, map[string]NamedStr{"a": "x"}, map[KeyStr]any{"a": 1}, map[NamedStr]NamedStr{"a": "b"},
		map[int]any{1: "a"}, map[any]any{"a": 1}, map[bool]string{true: "t"}, map[string]int{"a": 1, "f": 2}, map[string]float64{"a": 1.5}, map[string]bool{"a": true},
		map[string]string{"a": "s", "f": "t"}, map[string][]string{"a": {"x"}}, map[string]map[string]any{"a": {"b": 1}}, map[string]*int{"a": &one}, map[string]NamedInt{"a": 1},
		map[string]any{}, map[string]string{}, map[string]any{"": 1}, map[string]any{"a": nil}, map[string]int32{"a": 1}, map[string]uint{"a": 1}, map[string]time.Time{"a": BaseTime},
		map[string]struct{}{"a": {}}, map[string]func(){"a": nil}, map[string]chan int{"a": nil}, map[[2]int]string{{1, 2}: "x"},
		// database/sql wrapper types (driver.Valuer with value receivers), also as typed-nil pointers
		sql.NullString{}, sql.NullString{String: "s", Valid: true}, (*sql.NullString)(nil), (*sql.NullTime)(nil), (*sql.NullInt64)(nil), &sql.NullInt64{Int64: 3, Valid: true}, map[string]any{"a": (*sql.NullString)(nil), "f": (*sql.NullBool)(nil)}, []any{(*sql.NullFloat64)(nil)},
		// multi-valued maps with empty lists (hand-built url.Values / http.Header), pointers to nil pointers to lists
		url.Values{"a": {}, "f": nil, "tags": {}}, http.Header{"A": {}}, map[string][]string{"a": {}, "f": {"x"}}, ptrToNilSlicePtr(), ptrToNilIntPtr(),
		// named string keys over element types the providers do not convert
		map[KeyStr][]string{"a": {"x"}, "f": {"y", "z"}}, map[KeyStr]int64{"a": 1, "f": 2}, map[KeyStr]time.Time{"a": BaseTime}, map[KeyStr]*int{"a": &one}, map[NamedStr]map[string]any{"a": {"b": 1}}, map[KeyStr]struct{ A int }{"a": {1}},
		// structs
		HStruct{A: "x", b: 2, C: &one, D: []string{"d"}}, &HStruct{A: "y"}, HStruct{HEmb: &HEmb{E: "e"}}, struct{}{}, struct{ a, f int }{1, 2}, struct{ A, F any }{nil, nil},
		struct{ A *HStruct }{nil}, struct {
			A string `zog:"a"`
			F string `json:"f"`
		}{"x", "y"},
		// typed nils
		nilIntPtr, nilMap, nilNamedMap, nilSlice, nilStrSlice, nilStruct, nilIface, nilFunc, nilChan, (*string)(nil), (*time.Time)(nil), (*map[string]any)(nil), (*[]any)(nil), (**int)(nil),
		// pointer chains
		ptrChain("str", 1), ptrChain("str", 5), ptrChain(7, 3), ptrChain(map[string]any{"a": "x", "f": "y"}, 1), ptrChain(map[string]any{"a": "x"}, 4), ptrChain([]any{"a"}, 2), ptrChain(HStruct{A: "z"}, 3),
		ptrChain(nilIntPtr, 2), ptrChain(NamedMap{"a": 1}, 2), ptrChain(true, 2), ptrChain(BaseTime, 1), ptrChain(1.5, 2),
		// numbers
		math.NaN(), math.Inf(1), math.Inf(-1), math.Copysign(0, -1), math.MaxFloat64, math.SmallestNonzeroFloat64, float32(math.NaN()), float32(math.Inf(1)), math.MaxInt64, math.MinInt64,
		uint64(math.MaxUint64), uint(1), uint8(255), int8(-128), int16(1), uintptr(1), complex(1, 2), complex64(complex(1, 1)), NamedInt(5), NamedFloat(1.5), NamedBool(true), 1e19, -1e19, 1e300, int32(math.MinInt32),
		// strings
		"", " ", "\x00", "\xff\xfe\xfd", "a\xc3(", string([]byte{0xed, 0xa0, 0x80}), bigStr, NamedStr("named"), NamedStr(""), []byte("bytes"), []rune("runes"), "‮​", strings.Repeat("é", 70000), strings.Repeat("\x80", 200), strings.Repeat("\xbf", 129), "x" + strings.Repeat("\x80", 300), strings.Repeat("\xe2\x82", 100),
		// slices, arrays
		[]any{}, []any{nil}, []any{nil, nil}, NamedSlice{"a", 1}, NamedStrSlice{"a"}, [3]int{1, 2, 3}, [0]string{}, [2]any{"a", nil}, []map[string]any{{"a": 1}}, []*int{&one, nil}, [][]any{{1}, nil},
		[]HStruct{{A: "a"}}, []any{[]any{[]any{[]any{"deep"}}}}, long, []string{"x", "y"}, []int{1, 2}, []float64{1.5}, []bool{true}, []time.Time{BaseTime}, []NamedStr{"n"}, []any{map[string]any{"a": NamedMap{"b": 1}}},
		// other kinds
		make(chan int), func() {}, func(a int) int { return a }, time.Duration(5), time.Time{}, &time.Time{}, BaseTime, time.UTC, reflect.ValueOf(1), reflect.TypeOf(1), errString("an error value"), &one,
		true, false, 0, 1, -1, 'x', byte(1),
	}
	return vals
}

type errString string

func (e errString) Error() string { return string(e) }

// InjectHostile replaces a random position of data (a tree of map[string]any / []any) by the hostile value.
func InjectHostile(r *rng.Rand, data any, h any) any {
	switch x := data.(type) {
	case map[string]any:
		if len(x) == 0 || r.Intn(4) == 0 {
			return h
		}
		keys := make([]string, 0, len(x))
		for k := range x {
			keys = append(keys, k)
		}
		sortStrings(keys)
		k := keys[r.Intn(len(keys))]
		out := map[string]any{}
		for kk, v := range x {
			out[kk] = v
		}
		out[k] = InjectHostile(r, x[k], h)
		return out
	case []any:
		if len(x) == 0 || r.Intn(4) == 0 {
			return h
		}
		i := r.Intn(len(x))
		out := append([]any{}, x...)
		out[i] = InjectHostile(r, x[i], h)
		return out
	}
	return h
}

func sortStrings(s []string) {
	for i := 1; i < len(s); i++ {
		for j := i; j > 0 && s[j] < s[j-1]; j-- {
			s[j], s[j-1] = s[j-1], s[j]
		}
	}
}

func ptrToNilSlicePtr() any { var np *[]string; return &np }
func ptrToNilIntPtr() any   { var np *int; pp := &np; return &pp }
