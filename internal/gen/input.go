package gen

import (
	"fmt"
	"math"
	"reflect"
	"strings"
	"time"

	"zogverif/internal/obs"
	"zogverif/internal/ref"
	"zogverif/internal/rng"
	"zogverif/internal/spec"
)

// InOpts steer input generation.
type InOpts struct {
	ValidPct  int  // probability (per node) of choosing the witness
	AbsentPct int  // probability of an absent-looking value
	WrongPct  int  // probability of a wrongly typed / un-coercible value
	AltRep    bool // use alternative coercible representations for valid values ("1" for 1, "on" for true ...)
	Decoys    bool // add keys that look like schema keys (case variants) to maps
}

var blankPool = []any{nil, "", " ", "\t\n", " ", "  　", " \r\n "}

// ParseInput generates input data for Parse on node n.
func ParseInput(r *rng.Rand, n *spec.Node, o InOpts) any {
	c := r.Intn(100)
	switch n.Kind {
	case spec.Struct:
		if c < o.AbsentPct/3 {
			return nil
		}
		if c < o.AbsentPct/3+o.WrongPct/2 {
			return []any{"not a record", 42, []any{1, 2}, true, 3.5, "", "  "}[r.Intn(7)] // a blank string is not a record either
		}
		m := map[string]any{}
		for i := range n.Fields {
			f := &n.Fields[i]
			key := f.DataKey("")
			if r.Intn(100) < o.AbsentPct/2 {
				if o.Decoys && r.Bool() {
					// keys that only look like the wanted key (other case, suffix): they must be ignored
					m[strings.ToUpper(key)+"_"] = "decoy"
					if up := strings.ToUpper(key); up != key {
						m[up] = ParseInput(r, f.Node, InOpts{ValidPct: 50, WrongPct: 20})
					}
					if ti := strings.ToUpper(key[:1]) + strings.ToLower(key[1:]); ti != key && r.Bool() {
						m[ti] = ParseInput(r, f.Node, InOpts{ValidPct: 50, WrongPct: 20})
					}
				}
				continue // missing key
			}
			m[key] = ParseInput(r, f.Node, o)
		}
		if o.Decoys && r.Intn(4) == 0 {
			m["unrelated_key"] = "x"
		}
		return m
	case spec.Slice:
		if c < o.AbsentPct {
			return blankPool[r.Intn(len(blankPool))]
		}
		if c < o.AbsentPct+o.WrongPct/2 {
			// a scalar is boxed into a one-element slice
			return ParseInput(r, n.Elem, o)
		}
		k := r.Intn(4)
		if r.Intn(10) == 0 {
			k = r.Range(4, 7)
		}
		if k == 0 && r.Bool() {
			// a nil slice is a list like any other: present, length 0 (`var tags []string`, a slice field of a record that was never set)
			if n.Elem.Kind == spec.String && r.Bool() {
				return []string(nil)
			}
			return []any(nil)
		}
		out := make([]any, k)
		for i := range out {
			out[i] = ParseInput(r, n.Elem, o)
		}
		return out
	case spec.Ptr:
		if c < o.AbsentPct {
			return blankPool[r.Intn(len(blankPool))]
		}
		return ParseInput(r, n.Elem, o)
	case spec.Custom:
		if c < o.WrongPct {
			return []any{nil, "wrong", 1.5, []any{1}}[r.Intn(4)]
		}
		return customValue(r, n.CustomT)
	case spec.Pre:
		if c < o.WrongPct {
			return "!refuse"
		}
		v := ParseInput(r, n.Elem, InOpts{ValidPct: 70, WrongPct: 20})
		if ref.IsAbsentParse(v) {
			return altRep(r, n.Elem, n.Elem.Witness)
		}
		return v
	}
	// primitives
	if c < o.ValidPct {
		if o.AltRep && r.Bool() {
			return altRep(r, n, n.Witness)
		}
		return wire(n, n.Witness)
	}
	c -= o.ValidPct
	if c < o.AbsentPct {
		return blankPool[r.Intn(len(blankPool))]
	}
	c -= o.AbsentPct
	if c < o.WrongPct {
		return wrongFor(r, n)
	}
	// another value of the right type (may violate tests)
	v := otherValue(r, n)
	if o.AltRep && r.Bool() {
		return altRep(r, n, v)
	}
	return wire(n, v)
}

// wire returns the value as the Go type of the node (the most direct representation).
func wire(n *spec.Node, v any) any { return v }

func otherValue(r *rng.Rand, n *spec.Node) any {
	switch n.Kind {
	case spec.String:
		if hasTest(n, spec.TURL) {
			k := ref.URLPoolKeys()
			return k[r.Intn(len(k))]
		}
		if r.Intn(6) == 0 {
			return strings.Repeat(Word(r), r.Range(1, 4))
		}
		if r.Intn(40) == 0 {
			// Go strings are byte strings: text that is not valid UTF-8 (latin-1 bytes, a truncated rune) is a value like any other
			return []string{"caf\xe9", "\xffA\xfeB", "a\xe2\x82", "\xc3\x28ok"}[r.Intn(4)]
		}
		if r.Intn(30) == 0 {
			// invisible but not white space: present, non-zero text (zero width space, byte order mark, word joiner, soft hyphen)
			return []string{"\u200b", "\ufeff", "\u2060\u200b", "\u00ad", "\u200e \u200b"}[r.Intn(5)]
		}
		return Word(r)
	case spec.Bool:
		return r.Bool()
	case spec.Time:
		switch r.Intn(40) {
		case 0:
			return time.Time{}.In(time.FixedZone("plus1", 3600)) // the zero instant, but not the zero value of the type
		case 1:
			return time.Date(1600, 1, 1, 0, 0, 0, 0, time.UTC) // outside the int64-nanosecond range
		case 2:
			return time.Date(2300, 1, 1, 0, 0, 0, 0, time.UTC)
		}
		return BaseTime.Add(time.Duration(r.Range(-3000, 3000)) * time.Hour)
	default:
		if (n.Kind == spec.Float32 || n.Kind == spec.Float64) && r.Intn(12) == 0 {
			// the values on which Go's comparison operators and a total order disagree
			f := []float64{math.NaN(), math.Inf(1), math.Inf(-1), math.Copysign(0, -1), math.NaN()}[r.Intn(5)]
			if n.Kind == spec.Float32 {
				return float32(f)
			}
			return f
		}
		if r.Intn(30) == 0 {
			// extremes of the type
			switch n.Kind {
			case spec.Float32:
				return []any{float32(math.MaxFloat32), float32(-math.MaxFloat32), float32(math.SmallestNonzeroFloat32)}[r.Intn(3)]
			case spec.Float64:
				return []any{math.MaxFloat64, -math.MaxFloat64, 1e-300}[r.Intn(3)]
			case spec.Int32:
				return []any{int32(math.MaxInt32), int32(math.MinInt32)}[r.Intn(2)]
			case spec.Int64:
				return []any{int64(math.MaxInt64), int64(math.MinInt64)}[r.Intn(2)]
			case spec.Int:
				return []any{math.MaxInt, math.MinInt}[r.Intn(2)]
			}
		}
		return numOf(n.Kind, int64(r.Range(-80, 260)))
	}
}

func hasTest(n *spec.Node, op spec.TestOp) bool {
	for i := range n.Tests {
		if n.Tests[i].Op == op {
			return true
		}
	}
	return false
}

// altRep renders a value of the node's type in another documented, coercible representation.
func altRep(r *rng.Rand, n *spec.Node, v any) any {
	switch n.Kind {
	case spec.String:
		return v
	case spec.Bool:
		b := v.(bool)
		if b {
			return []any{true, "true", "on", "1", "T", "TRUE", 1}[r.Intn(7)]
		}
		return []any{false, "false", "off", "0", "F", "False", 0}[r.Intn(7)]
	case spec.Time:
		t := v.(time.Time)
		if n.Layout != "" {
			return t.Format(n.Layout)
		}
		switch r.Intn(3) {
		case 0:
			return t.Format(time.RFC3339)
		case 1:
			return int(t.Unix())
		}
		return t.Unix()
	case spec.Int, spec.Int32, spec.Int64:
		i := reflect.ValueOf(v).Int()
		switch r.Intn(6) {
		case 0:
			return fmt.Sprint(i)
		case 1:
			return int(i)
		case 2:
			return int64(i)
		case 3:
			return int32(i)
		case 4:
			return float64(i)
		}
		return float64(i) + 0.75*sign(i)
	case spec.Float32, spec.Float64:
		f := reflect.ValueOf(v).Float()
		switch r.Intn(4) {
		case 0:
			return fmt.Sprint(f)
		case 1:
			return f
		case 2:
			if f == float64(int(f)) {
				return int(f)
			}
			return f
		}
		return float32(f)
	}
	return v
}

func sign(i int64) float64 {
	if i < 0 {
		return -1
	}
	return 1
}

func wrongFor(r *rng.Rand, n *spec.Node) any {
	switch n.Kind {
	case spec.String:
		// everything coerces to string through %v: ints, bools, floats, slices
		return []any{42, true, 2.5, []any{1, "a"}, int64(7), 1e21, 0.00001}[r.Intn(7)]
	case spec.Bool:
		return []any{"maybe", 2, 1.5, "yes", []any{true}, "TrUe"}[r.Intn(6)]
	case spec.Time:
		return []any{"not a time", "2024-13-45", true, 1.5, "2024-01-02", []any{}}[r.Intn(6)]
	default:
		return []any{"abc", "1.5x", "--1", []any{1}, map[string]any{"a": 1}, "1e", "0x10"}[r.Intn(7)]
	}
}

func customValue(r *rng.Rand, ct *spec.CustomType) any {
	switch ct.Name {
	case "int":
		return r.Range(-10, 60)
	case "string":
		return []string{"", "x", "custom value"}[r.Intn(3)]
	case "CRec":
		return spec.CRec{A: r.Range(-2, 5), B: Word(r)}
	case "[]int":
		k := r.Intn(5)
		s := make([]int, k)
		for i := range s {
			s[i] = r.Intn(9)
		}
		return s
	}
	panic("customValue")
}

// ValueTree generates a value (tree form) of the node's Go type for Validate.
// populated=true: no zero-valued leaf, no empty slice, no nil pointer.
func ValueTree(r *rng.Rand, n *spec.Node, o InOpts, populated bool) any {
	c := r.Intn(100)
	switch n.Kind {
	case spec.Struct:
		m := map[string]any{}
		for i := range n.Fields {
			f := &n.Fields[i]
			m[f.GoName] = ValueTree(r, f.Node, o, populated)
		}
		for _, x := range n.ExtraFields {
			m[x.GoName] = SentinelFor(x.Type)
		}
		return m
	case spec.Slice:
		if !populated && c < o.AbsentPct {
			if r.Bool() {
				return []any(nil)
			}
			return []any{}
		}
		k := r.Range(1, 3)
		out := make([]any, k)
		for i := range out {
			out[i] = ValueTree(r, n.Elem, o, populated)
		}
		return out
	case spec.Ptr:
		if !populated && c < o.AbsentPct {
			return obs.PtrV{Nil: true}
		}
		return obs.PtrV{V: ValueTree(r, n.Elem, o, populated)}
	case spec.Custom:
		v := customValue(r, n.CustomT)
		if populated {
			for i := 0; i < 20 && reflect.ValueOf(v).IsZero(); i++ {
				v = customValue(r, n.CustomT)
			}
			if ct := n.CustomT; ct.Name == "[]int" {
				if s := v.([]int); len(s) == 0 {
					v = []int{1}
				} else {
					for i := range s {
						if s[i] == 0 {
							s[i] = 4
						}
					}
				}
			}
			if rec, ok := v.(spec.CRec); ok && (rec.A == 0 || rec.B == "") {
				v = spec.CRec{A: 3, B: "b"}
			}
		}
		return obs.Norm(v)
	case spec.Pre:
		return ValueTree(r, n.Elem, o, populated)
	}
	if c < o.ValidPct {
		return nonZero(n, n.Witness, populated)
	}
	if !populated && c < o.ValidPct+o.AbsentPct {
		if n.Kind == spec.String && r.Intn(6) == 0 {
			// white space is text: not the zero value of a string (Validate), whatever Parse makes of it as input
			return []string{" ", "   ", "\t", " \n "}[r.Intn(4)]
		}
		return obs.NormValue(reflect.Zero(n.GoType()))
	}
	return nonZero(n, otherValue(r, n), populated)
}

func nonZero(n *spec.Node, v any, populated bool) any {
	if !populated {
		return v
	}
	if n.Kind == spec.Bool {
		return true // false is the zero value
	}
	if ref.IsZeroValidate(v) {
		return n.Witness
	}
	if s, ok := v.(string); ok && strings.TrimSpace(s) == "" {
		return n.Witness
	}
	return v
}

// SentinelFor is the pre-fill value of destination fields the schema does not name.
func SentinelFor(t reflect.Type) any {
	switch t.Kind() {
	case reflect.String:
		return "sentinel-untouched"
	case reflect.Int:
		return -777
	}
	return obs.NormValue(reflect.Zero(t))
}

// Prefill generates a destination tree filled with sentinels, so that "not written" is observable:
// primitives get recognisable values, slices get stale elements with spare capacity, pointers are nil or stale.
func Prefill(r *rng.Rand, n *spec.Node, stale bool) any {
	switch n.Kind {
	case spec.Struct:
		m := map[string]any{}
		for i := range n.Fields {
			f := &n.Fields[i]
			m[f.GoName] = Prefill(r, f.Node, stale)
		}
		for _, x := range n.ExtraFields {
			m[x.GoName] = SentinelFor(x.Type)
		}
		return m
	case spec.Slice:
		if !stale || r.Bool() {
			return []any(nil)
		}
		k := r.Range(1, 8)
		out := make([]any, k)
		for i := range out {
			out[i] = Prefill(r, n.Elem, stale)
		}
		return out
	case spec.Ptr:
		if !stale || r.Bool() {
			return obs.PtrV{Nil: true}
		}
		return obs.PtrV{V: Prefill(r, n.Elem, stale)}
	case spec.Custom:
		return obs.NormValue(reflect.Zero(n.CustomT.Type))
	case spec.Pre:
		return Prefill(r, n.Elem, stale)
	case spec.String:
		if stale {
			return "stale-" + Word(r)
		}
		return ""
	case spec.Bool:
		return stale && r.Bool()
	case spec.Time:
		if stale {
			return BaseTime.Add(-99999 * time.Hour)
		}
		return time.Time{}
	default:
		if stale {
			return numOf(n.Kind, int64(-9000-r.Intn(100)))
		}
		return numOf(n.Kind, 0)
	}
}

// ToParseMap renders a value tree of node n as the map/slice data Parse would be given (keys = what Parse looks up for a plain map source).
func ToParseMap(n *spec.Node, tree any) any {
	switch n.Kind {
	case spec.Struct:
		m := map[string]any{}
		tm := tree.(map[string]any)
		for i := range n.Fields {
			f := &n.Fields[i]
			m[f.DataKey("")] = ToParseMap(f.Node, tm[f.GoName])
		}
		return m
	case spec.Slice:
		s, _ := tree.([]any)
		out := make([]any, len(s))
		for i := range s {
			out[i] = ToParseMap(n.Elem, s[i])
		}
		return out
	case spec.Ptr:
		p := tree.(obs.PtrV)
		if p.Nil {
			return nil
		}
		return ToParseMap(n.Elem, p.V)
	case spec.Custom:
		return obs.Make(n.CustomT.Type, tree).Interface()
	case spec.Pre:
		return ToParseMap(n.Elem, tree)
	}
	return tree
}
