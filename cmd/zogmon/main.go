// zogmon: runtime monitors for the zog properties C01..C20. Driver mode (default) spawns worker
// processes of the same binary; see internal/core.
package main

import (
	"encoding/json"
	"flag"
	"fmt"
	"os"
	"path/filepath"
	"runtime"
	"strconv"

	"zogverif/internal/core"
	_ "zogverif/internal/props"
)

func main() {
	var (
		worker  = flag.Bool("worker", false, "worker mode")
		prop    = flag.String("prop", "", "property id")
		tier    = flag.String("tier", "quick", "quick|thorough")
		seed    = flag.Int64("seed", 0, "seed (driver: defaults to VERIF_SEED or 1)")
		from    = flag.Int("from", 0, "")
		to      = flag.Int("to", 0, "")
		step    = flag.Int("step", 1, "")
		out     = flag.String("out", "", "")
		logp    = flag.String("log", "", "")
		root    = flag.String("root", "/verif", "verif root")
		race    = flag.String("racebin", "", "race-instrumented binary for race-aware monitors")
		alt     = flag.String("altbin", "", "binary built with the second toolchain; every second worker uses it")
		replay  = flag.String("replay", "", "replay file written by an earlier violation")
		workers = flag.Int("workers", 0, "number of worker processes")
		list    = flag.Bool("list", false, "list registered properties")
	)
	flag.Parse()
	if *list {
		for _, id := range core.IDs() {
			fmt.Println(id)
		}
		return
	}
	p := core.Lookup(*prop)
	if p == nil {
		fmt.Fprintf(os.Stderr, "unknown property %q\n", *prop)
		os.Exit(2)
	}
	t := core.Tier(*tier)
	if *worker {
		if err := core.RunWorker(p, t, *seed, *from, *to, *step, *out, *logp); err != nil {
			fmt.Fprintln(os.Stderr, "worker error:", err)
			os.Exit(3)
		}
		return
	}
	s := *seed
	if s == 0 {
		s = 1
		if v := os.Getenv("VERIF_SEED"); v != "" {
			if x, err := strconv.ParseInt(v, 10, 64); err == nil {
				s = x
			}
		}
	}
	only := -1
	if *replay != "" {
		b, err := os.ReadFile(*replay)
		if err != nil {
			fmt.Fprintln(os.Stderr, "cannot read replay file:", err)
			os.Exit(2)
		}
		var v core.Violation
		if err := json.Unmarshal(b, &v); err != nil {
			fmt.Fprintln(os.Stderr, "cannot parse replay file:", err)
			os.Exit(2)
		}
		if v.Case < 0 {
			fmt.Println("this violation is not tied to a single case (e.g. a race report); re-run the whole check")
			os.Exit(2)
		}
		s, only, t = v.Seed, v.Case, v.Tier
	}
	self, _ := os.Executable()
	w := *workers
	if w == 0 {
		w = runtime.NumCPU()
		if t == core.Quick && w > 8 {
			w = 8
		}
	}
	code := core.Drive(p, core.DriverOpts{Root: *root, Self: self, SelfRace: *race, AltBin: *alt, Tier: t, Seed: s, Workers: w, Only: only})
	_ = filepath.Join
	os.Exit(code)
}
